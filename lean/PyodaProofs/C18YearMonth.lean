/-
  C18 — `YearMonth.to_date_interval`: the interval of a year-month is exactly the set of days of that month.

  The calendar enters through C01's well-formedness predicate `WF c` on a calendar description (`Calc`); the last
  section instantiates it for the 19 ordinals of the library (`all19`, with C09's `Evaluated` hypotheses for the five
  calendars whose `WF` is discharged by evaluating `wfCheck` on the compiled driver: ops `cal.wf 4|5|8|17|18`).
  `OrdOk ord c` says that the ordinal's table paths (the two Gregorian ordinals use a 1900–2100 month-start table and an
  overridden validator) belong to the description.

    first c y m        day number of day 1 of month (y, m)
    last c y m         day number of its last day
    ymI ord c y m      the interval `[first, last]` in calendar `ord`
-/
import PyodaModel.Intervals
import PyodaProofs.Basic
import PyodaProofs.C01
import PyodaProofs.C01IsoFast
import PyodaProofs.C18
import PyodaProofs.C09All

namespace Pyoda.C18
open Pyoda Pyoda.Calendar Pyoda.Intervals Pyoda.Intervals.DateInterval Pyoda.C01

/-- only the two Gregorian ordinals take the table paths, and their description is `Greg.cal` -/
def OrdOk (ord : Nat) (c : Calc) : Prop := ord ≤ 1 → c = Greg.cal

/-- (y, m) is a month the calendar has -/
def ValidYM (c : Calc) (y m : Int) : Prop := c.minYear ≤ y ∧ y ≤ c.maxYear ∧ 1 ≤ m ∧ m ≤ c.months y

def first (c : Calc) (y m : Int) : Int := c.start y + c.toMonth y m
def last (c : Calc) (y m : Int) : Int := c.start y + c.toMonth y m + c.dim y m - 1
def ymI (ord : Nat) (c : Calc) (y m : Int) : DateInterval := ⟨⟨ord, first c y m⟩, ⟨ord, last c y m⟩⟩

variable {c : Calc}

theorem validYM_iff (hw : C01.WF c) (y m : Int) : validate c y m 1 = .ok () ↔ ValidYM c y m := by
  constructor
  · intro h
    obtain ⟨h1, h2, h3, h4, _, _⟩ := validate_inv h
    exact ⟨h1, h2, h3, h4⟩
  · rintro ⟨h1, h2, h3, h4⟩
    have := (hw.pack_day y m h1 h2 h3 h4).1
    exact validate_ok hw h1 h2 h3 h4 (by omega) this

theorem validate_one_err (_hw : C01.WF c) (y m : Int) (h : ¬ ValidYM c y m) : validate c y m 1 = .error .valueError := by
  unfold validate
  by_cases h1 : y < c.minYear ∨ y > c.maxYear
  · rw [checkRange_err h1]; rfl
  · rw [checkRange_ok (by omega) (by omega)]
    show (do checkRange m 1 (c.months y); checkRange 1 1 (c.dim y m)) = _
    by_cases h2 : m < 1 ∨ m > c.months y
    · rw [checkRange_err h2]; rfl
    · exfalso; apply h; exact ⟨by omega, by omega, by omega, by omega⟩

theorem validateOrd_eq {ord : Nat} (ho : OrdOk ord c) (y m d : Int) : validateOrd ord c y m d = validate c y m d := by
  unfold validateOrd
  by_cases h : ord ≤ 1
  · rw [if_pos h, ho h]; exact greg_validate_eq y m d
  · rw [if_neg h]

theorem dim_pos (hw : C01.WF c) {y m : Int} (hv : ValidYM c y m) : 1 ≤ c.dim y m :=
  (hw.pack_day y m hv.1 hv.2.1 hv.2.2.1 hv.2.2.2).1

theorem startDay_eq {ord : Nat} (hw : C01.WF c) (ho : OrdOk ord c) {y m : Int} (hv : ValidYM c y m) :
    YearMonth.startDay ord c y m = .ok (first c y m) := by
  unfold YearMonth.startDay first
  have e : daysOfYmdRaw c y m 1 = .ok (c.start y + c.toMonth y m) := by
    rw [daysOfYmdRaw_eq hw hv.1 hv.2.1]; congr 1; omega
  by_cases h : ord ≤ 1
  · rw [if_pos h]
    have hc := ho h
    subst hc
    rw [greg_daysOfYmdFast_eq y m 1 hv.2.2.1 hv.2.2.2]; exact e
  · rw [if_neg h]; exact e

theorem endDay_eq {ord : Nat} (hw : C01.WF c) (ho : OrdOk ord c) {y m : Int} (hv : ValidYM c y m) :
    YearMonth.endDay ord c y m = .ok (last c y m) := by
  unfold YearMonth.endDay daysOrd last
  have hd := dim_pos hw hv
  rw [validateOrd_eq ho, validate_ok hw hv.1 hv.2.1 hv.2.2.1 hv.2.2.2 hd (Int.le_refl _)]
  have e : daysOfYmdRaw c y m (c.dim y m) = .ok (c.start y + c.toMonth y m + c.dim y m - 1) :=
    daysOfYmdRaw_eq hw hv.1 hv.2.1
  show (if ord ≤ 1 then Greg.daysOfYmdFast y m (c.dim y m) else daysOfYmdRaw c y m (c.dim y m)) = _
  by_cases h : ord ≤ 1
  · rw [if_pos h]
    have hc := ho h
    subst hc
    rw [greg_daysOfYmdFast_eq y m _ hv.2.2.1 hv.2.2.2]; exact e
  · rw [if_neg h]; exact e

/-! ### what `to_date_interval` returns, and when it raises -/

/-- For a month the calendar has, `YearMonth(y, m).to_date_interval()` is `[first day, last day]` of that month. -/
theorem ym_interval_ok {ord : Nat} (hw : C01.WF c) (ho : OrdOk ord c) {y m : Int} (hv : ValidYM c y m) :
    YearMonth.toDateInterval ord c y m = .ok (ymI ord c y m) := by
  unfold YearMonth.toDateInterval YearMonth.new
  rw [validateOrd_eq ho, (validYM_iff hw y m).mpr hv]
  show (do let s ← YearMonth.startDay ord c y m; let e ← YearMonth.endDay ord c y m;
           DateInterval.new ⟨ord, s⟩ ⟨ord, e⟩) = _
  rw [startDay_eq hw ho hv, endDay_eq hw ho hv]
  show DateInterval.new ⟨ord, first c y m⟩ ⟨ord, last c y m⟩ = _
  have hd := dim_pos hw hv
  exact (new_ok_iff _ _ _).mpr ⟨⟨rfl, by show first c y m ≤ last c y m; unfold first last; omega⟩, rfl⟩

/-- It raises exactly for a year or month the calendar does not have, and then `ValueError`. -/
theorem ym_interval_raises_iff {ord : Nat} (hw : C01.WF c) (ho : OrdOk ord c) (y m : Int) :
    YearMonth.toDateInterval ord c y m = .error .valueError ↔ ¬ ValidYM c y m := by
  constructor
  · intro h hv; rw [ym_interval_ok hw ho hv] at h; cases h
  · intro h
    unfold YearMonth.toDateInterval YearMonth.new
    rw [validateOrd_eq ho, validate_one_err hw y m h]; rfl

theorem ym_interval_total {ord : Nat} (hw : C01.WF c) (ho : OrdOk ord c) (y m : Int) :
    (ValidYM c y m ∧ YearMonth.toDateInterval ord c y m = .ok (ymI ord c y m)) ∨
    (¬ ValidYM c y m ∧ YearMonth.toDateInterval ord c y m = .error .valueError) := by
  by_cases hv : ValidYM c y m
  · exact Or.inl ⟨hv, ym_interval_ok hw ho hv⟩
  · exact Or.inr ⟨hv, (ym_interval_raises_iff hw ho y m).mpr hv⟩

/-- The interval satisfies the constructor's invariant and has as many days as the month. -/
theorem ym_len {ord : Nat} (hw : C01.WF c) {y m : Int} (hv : ValidYM c y m) :
    WF (ymI ord c y m) ∧ (ymI ord c y m).len = c.dim y m := by
  have hd := dim_pos hw hv
  refine ⟨⟨rfl, ?_⟩, ?_⟩
  · show first c y m ≤ last c y m; unfold first last; omega
  · show last c y m - first c y m + 1 = _; unfold first last; omega

/-! ### the day set is the set of days of that month -/

/-- The `k`-th day of the interval (from 0) is day `k + 1` of month (y, m): iteration yields the month's days in order. -/
theorem ym_day_fields (hw : C01.WF c) {y m : Int} (hv : ValidYM c y m) (k : Int) (hk : 0 ≤ k) (hk2 : k < c.dim y m) :
    fromDays c (first c y m + k) = .ok (y, m, k + 1) := by
  have hval := validate_ok hw hv.1 hv.2.1 hv.2.2.1 hv.2.2.2 (show 1 ≤ k + 1 by omega) (show k + 1 ≤ c.dim y m by omega)
  obtain ⟨d, h1, _, _, h4⟩ := ymd_days_ymd hw y m (k + 1) hval
  unfold daysOfYmd at h1
  rw [hval] at h1
  have h1' : daysOfYmdRaw c y m (k + 1) = .ok d := h1
  rw [daysOfYmdRaw_eq hw hv.1 hv.2.1] at h1'
  have e : d = first c y m + k := by
    injection h1' with h1'; unfold first; omega
  rw [← e]; exact h4

/-- Every day of the interval is a day of the calendar's range. -/
theorem ym_subset_range {ord : Nat} (hw : C01.WF c) {y m : Int} (hv : ValidYM c y m) (d : Int)
    (hd : dset (ymI ord c y m) d) : c.start c.minYear ≤ d ∧ d ≤ c.start (c.maxYear + 1) - 1 := by
  have hr := hw.recur y hv.1 hv.2.1
  have hs1 := start_mono hw (y := c.minYear) (z := y) (by omega) hv.1 (by have := hv.2.1; omega)
  have hs2 := start_mono hw (y := y + 1) (z := c.maxYear + 1) (by have := hv.1; omega) (by have := hv.2.1; omega) (by omega)
  have hp := dim_pos hw hv
  obtain ⟨u1, u2, _⟩ := hw.unsplit_ok y m 1 hv.1 hv.2.1 hv.2.2.1 hv.2.2.2 (by omega) hp
  obtain ⟨v1, v2, _⟩ := hw.unsplit_ok y m (c.dim y m) hv.1 hv.2.1 hv.2.2.1 hv.2.2.2 hp (Int.le_refl _)
  obtain ⟨d1, d2⟩ := hd
  have d1' : first c y m ≤ d := d1
  have d2' : d ≤ last c y m := d2
  unfold first at d1'; unfold last at d2'
  constructor <;> omega

/-- `d ∈ YearMonth(y, m).to_date_interval()` iff the calendar says day `d` has year `y` and month `m`. -/
theorem ym_mem_iff {ord : Nat} (hw : C01.WF c) {y m : Int} (hv : ValidYM c y m) (d : Int) :
    dset (ymI ord c y m) d ↔ ∃ dd, fromDays c d = .ok (y, m, dd) := by
  constructor
  · rintro ⟨d1, d2⟩
    have d1' : first c y m ≤ d := d1
    have d2' : d ≤ last c y m := d2
    have := ym_day_fields hw hv (d - first c y m) (by omega) (by unfold last at d2'; unfold first; omega)
    have e : first c y m + (d - first c y m) = d := by omega
    rw [e] at this
    exact ⟨_, this⟩
  · rintro ⟨dd, h⟩
    by_cases hr : c.start c.minYear ≤ d ∧ d ≤ c.start (c.maxYear + 1) - 1
    · obtain ⟨y', m', dd', g1, g2, g3⟩ := days_ymd_days hw d hr.1 hr.2
      rw [h] at g1
      injection g1 with g1
      injection g1 with gy g1
      injection g1 with gm gd
      subst gy; subst gm; subst gd
      obtain ⟨_, _, _, _, q1, q2⟩ := validate_inv g2
      unfold daysOfYmd at g3
      rw [g2] at g3
      have g3' : daysOfYmdRaw c y m dd = .ok d := g3
      rw [daysOfYmdRaw_eq hw hv.1 hv.2.1] at g3'
      injection g3' with g3'
      show first c y m ≤ d ∧ d ≤ last c y m
      unfold first last; omega
    · rw [out_of_range_rejected hw d (by omega)] at h; cases h

/-- Intervals of different months share no day (also across years). -/
theorem ym_disjoint {ord ord' : Nat} (hw : C01.WF c) {y1 m1 y2 m2 : Int} (h1 : ValidYM c y1 m1) (h2 : ValidYM c y2 m2)
    (d : Int) (d1 : dset (ymI ord c y1 m1) d) (d2 : dset (ymI ord' c y2 m2) d) : y1 = y2 ∧ m1 = m2 := by
  obtain ⟨a, ha⟩ := (ym_mem_iff hw h1 d).mp d1
  obtain ⟨b, hb⟩ := (ym_mem_iff hw h2 d).mp d2
  rw [ha] at hb
  injection hb with hb
  injection hb with gy hb
  injection hb with gm _
  exact ⟨gy, gm⟩

/-! ### consecutive months -/

/-- The month that starts the day after (y, m) ends exists whenever that day is still in the calendar. -/
theorem ym_next_exists (hw : C01.WF c) {y m : Int} (hv : ValidYM c y m) (hin : last c y m + 1 ≤ c.start (c.maxYear + 1) - 1) :
    ∃ y' m', ValidYM c y' m' ∧ first c y' m' = last c y m + 1 := by
  have hlo := (ym_subset_range (ord := 0) hw hv (last c y m)
    ⟨by have := dim_pos hw hv; show first c y m ≤ last c y m; unfold first last; omega, Int.le_refl _⟩).1
  obtain ⟨y', m', dd', g1, g2, g3⟩ := days_ymd_days hw (last c y m + 1) (by omega) hin
  obtain ⟨q1, q2, q3, q4, q5, q6⟩ := validate_inv g2
  have hv' : ValidYM c y' m' := ⟨q1, q2, q3, q4⟩
  unfold daysOfYmd at g3
  rw [g2] at g3
  have g3' : daysOfYmdRaw c y' m' dd' = .ok (last c y m + 1) := g3
  rw [daysOfYmdRaw_eq hw q1 q2] at g3'
  injection g3' with g3'
  refine ⟨y', m', hv', ?_⟩
  by_cases hone : dd' = 1
  · unfold first; omega
  · exfalso
    -- the day before is day dd' - 1 of (y', m'), but it is also the last day of (y, m)
    have hprev := ym_day_fields hw hv' (dd' - 2) (by omega) (by omega)
    have e : first c y' m' + (dd' - 2) = last c y m := by unfold first; omega
    rw [e] at hprev
    have hlast := ym_day_fields hw hv (c.dim y m - 1) (by have := dim_pos hw hv; omega) (by omega)
    have e2 : first c y m + (c.dim y m - 1) = last c y m := by unfold first last; omega
    rw [e2, hprev] at hlast
    injection hlast with hlast
    injection hlast with gy hlast
    injection hlast with gm gd
    subst gy; subst gm
    omega

/-- Two months of which the second starts the day after the first ends: the intervals are adjacent, share no day, their
    intersection is `None`, and their union is defined and is the span from the first day of one to the last day of
    the other, whose day set is the union of the two day sets. -/
theorem ym_adjacent_union {ord : Nat} (hw : C01.WF c) {y m y' m' : Int} (hv : ValidYM c y m) (hv' : ValidYM c y' m')
    (hnext : first c y' m' = last c y m + 1) :
    Adjacent (ymI ord c y m) (ymI ord c y' m') ∧ ¬ Overlap (ymI ord c y m) (ymI ord c y' m') ∧
    (ymI ord c y m).inter (ymI ord c y' m') = .ok none ∧
    (ymI ord c y m).union (ymI ord c y' m') = .ok (some ⟨⟨ord, first c y m⟩, ⟨ord, last c y' m'⟩⟩) ∧
    (ymI ord c y' m').union (ymI ord c y m) = .ok (some ⟨⟨ord, first c y m⟩, ⟨ord, last c y' m'⟩⟩) ∧
    (∀ d, dset ⟨⟨ord, first c y m⟩, ⟨ord, last c y' m'⟩⟩ d ↔ dset (ymI ord c y m) d ∨ dset (ymI ord c y' m') d) := by
  obtain ⟨w1, _⟩ := ym_len (ord := ord) hw hv
  obtain ⟨w2, _⟩ := ym_len (ord := ord) hw hv'
  have a1 : first c y m ≤ last c y m := w1.2
  have a2 : first c y' m' ≤ last c y' m' := w2.2
  have hadj : Adjacent (ymI ord c y m) (ymI ord c y' m') := Or.inl hnext.symm
  have hno : ¬ Overlap (ymI ord c y m) (ymI ord c y' m') := by
    rintro ⟨d, ⟨_, p2⟩, ⟨p3, _⟩⟩
    have p2' : d ≤ last c y m := p2
    have p3' : first c y' m' ≤ d := p3
    omega
  have hset : ∀ d, dset ⟨⟨ord, first c y m⟩, ⟨ord, last c y' m'⟩⟩ d ↔
      dset (ymI ord c y m) d ∨ dset (ymI ord c y' m') d := by
    intro d
    show (first c y m ≤ d ∧ d ≤ last c y' m') ↔
      (first c y m ≤ d ∧ d ≤ last c y m) ∨ (first c y' m' ≤ d ∧ d ≤ last c y' m')
    omega
  have hset' : ∀ d, dset ⟨⟨ord, first c y m⟩, ⟨ord, last c y' m'⟩⟩ d ↔
      dset (ymI ord c y' m') d ∨ dset (ymI ord c y m) d := fun d => by rw [hset d]; exact Or.comm
  have hwf : WF ⟨⟨ord, first c y m⟩, ⟨ord, last c y' m'⟩⟩ := ⟨rfl, by show first c y m ≤ last c y' m'; omega⟩
  refine ⟨hadj, hno, (inter_none_iff _ _ w1 w2 rfl).mpr hno, ?_, ?_, hset⟩
  · exact (union_some_iff _ _ _ w1 w2 rfl).mpr ⟨Or.inr hadj, hwf, rfl, hset⟩
  · exact (union_some_iff _ _ _ w2 w1 rfl).mpr ⟨Or.inr (Or.inr hnext.symm), hwf, rfl, hset'⟩

/-! ### the months of a year partition the year -/

/-- Every day of year `y` lies in the interval of one of its months, and the month intervals stay inside the year. -/
theorem ym_partition_year {ord : Nat} (hw : C01.WF c) (y : Int) (hy : c.minYear ≤ y) (hy2 : y ≤ c.maxYear) (d : Int) :
    (c.start y ≤ d ∧ d < c.start (y + 1)) ↔ ∃ m, ValidYM c y m ∧ dset (ymI ord c y m) d := by
  have hr := hw.recur y hy hy2
  constructor
  · rintro ⟨h1, h2⟩
    obtain ⟨s1, s2, s3, s4, s5⟩ := hw.split_ok y (d - c.start y + 1) hy hy2 (by omega) (by omega)
    refine ⟨(c.split y (d - c.start y + 1)).1, ⟨hy, hy2, s1, s2⟩, ?_⟩
    show first c y _ ≤ d ∧ d ≤ last c y _
    unfold first last; omega
  · rintro ⟨m, hv, d1, d2⟩
    have d1' : first c y m ≤ d := d1
    have d2' : d ≤ last c y m := d2
    have hp := dim_pos hw hv
    obtain ⟨u1, _, _⟩ := hw.unsplit_ok y m 1 hy hy2 hv.2.2.1 hv.2.2.2 (by omega) hp
    obtain ⟨_, v2, _⟩ := hw.unsplit_ok y m (c.dim y m) hy hy2 hv.2.2.1 hv.2.2.2 hp (Int.le_refl _)
    unfold first at d1'; unfold last at d2'
    constructor <;> omega

/-- … and of exactly one: the month intervals of a year are pairwise disjoint. -/
theorem ym_partition_unique {ord : Nat} (hw : C01.WF c) (y : Int) (hy : c.minYear ≤ y) (hy2 : y ≤ c.maxYear) (d : Int)
    (hd : c.start y ≤ d ∧ d < c.start (y + 1)) :
    ∃ m, (ValidYM c y m ∧ dset (ymI ord c y m) d) ∧ ∀ m', ValidYM c y m' ∧ dset (ymI ord c y m') d → m' = m := by
  obtain ⟨m, hv, hm⟩ := (ym_partition_year (ord := ord) hw y hy hy2 d).mp hd
  exact ⟨m, ⟨hv, hm⟩, fun m' ⟨hv', hm'⟩ => (ym_disjoint hw hv' hv d hm' hm).2⟩

/-! ### consecutive months by number (by the calendar's own month order for Hebrew scriptural) -/

/-- no day of year `y` lies strictly between the end of a month and the start of the month with the next key -/
theorem toMonth_succ_key (hw : C01.WF c) {y m m' : Int} (hv : ValidYM c y m) (hv' : ValidYM c y m')
    (hk : c.monthKey y m' = c.monthKey y m + 1) : c.toMonth y m' = c.toMonth y m + c.dim y m := by
  obtain ⟨hy, hy2, hm1, hm2⟩ := hv
  obtain ⟨_, _, hm1', hm2'⟩ := hv'
  have hle := hw.month_order y m m' hy hy2 hm1 hm2 hm1' hm2' (by omega)
  by_cases heq : c.toMonth y m' = c.toMonth y m + c.dim y m
  · exact heq
  · exfalso
    -- the day of year right after month m belongs to some month m''
    have hp := (hw.pack_day y m hy hy2 hm1 hm2).1
    have hp' := (hw.pack_day y m' hy hy2 hm1' hm2').1
    obtain ⟨_, v2, _⟩ := hw.unsplit_ok y m' 1 hy hy2 hm1' hm2' (by omega) hp'
    obtain ⟨u1, _, _⟩ := hw.unsplit_ok y m 1 hy hy2 hm1 hm2 (by omega) hp
    obtain ⟨s1, s2, s3, s4, s5⟩ := hw.split_ok y (c.toMonth y m + c.dim y m + 1) hy hy2 (by omega) (by omega)
    generalize hm'' : (c.split y (c.toMonth y m + c.dim y m + 1)).1 = m'' at s1 s2 s3 s4 s5
    generalize (c.split y (c.toMonth y m + c.dim y m + 1)).2 = dd at s3 s4 s5
    -- compare the key of m'' with those of m and m'
    by_cases k1 : c.monthKey y m'' < c.monthKey y m
    · have := hw.month_order y m'' m hy hy2 s1 s2 hm1 hm2 k1; omega
    · by_cases k2 : c.monthKey y m'' = c.monthKey y m
      · have := hw.month_key_inj y m'' m hy hy2 s1 s2 hm1 hm2 k2; subst this; omega
      · by_cases k3 : c.monthKey y m'' = c.monthKey y m'
        · have := hw.month_key_inj y m'' m' hy hy2 s1 s2 hm1' hm2' k3; subst this; omega
        · have := hw.month_order y m' m'' hy hy2 hm1' hm2' s1 s2 (by omega); omega

/-- Months with consecutive keys (consecutive numbers in every calendar but Hebrew scriptural, consecutive civil
    numbers there) have adjacent intervals. -/
theorem ym_succ_key_adjacent (hw : C01.WF c) {y m m' : Int} (hv : ValidYM c y m) (hv' : ValidYM c y m')
    (hk : c.monthKey y m' = c.monthKey y m + 1) : first c y m' = last c y m + 1 := by
  have := toMonth_succ_key hw hv hv' hk
  unfold first last; omega

/-- In a calendar that orders months by number (every calendar but Hebrew scriptural), months `m` and `m + 1` of one
    year have adjacent intervals. -/
theorem ym_succ_month_adjacent (hw : C01.WF c) (hplain : c.ownCompare = false) {y m : Int} (hv : ValidYM c y m)
    (hv' : ValidYM c y (m + 1)) : first c y (m + 1) = last c y m + 1 := by
  apply ym_succ_key_adjacent hw hv hv'
  rw [hw.plain_key hplain y m hv.1 hv.2.1 hv.2.2.1 hv.2.2.2,
      hw.plain_key hplain y (m + 1) hv'.1 hv'.2.1 hv'.2.2.1 hv'.2.2.2]

/-- The month with the least key starts the year. -/
theorem first_month_starts_year (hw : C01.WF c) {y m : Int} (hv : ValidYM c y m)
    (hmin : ∀ m', ValidYM c y m' → c.monthKey y m ≤ c.monthKey y m') : first c y m = c.start y := by
  obtain ⟨hy, hy2, hm1, hm2⟩ := hv
  have hr := hw.recur y hy hy2
  have hp := (hw.pack_day y m hy hy2 hm1 hm2).1
  obtain ⟨u1, _, _⟩ := hw.unsplit_ok y m 1 hy hy2 hm1 hm2 (by omega) hp
  obtain ⟨s1, s2, s3, s4, s5⟩ := hw.split_ok y 1 hy hy2 (by omega) (by omega)
  generalize hm'' : (c.split y 1).1 = m'' at s1 s2 s3 s4 s5
  generalize (c.split y 1).2 = dd at s3 s4 s5
  have hp'' := (hw.pack_day y m'' hy hy2 s1 s2).1
  obtain ⟨w1, _, _⟩ := hw.unsplit_ok y m'' 1 hy hy2 s1 s2 (by omega) hp''
  have hk := hmin m'' ⟨hy, hy2, s1, s2⟩
  by_cases k2 : c.monthKey y m'' = c.monthKey y m
  · have := hw.month_key_inj y m'' m hy hy2 s1 s2 hm1 hm2 k2; subst this
    unfold first; omega
  · have := hw.month_order y m m'' hy hy2 hm1 hm2 s1 s2 (by omega); omega

/-- The month with the greatest key ends the year. -/
theorem last_month_ends_year (hw : C01.WF c) {y m : Int} (hv : ValidYM c y m)
    (hmax : ∀ m', ValidYM c y m' → c.monthKey y m' ≤ c.monthKey y m) : last c y m + 1 = c.start (y + 1) := by
  obtain ⟨hy, hy2, hm1, hm2⟩ := hv
  have hr := hw.recur y hy hy2
  have hp := (hw.pack_day y m hy hy2 hm1 hm2).1
  obtain ⟨_, u2, _⟩ := hw.unsplit_ok y m (c.dim y m) hy hy2 hm1 hm2 hp (Int.le_refl _)
  obtain ⟨s1, s2, s3, s4, s5⟩ := hw.split_ok y (c.len y) hy hy2 (by omega) (Int.le_refl _)
  generalize hm'' : (c.split y (c.len y)).1 = m'' at s1 s2 s3 s4 s5
  generalize (c.split y (c.len y)).2 = dd at s3 s4 s5
  have hk := hmax m'' ⟨hy, hy2, s1, s2⟩
  by_cases k2 : c.monthKey y m'' = c.monthKey y m
  · have := hw.month_key_inj y m'' m hy hy2 s1 s2 hm1 hm2 k2; subst this
    unfold last; omega
  · have := hw.month_order y m'' m hy hy2 s1 s2 hm1 hm2 (by omega)
    unfold last; omega

/-- The last month of a year and the first month of the next year are adjacent. -/
theorem ym_year_wrap_adjacent (hw : C01.WF c) {y m m' : Int} (hv : ValidYM c y m) (hv' : ValidYM c (y + 1) m')
    (hmax : ∀ k, ValidYM c y k → c.monthKey y k ≤ c.monthKey y m)
    (hmin : ∀ k, ValidYM c (y + 1) k → c.monthKey (y + 1) m' ≤ c.monthKey (y + 1) k) :
    first c (y + 1) m' = last c y m + 1 := by
  rw [first_month_starts_year hw hv' hmin, last_month_ends_year hw hv hmax]

/-! ### the 19 calendars of the library -/

theorem ordOk_of_calcOf (n : Nat) (c : Calc) (h : calcOf n = some c) : OrdOk n c := by
  intro hn
  have : n = 0 ∨ n = 1 := by omega
  rcases this with rfl | rfl <;> (injection h with h; exact h.symm)

/-- Every calendar ordinal satisfies the hypotheses of the theorems above (`H`: the driver-evaluated `wfCheck`s). -/
theorem all19 (H : C09.Evaluated) (n : Nat) (c : Calc) (h : calcOf n = some c) : C01.WF c ∧ OrdOk n c := by
  refine ⟨?_, ordOk_of_calcOf n c h⟩
  have hk : DateArith.Cal.ofOrd n = some ⟨n, c, DateArith.familyOf n⟩ := by
    unfold DateArith.Cal.ofOrd; rw [h]; rfl
  exact (C09.dateLaws_all H n _ hk).wf

/-- Headline for every calendar of the library: `to_date_interval` raises `ValueError` exactly for a year-month the
    calendar does not have; otherwise it returns a well-formed interval of the calendar with as many days as the month,
    whose days are exactly the days the calendar assigns to that year and month. -/
theorem ym_interval_all (H : C09.Evaluated) (n : Nat) (c : Calc) (h : calcOf n = some c) (y m : Int) :
    (¬ ValidYM c y m ∧ YearMonth.toDateInterval n c y m = .error .valueError) ∨
    (ValidYM c y m ∧ ∃ I, YearMonth.toDateInterval n c y m = .ok I ∧ WF I ∧ I.s.cal = n ∧ I.len = c.dim y m ∧
      ∀ d, dset I d ↔ ∃ dd, fromDays c d = .ok (y, m, dd)) := by
  obtain ⟨hw, ho⟩ := all19 H n c h
  rcases ym_interval_total hw ho y m with ⟨hv, hok⟩ | ⟨hv, herr⟩
  · right
    obtain ⟨w, l⟩ := ym_len (ord := n) hw hv
    exact ⟨hv, _, hok, w, rfl, l, ym_mem_iff hw hv⟩
  · left; exact ⟨hv, herr⟩

/-! ### the hypotheses are satisfiable, the statements not vacuous -/

example : ValidYM Greg.cal 2024 2 := ⟨by decide, by decide, by decide, by decide⟩
example : YearMonth.toDateInterval 0 Greg.cal 2024 2 = .ok ⟨⟨0, 19754⟩, ⟨0, 19782⟩⟩ := by decide +kernel
example : YearMonth.toDateInterval 0 Greg.cal 2024 13 = .error .valueError := by decide +kernel
example : YearMonth.toDateInterval 2 Jul.cal (-9998) 1 = .error .valueError := by decide +kernel
example : first Greg.cal 2024 3 = last Greg.cal 2024 2 + 1 := by decide +kernel
example : Greg.cal.ownCompare = false ∧ (Heb.cal true).ownCompare = true := ⟨rfl, rfl⟩
example : OrdOk 0 Greg.cal ∧ OrdOk 3 Copt.cal := ⟨fun _ => rfl, fun h => absurd h (by decide)⟩

end Pyoda.C18
