/- C14 with a string pool: the composite round trips for any pool (`none` = inline strings, `some p` = every string
   a member of `p`), the dictionary, the fixed zone. Helper lemmas and the general statements; the property
   theorems are restated in C14.lean. -/
import PyodaProofs.C14Zone

namespace Pyoda.C14
open Pyoda Pyoda.Codec

/-- a string the writer can emit without changing the pool: inline = valid UTF-8 below 2^31 bytes;
    pooled = already a member of the pool (and the pool small enough for its indices to be counts) -/
def StrOk (pool : Pool) (s : Str) : Prop :=
  match pool with
  | none => StrDom s
  | some p => s ∈ p ∧ (p.length : Int) ≤ INT_MAX

theorem indexOf_of_mem (p : List Str) (s : Str) (h : s ∈ p) : ∃ i, indexOf? p s = some i ∧ i < p.length := by
  unfold indexOf?
  have hlt : p.findIdx (· = s) < p.length := by
    apply List.findIdx_lt_length_of_exists
    exact ⟨s, h, by simp⟩
  exact ⟨_, by simp [hlt], hlt⟩

theorem writeString_ok (pool : Pool) (s : Str) (h : StrOk pool s) :
    ∃ bs, writeString pool s = .ok (bs, pool) ∧ ∀ rest, readString pool (bs ++ rest) = .ok (s, rest) := by
  cases pool with
  | none =>
    exact ⟨_, writeString_none s h, fun rest => readString_none s h rest⟩
  | some p =>
    obtain ⟨hm, hl⟩ := h
    obtain ⟨i, hi, hlt⟩ := indexOf_of_mem p s hm
    have hc := writeCount_ok (i : Int) ⟨by omega, by omega⟩
    have hw : writeStringPooled p s = .ok (writeVarint i, p) := by
      unfold writeStringPooled
      rw [hi]
      simp only [hc, bind, Except.bind, Int.toNat_natCast]
    refine ⟨writeVarint i, ?_, ?_⟩
    · unfold writeString
      simp only [hw, bind, Except.bind]
    · intro rest
      exact readString_pooled p s p _ p hw (List.prefix_refl p) rest

/-! ## alternating map, recurrence, periods, zone — any pool -/

def MapDomP (pool : Pool) (m : AlternatingMap) : Prop :=
  OffsetDom m.standardOffset ∧
  StrOk pool m.standardRecurrence.name ∧ m.standardRecurrence.savings = ⟨0⟩ ∧ YearOffsetDom m.standardRecurrence.yearOffset ∧
  m.standardRecurrence.fromYear = INT_MIN ∧ m.standardRecurrence.toYear = INT_MAX ∧
  StrOk pool m.dstRecurrence.name ∧ OffsetDom m.dstRecurrence.savings ∧ YearOffsetDom m.dstRecurrence.yearOffset ∧
  m.dstRecurrence.fromYear = INT_MIN ∧ m.dstRecurrence.toYear = INT_MAX

theorem readAlternatingMap_writeAlternatingMap_pool (pool : Pool) (m : AlternatingMap) (h : MapDomP pool m) (rest : Bytes) :
    ∃ bs, writeAlternatingMap pool m = .ok (bs, pool) ∧ readAlternatingMap pool (bs ++ rest) = .ok (m, rest) := by
  obtain ⟨ho, hsn, hss, hsy, hsf, hst, hdn, hds, hdy, hdf, hdt⟩ := h
  cases m with | mk so sr dr =>
  cases sr with | mk sname ssav syo sfrom sto =>
  cases dr with | mk dname dsav dyo dfrom dto =>
  simp only at ho hsn hss hsy hsf hst hdn hds hdy hdf hdt
  subst hss hsf hst hdf hdt
  obtain ⟨b6, w6, r6⟩ := readOffset_writeOffset dsav hds rest
  obtain ⟨b5, w5, r5⟩ := readYearOffset_writeYearOffset dyo hdy (b6 ++ rest)
  obtain ⟨b4, w4, r4⟩ := writeString_ok pool dname hdn
  obtain ⟨b3, w3, r3⟩ := readYearOffset_writeYearOffset syo hsy (b4 ++ (b5 ++ (b6 ++ rest)))
  obtain ⟨b2, w2, r2⟩ := writeString_ok pool sname hsn
  obtain ⟨b1, w1, r1⟩ := readOffset_writeOffset so ho (b2 ++ (b3 ++ (b4 ++ (b5 ++ (b6 ++ rest)))))
  refine ⟨b1 ++ b2 ++ b3 ++ b4 ++ b5 ++ b6, ?_, ?_⟩
  · unfold writeAlternatingMap
    simp only [w1, w2, w3, w4, w5, w6, bind, Except.bind]
  · unfold readAlternatingMap
    simp only [List.append_assoc, r1, r2, r3, r4, r5, r6, bind, Except.bind]
    rfl

def RecurrenceDomP (pool : Pool) (z : ZoneRecurrence) : Prop :=
  StrOk pool z.name ∧ OffsetDom z.savings ∧ YearOffsetDom z.yearOffset ∧
  (z.fromYear = INT_MIN ∨ (1 ≤ z.fromYear ∧ z.fromYear ≤ 9999)) ∧
  (z.toYear = INT_MAX ∨ (0 ≤ z.toYear ∧ z.toYear ≤ 9999)) ∧
  recurrenceCtor z = .ok z

theorem readRecurrence_writeRecurrence_pool (pool : Pool) (z : ZoneRecurrence) (h : RecurrenceDomP pool z) (rest : Bytes) :
    ∃ bs, writeRecurrence pool z = .ok (bs, pool) ∧ readRecurrence pool (bs ++ rest) = .ok (z, rest) := by
  obtain ⟨hn, hs, hy, hf, ht, hc⟩ := h
  cases z with | mk name sav yo fy ty =>
  simp only at hn hs hy hf ht
  have hty : 0 ≤ ty ∧ ty ≤ INT_MAX := by unfold INT_MAX at *; omega
  have hfy : 0 ≤ (if fy < 0 then 0 else fy) ∧ (if fy < 0 then 0 else fy) ≤ INT_MAX := by
    unfold INT_MAX INT_MIN at *; split <;> omega
  have w5 := writeCount_ok ty hty
  have r5 := readCount_varint ty hty rest
  have w4 := writeCount_ok _ hfy
  have r4 := readCount_varint _ hfy (writeVarint ty.toNat ++ rest)
  obtain ⟨b3, w3, r3⟩ := readYearOffset_writeYearOffset yo hy (writeVarint (if fy < 0 then 0 else fy).toNat ++ (writeVarint ty.toNat ++ rest))
  obtain ⟨b2, w2, r2⟩ := readOffset_writeOffset sav hs (b3 ++ (writeVarint (if fy < 0 then 0 else fy).toNat ++ (writeVarint ty.toNat ++ rest)))
  obtain ⟨b1, w1, r1⟩ := writeString_ok pool name hn
  refine ⟨b1 ++ b2 ++ b3 ++ writeVarint (if fy < 0 then 0 else fy).toNat ++ writeVarint ty.toNat, ?_, ?_⟩
  · unfold writeRecurrence
    simp only [w1, w2, w3, w4, w5, bind, Except.bind]
  · unfold readRecurrence readRecurrenceFields
    simp only [List.append_assoc, r1, r2, r3, r4, r5, bind, Except.bind]
    have e : (if (if fy < 0 then 0 else fy) = 0 then INT_MIN else (if fy < 0 then 0 else fy)) = fy := by
      unfold INT_MIN at *; split <;> split <;> omega
    rw [e, hc]

def PeriodOkP (pool : Pool) (start : Instant) (p : ZoneInterval) : Prop :=
  p.rawStart = start ∧ StrOk pool p.name ∧ OffsetDom p.wall ∧ OffsetDom p.savings ∧
  TransDom (some start) p.rawEnd ∧ Duration.ge start.dur p.rawEnd.dur = false

def ChainP (pool : Pool) : Instant → List ZoneInterval → Prop
  | _, [] => False
  | start, [p] => PeriodOkP pool start p
  | start, p :: q :: r => PeriodOkP pool start p ∧ ChainP pool p.rawEnd (q :: r)

theorem chainP_head (pool : Pool) (start : Instant) (p : ZoneInterval) (ps : List ZoneInterval)
    (h : ChainP pool start (p :: ps)) : PeriodOkP pool start p := by
  cases ps with
  | nil => exact h
  | cons q r => exact h.1

theorem periods_roundtrip_pool (pool : Pool) : ∀ (ps : List ZoneInterval) (prev : Option Instant) (s0 : Instant),
    ChainP pool s0 ps → ∀ b0, writeTransition prev s0 = .ok b0 →
    ∃ tl, (∀ rest, readPeriods pool ps.length s0 (tl ++ rest) = .ok (ps, rest)) ∧
      ∃ wb, writePeriods pool prev ps = .ok (wb, pool) ∧
        ∃ tb, writeTransition (lastStart prev ps) (lastEnd ps) = .ok tb ∧ wb ++ tb = b0 ++ tl := by
  intro ps
  induction ps with
  | nil => intro prev s0 h; exact absurd h (by simp [ChainP])
  | cons p ps ih =>
    intro prev s0 hc b0 hb0
    obtain ⟨hs, hn, hw, hsv, htd, hlt⟩ := chainP_head pool s0 p ps hc
    cases p with | mk name st en wall sav =>
    simp only at hs hn hw hsv htd hlt
    subst hs
    obtain ⟨wbN, wN, rN⟩ := writeString_ok pool name hn
    obtain ⟨wbW, wW, _⟩ := readOffset_writeOffset wall hw []
    obtain ⟨wbS, wS, _⟩ := readOffset_writeOffset sav hsv []
    have rW : ∀ rest, readOffset (wbW ++ rest) = .ok (wall, rest) := by
      intro rest
      obtain ⟨b, h1, h2⟩ := readOffset_writeOffset wall hw rest
      rw [wW] at h1; cases h1; exact h2
    have rS : ∀ rest, readOffset (wbS ++ rest) = .ok (sav, rest) := by
      intro rest
      obtain ⟨b, h1, h2⟩ := readOffset_writeOffset sav hsv rest
      rw [wS] at h1; cases h1; exact h2
    have wT := writeTransition_eq (some st) en htd
    have rT : ∀ rest, readTransition (some st) (formBytes (expectedForm (some st) en) ++ rest) = .ok (en, rest) := by
      intro rest
      obtain ⟨b, h1, h2⟩ := readTransition_writeTransition (some st) en htd rest
      rw [wT] at h1; cases h1; exact h2
    have hctor : zoneIntervalCtor name st en wall sav = .ok ⟨name, st, en, wall, sav⟩ := by
      unfold zoneIntervalCtor; simp [hlt]
    cases ps with
    | nil =>
      refine ⟨wbN ++ wbW ++ wbS ++ formBytes (expectedForm (some st) en), ?_, ?_⟩
      · intro rest
        simp only [List.length_cons, List.length_nil, Nat.zero_add, List.append_assoc]
        rw [readPeriods_succ]
        simp only [rN, rW, rS, rT, hctor, bind, Except.bind, readPeriods]
      · refine ⟨b0 ++ wbN ++ wbW ++ wbS, ?_, _, wT, ?_⟩
        · rw [writePeriods_cons]
          simp only [writePeriods, hb0, wN, wW, wS, bind, Except.bind, List.append_nil]
        · simp only [List.append_assoc]
    | cons q r =>
      obtain ⟨_, hc'⟩ := hc
      obtain ⟨tl', hr', wb', hw', tb', ht', he'⟩ := ih (some st) en hc' _ wT
      refine ⟨wbN ++ wbW ++ wbS ++ formBytes (expectedForm (some st) en) ++ tl', ?_, ?_⟩
      · intro rest
        simp only [List.length_cons, List.append_assoc]
        rw [readPeriods_succ]
        have h2 := hr' rest
        simp only [List.length_cons] at h2
        simp only [rN, rW, rS, rT, hctor, bind, Except.bind, h2]
      · refine ⟨b0 ++ wbN ++ wbW ++ wbS ++ wb', ?_, tb', ht', ?_⟩
        · rw [writePeriods_cons]
          simp only [hb0, wN, wW, wS, hw', bind, Except.bind]
        · simp only [List.append_assoc]
          rw [he']

def ZoneDomP (pool : Pool) (z : PrecalculatedZone) : Prop :=
  (z.periods.length : Int) ≤ INT_MAX ∧
  (∃ p ps, z.periods = p :: ps ∧ ChainP pool p.rawStart z.periods ∧ TransDom none p.rawStart) ∧
  (match z.tailZone with | none => True | some m => MapDomP pool m)

theorem readPrecalculated_writePrecalculated_pool (pool : Pool) (z : PrecalculatedZone) (h : ZoneDomP pool z) (rest : Bytes) :
    ∃ bs, writePrecalculated pool z = .ok (bs, pool) ∧ readPrecalculatedData pool z.id (bs ++ rest) = .ok (z, rest) := by
  obtain ⟨hlen, ⟨p, ps, hps, hchain, hfirst⟩, htail⟩ := h
  cases z with | mk id periods tz =>
  simp only at hlen hps hchain hfirst htail
  subst hps
  have wT0 := writeTransition_eq none p.rawStart hfirst
  obtain ⟨tl, hr, wb, hw, tb, ht, he⟩ := periods_roundtrip_pool pool (p :: ps) none p.rawStart hchain _ wT0
  have hc := writeCount_ok ((p :: ps).length : Int) ⟨by omega, hlen⟩
  have rT0 : ∀ rest, readTransition none (formBytes (expectedForm none p.rawStart) ++ rest) = .ok (p.rawStart, rest) := by
    intro rest
    obtain ⟨b, h1, h2⟩ := readTransition_writeTransition none p.rawStart hfirst rest
    rw [wT0] at h1; cases h1; exact h2
  have hts := tailZoneStart_lastEnd id p ps tz
  cases tz with
  | none =>
    refine ⟨writeVarint (p :: ps).length ++ wb ++ tb ++ [0], ?_, ?_⟩
    · unfold writePrecalculated
      simp only [hc, hw, hts, ht, bind, Except.bind, Int.toNat_natCast]
      rfl
    · unfold readPrecalculatedData
      have e : writeVarint (p :: ps).length ++ wb ++ tb ++ [0] ++ rest =
          writeVarint (p :: ps).length ++ (formBytes (expectedForm none p.rawStart) ++ (tl ++ (0 :: rest))) := by
        simp only [List.append_assoc]
        rw [← List.append_assoc wb tb, he]
        simp only [List.append_assoc, List.cons_append, List.nil_append]
      rw [e]
      have hrc := readCount_varint ((p :: ps).length : Int) ⟨by omega, hlen⟩ (formBytes (expectedForm none p.rawStart) ++ (tl ++ (0 :: rest)))
      simp only [Int.toNat_natCast] at hrc
      simp only [hrc, rT0, hr, bind, Except.bind, Int.toNat_natCast, readByte]
      rfl
  | some m =>
    simp only at htail
    obtain ⟨mb, hm1, hm2⟩ := readAlternatingMap_writeAlternatingMap_pool pool m htail rest
    refine ⟨writeVarint (p :: ps).length ++ wb ++ tb ++ [1] ++ mb, ?_, ?_⟩
    · unfold writePrecalculated
      simp only [hc, hw, hts, ht, hm1, bind, Except.bind, Int.toNat_natCast]
      rfl
    · unfold readPrecalculatedData
      have e : writeVarint (p :: ps).length ++ wb ++ tb ++ [1] ++ mb ++ rest =
          writeVarint (p :: ps).length ++ (formBytes (expectedForm none p.rawStart) ++ (tl ++ (1 :: (mb ++ rest)))) := by
        simp only [List.append_assoc]
        rw [← List.append_assoc wb tb, he]
        simp only [List.append_assoc, List.cons_append, List.nil_append]
      rw [e]
      have hrc := readCount_varint ((p :: ps).length : Int) ⟨by omega, hlen⟩ (formBytes (expectedForm none p.rawStart) ++ (tl ++ (1 :: (mb ++ rest))))
      simp only [Int.toNat_natCast] at hrc
      simp only [hrc, rT0, hr, bind, Except.bind, Int.toNat_natCast, readByte, hm2]
      rfl

/-! ## fixed zone -/

/-- `_FixedDateTimeZone.read` on the documented encoding (offset, name): the zone gets the id it is asked for -/
theorem readFixed_writeFixed (pool : Pool) (z : FixedZone) (ho : OffsetDom z.offset) (hn : StrOk pool z.name) (rest : Bytes) :
    ∃ bs, writeFixed pool z = .ok (bs, pool) ∧ readFixed pool z.id (bs ++ rest) = .ok (z, rest) := by
  cases z with | mk id off name =>
  simp only at ho hn
  obtain ⟨b2, w2, r2⟩ := writeString_ok pool name hn
  obtain ⟨b1, w1, r1⟩ := readOffset_writeOffset off ho (b2 ++ rest)
  refine ⟨b1 ++ b2, ?_, ?_⟩
  · unfold writeFixed
    simp only [w1, w2, bind, Except.bind]
  · unfold readFixed
    simp only [List.append_assoc, r1, bind, Except.bind]
    have hne : hasMoreData (b2 ++ rest) = true := by
      unfold hasMoreData
      cases hb : b2 with
      | nil =>
        exfalso
        have := r2 []
        rw [hb] at this
        cases pool <;> simp [readString, readCount, readVarint, readVarintAux, bind, Except.bind] at this
      | cons x xs => rfl
    simp only [hne, if_true, r2]

/-- the short form: an offset and nothing else names the zone after its id -/
theorem readFixed_offset_only (pool : Pool) (id : Str) (o : Offset) (ho : OffsetDom o) :
    ∃ bs, writeOffset o = .ok bs ∧ readFixed pool id bs = .ok (⟨id, o, id⟩, []) := by
  obtain ⟨b1, w1, r1⟩ := readOffset_writeOffset o ho []
  refine ⟨b1, w1, ?_⟩
  unfold readFixed
  simp only [List.append_nil] at r1
  simp only [r1, bind, Except.bind]
  rfl

/-! ## dictionary -/

def pairReader (pool : Pool) : Bytes → R ((Str × Str) × Bytes) := fun bs => do
  let (k, r) ← readString pool bs
  let (v, r) ← readString pool r
  .ok ((k, v), r)

theorem readDictionaryEntries_eq (pool : Pool) (bs : Bytes) :
    readDictionaryEntries pool bs = (do let (n, r) ← readCount bs; readN (pairReader pool) n.toNat r) := rfl

theorem dict_go (pool : Pool) : ∀ (d : List (Str × Str)), (∀ e ∈ d, StrOk pool e.1 ∧ StrOk pool e.2) →
    ∃ bs, writeDictionary.go pool d = .ok (bs, pool) ∧
      ∀ rest, readN (pairReader pool) d.length (bs ++ rest) = .ok (d, rest) := by
  intro d
  induction d with
  | nil => intro _; exact ⟨[], rfl, fun rest => rfl⟩
  | cons e es ih =>
    intro h
    obtain ⟨k, v⟩ := e
    obtain ⟨hk, hv⟩ := h (k, v) (List.mem_cons_self)
    obtain ⟨bs', hw', hr'⟩ := ih (fun e he => h e (List.mem_cons_of_mem _ he))
    obtain ⟨bk, wk, rk⟩ := writeString_ok pool k hk
    obtain ⟨bv, wv, rv⟩ := writeString_ok pool v hv
    refine ⟨bk ++ bv ++ bs', ?_, ?_⟩
    · unfold writeDictionary.go
      rw [wk]
      simp only [bind, Except.bind]
      rw [wv]
      simp only []
      rw [hw']
    · intro rest
      have e1 : pairReader pool (bk ++ (bv ++ (bs' ++ rest))) = .ok ((k, v), bs' ++ rest) := by
        unfold pairReader
        rw [rk]
        simp only [bind, Except.bind]
        rw [rv]
      simp only [List.length_cons, List.append_assoc]
      unfold readN
      rw [e1]
      simp only [bind, Except.bind]
      rw [hr' rest]

theorem foldl_dictInsert (es : List (Str × Str)) : ∀ (acc : List (Str × Str)),
    (es.map (·.1)).Nodup → (∀ e ∈ es, ∀ a ∈ acc, a.1 ≠ e.1) →
    es.foldl (fun d e => dictInsert d e.1 e.2) acc = acc ++ es := by
  induction es with
  | nil => intro acc _ _; simp
  | cons e es ih =>
    intro acc hnd hdis
    simp only [List.foldl_cons]
    have hnot : acc.any (fun x => decide (x.1 = e.1)) = false := by
      rw [List.any_eq_false]
      intro a ha
      simp only [decide_eq_true_eq]
      exact hdis e (List.mem_cons_self) a ha
    have hins : dictInsert acc e.1 e.2 = acc ++ [e] := by
      unfold dictInsert
      simp only [hnot]
      simp
    rw [hins]
    simp only [List.map_cons, List.nodup_cons] at hnd
    rw [ih (acc ++ [e]) hnd.2 ?_]
    · simp
    · intro x hx a ha
      rcases List.mem_append.mp ha with h | h
      · exact hdis x (List.mem_cons_of_mem _ hx) a h
      · simp only [List.mem_singleton] at h
        subst h
        intro heq
        exact hnd.1 (by rw [heq]; exact List.mem_map_of_mem hx)

/-- a dictionary (insertion-ordered, distinct keys) whose strings the writer can emit with this pool -/
def DictDom (pool : Pool) (d : List (Str × Str)) : Prop :=
  (d.length : Int) ≤ INT_MAX ∧ (d.map (·.1)).Nodup ∧ ∀ e ∈ d, StrOk pool e.1 ∧ StrOk pool e.2

theorem readDictionary_writeDictionary (pool : Pool) (d : List (Str × Str)) (h : DictDom pool d) (rest : Bytes) :
    ∃ bs, writeDictionary pool d = .ok (bs, pool) ∧ readDictionary pool (bs ++ rest) = .ok (d, rest) := by
  obtain ⟨hl, hnd, hs⟩ := h
  obtain ⟨bs, hw, hr⟩ := dict_go pool d hs
  have hc := writeCount_ok (d.length : Int) ⟨by omega, hl⟩
  refine ⟨writeVarint d.length ++ bs, ?_, ?_⟩
  · unfold writeDictionary
    simp only [hc, hw, bind, Except.bind, Int.toNat_natCast]
  · unfold readDictionary
    rw [readDictionaryEntries_eq]
    have hrc := readCount_varint (d.length : Int) ⟨by omega, hl⟩ (bs ++ rest)
    simp only [Int.toNat_natCast] at hrc
    simp only [List.append_assoc, hrc, bind, Except.bind, Int.toNat_natCast, hr]
    rw [foldl_dictInsert d [] hnd (by intro _ _ a ha; cases ha)]
    rfl

end Pyoda.C14
