/-
  GenAgreeC14S — agreement between the container framing GENERATED from `_tzdb_stream_field.py`
  (`PyodaGen/C14S.lean`: one `next()` of the generator `_TzdbStreamField._read_fields`) and the model's field loop
  `Codec.readFields` (`PyodaModel/Codec/Stream.lean`), which interleaves the framing steps with the field handlers as
  the consumer of the generator does.  `fieldStep` is one framing step of `readFields`; `readFields_step` shows that
  `readFields` IS the iteration of `fieldStep` and `handleField`; `gen_Field_readFieldsNext_eq` that the generated
  step is `fieldStep`, for every stream that keeps the `read(n)` contract (short reads allowed) and delivers bytes.
-/
import PyodaGen.C14S
import PyodaModel.Codec.Stream
import PyodaProofs.GenAgreeC14
import PyodaProofs.C14SessionRefine

namespace Pyoda.GenAgree.C14S
open Pyoda Pyoda.Codec Pyoda.Codec.Session Pyoda.Gen.Codec Pyoda.GenAgree.C14

theorem gen_Field_ctor_eq (id : Int) (data : Bytes) : Gen.C14S.Field.ctor id data = ⟨id, data⟩ := rfl
theorem gen_Field_getId_eq (f : Field) : Gen.C14S.Field.getId f = f.id := rfl

/-- one framing step of `readFields`: end of data, or field id, length, payload -/
def fieldStep (bs : Bytes) : R (Option (Nat × Bytes) × Bytes) :=
  match bs with
  | [] => .ok (none, [])
  | id :: r =>
    if id > 7 then .error .valueError
    else do
      let (len, r) ← readCount r
      match takeExact len.toNat r with
      | none => .error .invalidData
      | some (data, r) => .ok (some (id, data), r)

/-- the model's field loop is the iteration of `fieldStep` and the handlers -/
theorem gen_readFields_step (fuel : Nat) (b : Builder) (bs : Bytes) (h : bs ≠ []) :
    readFields (fuel + 1) b bs =
      (match fieldStep bs with
       | .ok (none, _) => .ok b
       | .ok (some (id, data), r) => handleField b id data >>= fun b' => readFields fuel b' r
       | .error e => .error e) := by
  cases bs with
  | nil => exact absurd rfl h
  | cons id r =>
    simp only [readFields, fieldStep]
    by_cases hid : id > 7
    · simp only [if_pos hid]
    · simp only [if_neg hid]
      rcases h1 : readCount r with e | ⟨len, r1⟩
      · rfl
      · simp only [ok_bind]
        rcases h2 : takeExact len.toNat r1 with _ | ⟨data, r2⟩
        · rfl
        · rfl

/-- the payload loop `for offset in range(length): b = stream.read(1); …; data.extend(b)` -/
theorem gen_Field_readFieldsNext_loop1_eq (pol) (hp : PolicyOk pol) (len : Int) : ∀ (fuel k i : Nat) (data rest : Bytes), k < fuel →
    Gen.C14S.Field.readFieldsNext.loop1 ((i + k : Nat) : Int) len fuel (i : Int) data ⟨rest, pol⟩ =
      (match takeExact k rest with
       | some (t, r) => .ok (((i + k : Nat) : Int), data ++ t, ⟨r, pol⟩)
       | none => .error .invalidData) := by
  intro fuel
  induction fuel with
  | zero => intro _ _ _ _ h; omega
  | succ fuel ih =>
    intro k i data rest hlt
    unfold Gen.C14S.Field.readFieldsNext.loop1
    cases k with
    | zero =>
      rw [if_neg (by omega)]
      simp [takeExact]
    | succ k =>
      rw [if_pos (by omega)]
      cases rest with
      | nil => simp [InStream.read, takeExact]
      | cons b t =>
        have hk := hp 1 (t.length + 1) (by decide) (by omega)
        have hk1 : pol 1 (t.length + 1) = 1 := by omega
        have hr : InStream.read ⟨b :: t, pol⟩ 1 = ([b], ⟨t, pol⟩) := by
          simp [InStream.read, hk1]
        rw [hr]
        dsimp only
        rw [if_neg (by simp)]
        have hi : ((i : Int) + 1) = ((i + 1 : Nat) : Int) := by omega
        have hik : i + (k + 1) = (i + 1) + k := by omega
        simp only [Gen.pyBytesExtend]
        rw [hi, hik, ih k (i + 1) (data ++ [b]) t (by omega)]
        simp only [takeExact]
        cases takeExact k t with
        | none => rfl
        | some p => obtain ⟨t', r'⟩ := p; simp

theorem enum_lookup (id : Nat) : Gen.pyEnumLookup [0, 1, 2, 3, 4, 5, 6, 7] (id : Int) = if id > 7 then .error .valueError else .ok (id : Int) := by
  unfold Gen.pyEnumLookup
  by_cases h : id > 7
  · rw [if_pos h, if_neg]
    simp; omega
  · rw [if_neg h, if_pos]
    simp; omega

/-- the temporary reader's `read_count` on the stream is the model's `readCount` on its bytes -/
theorem streamReadCount_eq (pol) (hp : PolicyOk pol) (r : Bytes) :
    streamReadCount ⟨r, pol⟩ = (match readCount r with
      | .ok (v, rest) => .ok (v, ⟨rest, pol⟩)
      | .error e => .error e) := by
  unfold streamReadCount
  rw [gen_Reader_ctor_eq, gen_Reader_readCount_eq pol hp, C14.readCountM_refines none _ rfl]
  simp only [C14.lift, RState.abs]
  rcases h : readCount r with e | ⟨v, rest⟩
  · rfl
  · rfl

theorem gen_Field_readFieldsNext_eq (pol) (hp : PolicyOk pol) (bs : Bytes) :
    Gen.C14S.Field.readFieldsNext ⟨bs, pol⟩ =
      (match fieldStep bs with
       | .ok (o, r) => .ok (o.map (fun p => (⟨(p.1 : Int), p.2⟩ : Field)), ⟨r, pol⟩)
       | .error e => .error e) := by
  unfold Gen.C14S.Field.readFieldsNext fieldStep
  cases bs with
  | nil => simp [InStream.read]
  | cons id r =>
    have hk := hp 1 (r.length + 1) (by decide) (by omega)
    have hk1 : pol 1 (r.length + 1) = 1 := by omega
    have hr : InStream.read ⟨id :: r, pol⟩ 1 = ([id], ⟨r, pol⟩) := by
      simp [InStream.read, hk1]
    rw [hr]
    dsimp only
    rw [if_neg (by simp)]
    have hi : Gen.pyBytesIndex [id] 0 = .ok (id : Int) := by simp [Gen.pyBytesIndex]
    rw [hi]
    simp only [ok_bind, enum_lookup]
    by_cases hid : id > 7
    · simp only [if_pos hid]; rfl
    · simp only [if_neg hid, ok_bind]
      rw [streamReadCount_eq pol hp]
      rcases h1 : readCount r with e | ⟨len, r1⟩
      · rfl
      · simp only [ok_bind]
        have hn : 0 ≤ len := by
          unfold readCount at h1
          rcases h2 : readVarint r with e | ⟨u, r2⟩
          · rw [h2] at h1; cases h1
          · rw [h2] at h1
            simp only [ok_bind] at h1
            by_cases hu : (u : Int) > INT_MAX
            · rw [if_pos hu] at h1; cases h1
            · rw [if_neg hu] at h1
              injection h1 with h1; injection h1 with h1 _; omega
        have hl := gen_Field_readFieldsNext_loop1_eq pol hp len (len.toNat + 1) len.toNat 0 [] r1 (Nat.lt_succ_self _)
        have hnn : ((0 + len.toNat : Nat) : Int) = len := by omega
        have h0 : ((0 : Nat) : Int) = 0 := rfl
        rw [hnn, h0] at hl
        rw [hl]
        rcases h3 : takeExact len.toNat r1 with _ | ⟨data, r2⟩
        · rfl
        · simp [Gen.C14S.Field.ctor]
          rfl

end Pyoda.GenAgree.C14S
