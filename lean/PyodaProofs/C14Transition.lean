/- Helper lemmas for C14: zone-interval transitions (uses the C03 facts about Duration/Instant). -/
import PyodaProofs.C14Lemmas
import PyodaProofs.C03

namespace Pyoda.C14
open Pyoda Pyoda.Codec Pyoda.C03

local macro "unfold_consts" : tactic =>
  `(tactic| simp only [NPD, NPH, NPMin, NPS, NPMs, NPUs, NPT, TPD, TPS, TPH, SPD, MsPD, UsPD, MinPD, HPD, TPMin,
      Duration.MIN_DAYS, Duration.MAX_DAYS, Duration.MIN_NANOS, Duration.MAX_NANOS, decBound, Instant.MIN_DAYS, Instant.MAX_DAYS,
      MIN_HOURS, MIN_MINUTES, INT_MAX, INT_MIN] at *)

/-- a real instant that is a whole number of ticks -/
def TickAligned (i : Instant) : Prop := Norm i.dur ∧ IValid i ∧ i.dur.nod % 100 = 0

/-- ticks since the Unix epoch (`to_unix_time_ticks` on an aligned instant) -/
def ticks (i : Instant) : Int := i.dur.days * TPD + i.dur.nod / 100

theorem dur_eq_of_val (a b : Duration) (ha : Norm a) (hb : Norm b) (h : val a = val b) : a = b := by
  cases a with | mk ad an => cases b with | mk bd bn =>
  simp only [Norm, val] at *
  unfold_consts
  have : ad = bd := by omega
  subst this
  have : an = bn := by omega
  subst this
  rfl

theorem toUnixTicks_aligned (i : Instant) (h : Norm i.dur) : i.toUnixTicks = .ok (ticks i) := by
  unfold Instant.toUnixTicks ticks
  simp only [Norm] at h
  rw [pyTdiv_ok _ _ (by decide) (by unfold_consts; omega) (by unfold_consts; omega) (by decide) (by decide)]
  rw [tdiv_pos _ _ (by decide)]
  simp [h.1, NPT, bind, Except.bind]

theorem plus_fromUnit (p v : Instant) (u : TUnit) (n : Int) (hp : Norm p.dur) (hpv : IValid p) (hv : Norm v.dur)
    (hvv : IValid v) (he : val v.dur = val p.dur + n * u.nanos) :
    ∃ d, fromUnit u n = .ok d ∧ p.plus d = .ok v := by
  cases hf : fromUnit u n with
  | error e =>
    exfalso
    have := (fromUnits_raises_iff u n).mp ⟨e, hf⟩
    apply this
    simp only [NsInRange, IValid, Norm, val] at *
    unfold_consts
    omega
  | ok d =>
    obtain ⟨hn, _, hval⟩ := fromUnits_exact u n d hf
    refine ⟨d, rfl, ?_⟩
    cases hpl : p.plus d with
    | error e =>
      exfalso
      have := (instant_plus_raises_iff p d hp hn).mp ⟨e, hpl⟩
      apply this
      simp only [InstNsInRange, IValid, Norm, val] at *
      unfold_consts
      omega
    | ok r =>
      obtain ⟨hrn, _, hrv⟩ := instant_plus_exact p d r hp hn hpl
      have : r.dur = v.dur := dur_eq_of_val _ _ hrn hv (by omega)
      cases r; cases v; simp_all

theorem fromUnixTicks_ticks (v : Instant) (h : TickAligned v) : Instant.fromUnixTicks (ticks v) = .ok v := by
  obtain ⟨hn, hv, ha⟩ := h
  unfold Instant.fromUnixTicks checkRange
  have hr : ¬ (ticks v < Instant.MIN_DAYS * TPD ∨ ticks v > (Instant.MAX_DAYS + 1) * TPD - 1) := by
    simp only [ticks, IValid, Norm] at *
    unfold_consts
    omega
  simp only [hr, if_false, bind, Except.bind]
  cases hf : Duration.fromTicks (ticks v) with
  | error e =>
    exfalso
    have := (fromTicks_raises_iff _).mp ⟨e, hf⟩
    apply this
    simp only [NsInRange, ticks, IValid, Norm] at *
    unfold_consts
    omega
  | ok d =>
    obtain ⟨hdn, _, hdv⟩ := fromTicks_exact _ d hf
    have : d = v.dur := dur_eq_of_val _ _ hdn hn (by
      simp only [val, ticks, Norm] at *
      unfold_consts
      omega)
    subst this
    rfl
/-- the writer's domain for a transition: the value (and the previous transition, when given) is a sentinel or a
    real instant that is a whole number of ticks, and time does not run backwards -/
def TransDom (prev : Option Instant) (v : Instant) : Prop :=
  (v = Instant.beforeMin ∨ v = Instant.afterMax ∨ TickAligned v) ∧
  match prev with
  | none => True
  | some p => (p = Instant.beforeMin ∨ p = Instant.afterMax ∨ TickAligned p) ∧ Duration.ge v.dur p.dur = true

/-- the documented choice of compact form, in plain integer arithmetic on tick counts -/
def hoursCandidate (prev : Option Instant) (v : Instant) : Option Int :=
  match prev with
  | none => none
  | some p =>
    if p ≠ Instant.beforeMin ∧ (ticks v - ticks p) % TPH = 0 ∧ 128 ≤ (ticks v - ticks p) / TPH ∧ (ticks v - ticks p) / TPH < 2097152
    then some ((ticks v - ticks p) / TPH) else none

def minutesCandidate (v : Instant) : Option Int :=
  if ticks EPOCH1800 ≤ ticks v ∧ (ticks v - ticks EPOCH1800) % TPMin = 0 ∧ 2097152 < (ticks v - ticks EPOCH1800) / TPMin
      ∧ (ticks v - ticks EPOCH1800) / TPMin ≤ 2147483647
  then some ((ticks v - ticks EPOCH1800) / TPMin) else none

def expectedForm (prev : Option Instant) (v : Instant) : TransitionForm × Int :=
  if v = Instant.beforeMin then (.markerMin, 0)
  else if v = Instant.afterMax then (.markerMax, 0)
  else match hoursCandidate prev v with
    | some h => (.hours, h)
    | none => match minutesCandidate v with
      | some m => (.minutes, m)
      | none => (.raw, ticks v)

theorem aligned_ne_sentinel (v : Instant) (h : TickAligned v) : v ≠ Instant.beforeMin ∧ v ≠ Instant.afterMax := by
  obtain ⟨_, hv, _⟩ := h
  constructor <;> (intro he; subst he; simp only [IValid, Instant.beforeMin, Instant.afterMax] at hv; unfold_consts; omega)

theorem ge_iff (a b : Duration) : Duration.ge a b = true ↔ (a.days > b.days ∨ (a.days = b.days ∧ a.nod ≥ b.nod)) := by
  unfold Duration.ge Duration.gt Duration.beq
  simp only [Bool.or_eq_true, Bool.and_eq_true, decide_eq_true_eq]
  omega

theorem hoursSincePrevious_eq (prev : Option Instant) (v : Instant) (hv : TickAligned v) (hd : TransDom prev v) :
    hoursSincePrevious prev (ticks v) = .ok (hoursCandidate prev v) := by
  unfold hoursSincePrevious hoursCandidate
  cases prev with
  | none => rfl
  | some p =>
    simp only
    obtain ⟨_, hp, hge⟩ := hd
    by_cases hb : p = Instant.beforeMin
    · simp [hb]
    · simp only [hb, if_false, ne_eq, not_false_eq_true, true_and]
      have hpa : TickAligned p := by
        rcases hp with h | h | h
        · exact absurd h hb
        · exfalso
          subst h
          rw [ge_iff] at hge
          obtain ⟨_, hvv, _⟩ := hv
          simp only [IValid, Instant.afterMax] at *
          unfold_consts
          omega
        · exact h
      rw [toUnixTicks_aligned p hpa.1]
      simp only [bind, Except.bind]
      have hnn : 0 ≤ ticks v - ticks p := by
        rw [ge_iff] at hge
        obtain ⟨hn1, _, _⟩ := hv
        obtain ⟨hn2, _, _⟩ := hpa
        simp only [ticks, Norm] at *
        unfold_consts
        omega
      have hlt : ticks v - ticks p < decBound := by
        obtain ⟨hn1, hv1, _⟩ := hv
        obtain ⟨hn2, hv2, _⟩ := hpa
        simp only [ticks, Norm, IValid] at *
        unfold_consts
        omega
      rw [csharpMod_nonneg _ _ hnn (by decide)]
      by_cases hm : (ticks v - ticks p) % TPH = 0
      · simp only [hm, if_true, true_and]
        rw [pyTdiv_nonneg _ _ hnn hlt (by decide) (by decide)]
        simp only [MIN_HOURS, MIN_MINUTES]
        by_cases hc : 128 ≤ (ticks v - ticks p) / TPH ∧ (ticks v - ticks p) / TPH < 2097152 <;> simp [hc]
      · simp only [hm, if_false, false_and]

theorem minutesSinceEpoch_eq (v : Instant) (hv : TickAligned v) :
    minutesSinceEpoch v (ticks v) = .ok (minutesCandidate v) := by
  unfold minutesSinceEpoch minutesCandidate
  obtain ⟨hn, hvv, _⟩ := hv
  have he : EPOCH1800.toUnixTicks = .ok (ticks EPOCH1800) := toUnixTicks_aligned _ ⟨by decide, by decide⟩
  by_cases hge : Duration.ge v.dur EPOCH1800.dur = true
  · simp only [hge, if_true, he, bind, Except.bind]
    have h1 : ticks EPOCH1800 ≤ ticks v := by
      rw [ge_iff] at hge
      simp only [ticks, Norm, EPOCH1800] at *
      unfold_consts
      omega
    have hnn : 0 ≤ ticks v - ticks EPOCH1800 := by omega
    have hlt : ticks v - ticks EPOCH1800 < decBound := by
      simp only [ticks, Norm, IValid, EPOCH1800] at *
      unfold_consts
      omega
    rw [csharpMod_nonneg _ _ hnn (by decide)]
    simp only [h1, true_and]
    by_cases hm : (ticks v - ticks EPOCH1800) % TPMin = 0
    · simp only [hm, if_true, true_and]
      rw [pyTdiv_nonneg _ _ hnn hlt (by decide) (by decide)]
      simp only [MIN_MINUTES, INT_MAX]
      by_cases hc : 2097152 < (ticks v - ticks EPOCH1800) / TPMin ∧ (ticks v - ticks EPOCH1800) / TPMin ≤ 2147483647 <;> simp [hc]
    · simp only [hm, if_false, false_and]
  · simp only [hge, if_false]
    have h1 : ¬ ticks EPOCH1800 ≤ ticks v := by
      rw [ge_iff] at hge
      simp only [ticks, Norm, EPOCH1800] at *
      unfold_consts
      omega
    simp only [h1, false_and, if_false]
    rfl

/-- canonicity: which of the five forms `write_zone_interval_transition` chooses -/
theorem transitionForm_eq (prev : Option Instant) (v : Instant) (hd : TransDom prev v) :
    transitionForm prev v = .ok (expectedForm prev v) := by
  unfold transitionForm expectedForm
  by_cases h1 : v = Instant.beforeMin
  · simp [h1]
  · by_cases h2 : v = Instant.afterMax
    · simp [h2]
      decide
    · simp only [h1, h2, if_false]
      have hv : TickAligned v := by
        rcases hd.1 with h | h | h
        · exact absurd h h1
        · exact absurd h h2
        · exact h
      rw [toUnixTicks_aligned v hv.1]
      simp only [bind, Except.bind]
      rw [hoursSincePrevious_eq prev v hv hd]
      cases hoursCandidate prev v with
      | some h => rfl
      | none =>
        simp only
        rw [minutesSinceEpoch_eq v hv]
        cases minutesCandidate v <;> rfl

def formBytes : TransitionForm × Int → Bytes
  | (.markerMin, _) => [0]
  | (.markerMax, _) => [1]
  | (.hours, h) => writeVarint h.toNat
  | (.minutes, m) => writeVarint m.toNat
  | (.raw, t) => 2 :: writeInt64 t

theorem hoursCandidate_some (prev : Option Instant) (v : Instant) (h : Int) (hc : hoursCandidate prev v = some h) :
    ∃ p, prev = some p ∧ p ≠ Instant.beforeMin ∧ ticks v - ticks p = h * TPH ∧ 128 ≤ h ∧ h < 2097152 := by
  unfold hoursCandidate at hc
  cases prev with
  | none => cases hc
  | some p =>
    simp only at hc
    split at hc
    · rename_i hcond
      cases hc
      refine ⟨p, rfl, hcond.1, ?_, hcond.2.2.1, hcond.2.2.2⟩
      have := hcond.2.1
      unfold_consts
      omega
    · cases hc

theorem minutesCandidate_some (v : Instant) (m : Int) (hc : minutesCandidate v = some m) :
    ticks v - ticks EPOCH1800 = m * TPMin ∧ 2097152 < m ∧ m ≤ 2147483647 := by
  unfold minutesCandidate at hc
  split at hc
  · rename_i hcond
    cases hc
    refine ⟨?_, hcond.2.2.1, hcond.2.2.2⟩
    have := hcond.2.1
    unfold_consts
    omega
  · cases hc

theorem checkForward_ok (prev : Option Instant) (v : Instant) (hd : TransDom prev v) : checkForward prev v = .ok () := by
  unfold checkForward
  cases prev with
  | none => rfl
  | some p => simp [hd.2.2]

theorem writeVarint_zero : writeVarint 0 = [0] := by decide
theorem writeVarint_one : writeVarint 1 = [1] := by decide
theorem writeVarint_two : writeVarint 2 = [2] := by decide

theorem writeTransition_eq (prev : Option Instant) (v : Instant) (hd : TransDom prev v) :
    writeTransition prev v = .ok (formBytes (expectedForm prev v)) := by
  unfold writeTransition
  rw [checkForward_ok prev v hd, transitionForm_eq prev v hd]
  simp only [bind, Except.bind]
  unfold expectedForm
  by_cases h1 : v = Instant.beforeMin
  · simp only [h1, if_true, MARKER_MIN, formBytes]
    rw [writeCount_ok 0 (by decide)]; rfl
  · by_cases h2 : v = Instant.afterMax
    · simp only [h1, h2, if_true, if_false, MARKER_MAX, formBytes]
      rw [writeCount_ok 1 (by decide)]; rfl
    · simp only [h1, h2, if_false]
      cases hh : hoursCandidate prev v with
      | some h =>
        obtain ⟨_, _, _, _, hlo, hhi⟩ := hoursCandidate_some prev v h hh
        simp only [formBytes]
        rw [writeCount_ok h (by unfold INT_MAX; omega)]
      | none =>
        simp only
        cases hm : minutesCandidate v with
        | some m =>
          obtain ⟨_, hlo, hhi⟩ := minutesCandidate_some v m hm
          simp only [formBytes]
          rw [writeCount_ok m (by unfold INT_MAX; omega)]
        | none =>
          simp only [formBytes, MARKER_RAW]
          rw [writeCount_ok 2 (by decide)]
          rfl

theorem val_eq_ticks (v : Instant) (h : TickAligned v) : val v.dur = ticks v * 100 := by
  obtain ⟨hn, _, ha⟩ := h
  simp only [val, ticks, Norm] at *
  unfold_consts
  omega

theorem readCount_small (b : Nat) (hb : b < 128) (rest : Bytes) : readCount (b :: rest) = .ok ((b : Int), rest) := by
  have hm : b % 128 = b := Nat.mod_eq_of_lt hb
  have h2 : ¬ ((b : Int) > INT_MAX) := by unfold INT_MAX; omega
  unfold readCount readVarint readVarintAux
  simp only [hb, if_true, hm, Nat.pow_zero, Nat.mul_one, Nat.zero_add, bind, Except.bind, h2, if_false]

theorem readTransition_of_count (prev : Option Instant) (bs r : Bytes) (value : Int)
    (h : readCount bs = .ok (value, r)) : readTransition prev bs = readTransitionBody prev value r := by
  unfold readTransition
  rw [h]
  rfl

theorem ticks_int64 (v : Instant) (hv : TickAligned v) : -9223372036854775808 ≤ ticks v ∧ ticks v < 9223372036854775808 := by
  obtain ⟨hn, hvv, _⟩ := hv
  simp only [ticks, Norm, IValid] at *
  unfold_consts
  omega

theorem readRaw_ticks (v : Instant) (hv : TickAligned v) (rest : Bytes) :
    readRawTransition (writeInt64 (ticks v) ++ rest) = .ok (v, rest) := by
  have e2 := readInt64_writeInt64 (ticks v) (ticks_int64 v hv) rest
  have e3 := fromUnixTicks_ticks v hv
  unfold readRawTransition
  rw [e2]
  show (Instant.fromUnixTicks (ticks v) >>= fun i => Except.ok (i, rest)) = _
  rw [e3]
  rfl

theorem aligned_of_prev (p v : Instant) (hv : TickAligned v) (hpb : p ≠ Instant.beforeMin)
    (hpd : p = Instant.beforeMin ∨ p = Instant.afterMax ∨ TickAligned p) (hge : Duration.ge v.dur p.dur = true) :
    TickAligned p := by
  rcases hpd with h | h | h
  · exact absurd h hpb
  · exfalso
    subst h
    rw [ge_iff] at hge
    obtain ⟨_, hvv, _⟩ := hv
    simp only [IValid, Instant.afterMax] at *
    unfold_consts
    omega
  · exact h

theorem readHours_spec (p v : Instant) (h : Int) (hv : TickAligned v) (hp : TickAligned p)
    (hdiff : ticks v - ticks p = h * TPH) (rest : Bytes) :
    readHoursTransition (some p) h rest = .ok (v, rest) := by
  obtain ⟨d, hd1, hd2⟩ := plus_fromUnit p v .hours h hp.1 hp.2.1 hv.1 hv.2.1 (by
    rw [val_eq_ticks v hv, val_eq_ticks p hp]
    simp only [TUnit.nanos]
    unfold_consts
    omega)
  have e : Duration.fromHours h = .ok d := hd1
  unfold readHoursTransition
  simp only [e, bind, Except.bind, hd2]

theorem epoch_aligned : TickAligned EPOCH1800 := ⟨⟨by decide, by decide⟩, ⟨by decide, by decide⟩, by decide⟩

theorem readMinutes_spec (v : Instant) (m : Int) (hv : TickAligned v)
    (hdiff : ticks v - ticks EPOCH1800 = m * TPMin) (rest : Bytes) :
    readMinutesTransition m rest = .ok (v, rest) := by
  obtain ⟨d, hd1, hd2⟩ := plus_fromUnit EPOCH1800 v .minutes m epoch_aligned.1 epoch_aligned.2.1 hv.1 hv.2.1 (by
    rw [val_eq_ticks v hv, val_eq_ticks _ epoch_aligned]
    simp only [TUnit.nanos]
    unfold_consts
    omega)
  have e : Duration.fromMinutes m = .ok d := hd1
  unfold readMinutesTransition
  simp only [e, bind, Except.bind, hd2]

theorem body_zero (prev : Option Instant) (r : Bytes) : readTransitionBody prev 0 r = .ok (Instant.beforeMin, r) := rfl
theorem body_one (prev : Option Instant) (r : Bytes) : readTransitionBody prev 1 r = .ok (Instant.afterMax, r) := rfl
theorem body_two (prev : Option Instant) (r : Bytes) : readTransitionBody prev 2 r = readRawTransition r := rfl
theorem body_hours (prev : Option Instant) (h : Int) (r : Bytes) (h1 : 128 ≤ h) (h2 : h < 2097152) :
    readTransitionBody prev h r = readHoursTransition prev h r := by
  unfold readTransitionBody
  have c1 : ¬ h < MIN_HOURS := by unfold MIN_HOURS; omega
  have c2 : h < MIN_MINUTES := by unfold MIN_MINUTES; omega
  simp only [c1, c2, if_false, if_true]
theorem body_minutes (prev : Option Instant) (m : Int) (r : Bytes) (h1 : 2097152 < m) :
    readTransitionBody prev m r = readMinutesTransition m r := by
  unfold readTransitionBody
  have c1 : ¬ m < MIN_HOURS := by unfold MIN_HOURS; omega
  have c2 : ¬ m < MIN_MINUTES := by unfold MIN_MINUTES; omega
  simp only [c1, c2, if_false]

theorem readTransition_writeTransition (prev : Option Instant) (v : Instant) (hd : TransDom prev v) (rest : Bytes) :
    ∃ bs, writeTransition prev v = .ok bs ∧ readTransition prev (bs ++ rest) = .ok (v, rest) := by
  refine ⟨_, writeTransition_eq prev v hd, ?_⟩
  unfold expectedForm
  by_cases h1 : v = Instant.beforeMin
  · simp only [h1, if_true, formBytes, List.cons_append, List.nil_append]
    rw [readTransition_of_count prev _ rest 0 (readCount_small 0 (by decide) rest)]
    rfl
  · by_cases h2 : v = Instant.afterMax
    · subst h2
      have hne : ¬ (Instant.afterMax = Instant.beforeMin) := by decide
      simp only [hne, if_true, if_false, formBytes, List.cons_append, List.nil_append]
      rw [readTransition_of_count prev _ rest 1 (readCount_small 1 (by decide) rest)]
      rfl
    · simp only [h1, h2, if_false]
      have hv : TickAligned v := by
        rcases hd.1 with h | h | h
        · exact absurd h h1
        · exact absurd h h2
        · exact h
      cases hh : hoursCandidate prev v with
      | some h =>
        obtain ⟨p, hp, hpb, hdiff, hlo, hhi⟩ := hoursCandidate_some prev v h hh
        subst hp
        simp only [formBytes]
        rw [readTransition_of_count _ _ rest h (readCount_varint h (by unfold INT_MAX; omega) rest)]
        rw [body_hours _ h rest hlo hhi]
        exact readHours_spec p v h hv (aligned_of_prev p v hv hpb hd.2.1 hd.2.2) hdiff rest
      | none =>
        simp only
        cases hm : minutesCandidate v with
        | some m =>
          obtain ⟨hdiff, hlo, hhi⟩ := minutesCandidate_some v m hm
          simp only [formBytes]
          rw [readTransition_of_count _ _ rest m (readCount_varint m (by unfold INT_MAX; omega) rest)]
          rw [body_minutes _ m rest hlo]
          exact readMinutes_spec v m hv hdiff rest
        | none =>
          simp only [formBytes, List.cons_append]
          rw [readTransition_of_count prev _ (writeInt64 (ticks v) ++ rest) 2 (readCount_small 2 (by decide) _)]
          rw [body_two]
          exact readRaw_ticks v hv rest

/-! ## sub-tick instants: accepted and truncated (DESIGN §7 row 20) -/

/-- the instant with the sub-tick remainder dropped -/
def truncTick (v : Instant) : Instant := ⟨⟨v.dur.days, v.dur.nod - v.dur.nod % 100⟩⟩

theorem truncTick_aligned (v : Instant) (hn : Norm v.dur) (hv : IValid v) : TickAligned (truncTick v) := by
  simp only [TickAligned, truncTick, Norm, IValid] at *
  unfold_consts
  omega

theorem writeTransition_none_trunc (v : Instant) (hn : Norm v.dur) (hv : IValid v) :
    writeTransition none v = writeTransition none (truncTick v) := by
  have ha := truncTick_aligned v hn hv
  have hne : v ≠ Instant.beforeMin ∧ v ≠ Instant.afterMax := by
    constructor <;> (intro he; subst he; simp only [IValid, Instant.beforeMin, Instant.afterMax] at hv; unfold_consts; omega)
  have hne' := aligned_ne_sentinel _ ha
  have ht : ticks (truncTick v) = ticks v := by
    simp only [ticks, truncTick, Norm] at *
    unfold_consts
    omega
  have hge : Duration.ge (truncTick v).dur EPOCH1800.dur = Duration.ge v.dur EPOCH1800.dur := by
    have h1 := ge_iff (truncTick v).dur EPOCH1800.dur
    have h2 := ge_iff v.dur EPOCH1800.dur
    have : (Duration.ge (truncTick v).dur EPOCH1800.dur = true) ↔ (Duration.ge v.dur EPOCH1800.dur = true) := by
      rw [h1, h2]
      simp only [truncTick, EPOCH1800, Norm] at *
      omega
    cases h : Duration.ge (truncTick v).dur EPOCH1800.dur <;> cases h' : Duration.ge v.dur EPOCH1800.dur <;> simp_all
  unfold writeTransition transitionForm
  simp only [hne.1, hne.2, hne'.1, hne'.2, if_false, checkForward]
  rw [toUnixTicks_aligned v hn, toUnixTicks_aligned _ ha.1, ht]
  simp only [bind, Except.bind, hoursSincePrevious]
  unfold minutesSinceEpoch
  rw [hge]

end Pyoda.C14
