/-
  C08 (generic engine, LocalDate and LocalDateTime) — a success carries a valid value:
  for every list of well-formed date/time steps whose used-field set is accounted for by the steps (`fieldsSound`),
  every text and every (valid) template value, a successful parse yields a valid ISO date (and, for LocalDateTime,
  a nanosecond of day inside the day — including the 24:00 roll-over).  `parse_total` for these types is
  `parsePat_total` (C08Stepped) with `bucketValue_total`, which now has the LocalDateTime case.
-/
import PyodaModel.Text.WellFormed
import PyodaProofs.C08Stepped

namespace Pyoda.C08
open Pyoda Pyoda.Text

/-! ## the steps of the date / date-time tables -/

/-- field values a LocalDateTime bucket can hold; `fm fd ft`: the numeric month / day of month / text month slot
    has been assigned by a parse action -/
structure DtOK (fm fd ft : Bool) (b : Bucket) : Prop where
  h24 : 0 ≤ b .hours24 ∧ b .hours24 ≤ 24
  h12 : 0 ≤ b .hours12 ∧ b .hours12 ≤ 12
  mi : 0 ≤ b .minutes ∧ b .minutes ≤ 59
  se : 0 ≤ b .seconds ∧ b .seconds ≤ 59
  fr : 0 ≤ b .fraction ∧ b .fraction < 1000000000
  ap : b .amPm = 0 ∨ b .amPm = 1 ∨ b .amPm = 2
  mo : fm = true → 1 ≤ b .monthNum
  dy : fd = true → 1 ≤ b .dayOfMonth
  mt : ft = true → 1 ≤ b .monthText

theorem DtOK.frame {fm fd ft : Bool} {b : Bucket} (h : DtOK fm fd ft b) (sl : Slot) (v : Int)
    (n1 : sl ≠ .hours24) (n2 : sl ≠ .hours12) (n3 : sl ≠ .minutes) (n4 : sl ≠ .seconds) (n5 : sl ≠ .fraction)
    (n6 : sl ≠ .amPm) (n7 : sl ≠ .monthNum) (n8 : sl ≠ .dayOfMonth) (n9 : sl ≠ .monthText) :
    DtOK fm fd ft (b.set sl v) := by
  obtain ⟨a1, a2, a3, a4, a5, a6, a7, a8, a9⟩ := h
  refine ⟨?_, ?_, ?_, ?_, ?_, ?_, ?_, ?_, ?_⟩ <;> simp only [Bucket.set]
  · rw [if_neg (Ne.symm n1)]; exact a1
  · rw [if_neg (Ne.symm n2)]; exact a2
  · rw [if_neg (Ne.symm n3)]; exact a3
  · rw [if_neg (Ne.symm n4)]; exact a4
  · rw [if_neg (Ne.symm n5)]; exact a5
  · rw [if_neg (Ne.symm n6)]; exact a6
  · rw [if_neg (Ne.symm n7)]; exact a7
  · rw [if_neg (Ne.symm n8)]; exact a8
  · rw [if_neg (Ne.symm n9)]; exact a9

theorem DtOK.mono {fm fd ft fm' fd' ft' : Bool} {b : Bucket} (h : DtOK fm fd ft b)
    (h1 : fm' = true → fm = true) (h2 : fd' = true → fd = true) (h3 : ft' = true → ft = true) : DtOK fm' fd' ft' b :=
  ⟨h.h24, h.h12, h.mi, h.se, h.fr, h.ap, fun x => h.mo (h1 x), fun x => h.dy (h2 x), fun x => h.mt (h3 x)⟩

/-! ## longest-match indices -/

theorem findLongest_index (low : Char → Char) (l : Text) : ∀ (t : List Text) (i : Nat) (best : Int) (longest : Nat),
    (0 < i ∨ t.headD [] = []) →
    (findLongest low l t i best longest).1 = best ∨ 1 ≤ (findLongest low l t i best longest).1 := by
  intro t
  induction t with
  | nil => intro i best longest _; left; rfl
  | cons cand cs ih =>
    intro i best longest hi
    unfold findLongest
    split
    · exact ih (i + 1) best longest (Or.inl (Nat.succ_pos _))
    · rename_i hlen
      split
      · have hi1 : 0 < i := by
          rcases hi with h | h
          · exact h
          · simp only [List.headD_cons] at h
            rw [h] at hlen; simp at hlen
        rcases ih (i + 1) (i : Int) cand.length (Or.inl (Nat.succ_pos _)) with e | e
        · right; rw [e]; omega
        · right; exact e
      · exact ih (i + 1) best longest (Or.inl (Nat.succ_pos _))

theorem parseLongest_index (low : Char → Char) (l : Text) (t1 : List Text) (t2 : Option (List Text)) (i : Int) (r : Text)
    (h1 : t1.headD [] = []) (h2 : ∀ t, t2 = some t → t.headD [] = [])
    (h : parseLongest low l t1 t2 = some (i, r)) : 1 ≤ i := by
  have a := findLongest_index low l t1 0 (-1) 0 (Or.inr h1)
  cases t2 with
  | none =>
    simp only [parseLongest] at h
    by_cases hne : (findLongest low l t1 0 (-1) 0).1 ≠ -1
    · rw [if_pos hne] at h
      injection h with h; injection h with h _
      rw [← h]
      rcases a with e | e
      · exact absurd e hne
      · exact e
    · rw [if_neg hne] at h; cases h
  | some t =>
    simp only [parseLongest] at h
    have b := findLongest_index low l t 0 (findLongest low l t1 0 (-1) 0).1 (findLongest low l t1 0 (-1) 0).2 (Or.inr (h2 t rfl))
    by_cases hne : (findLongest low l t 0 (findLongest low l t1 0 (-1) 0).1 (findLongest low l t1 0 (-1) 0).2).1 ≠ -1
    · rw [if_pos hne] at h
      injection h with h; injection h with h _
      rw [← h]
      rcases b with e | e
      · rcases a with e' | e'
        · rw [e, e'] at hne; exact absurd rfl hne
        · rw [e]; exact e'
      · exact e
    · rw [if_neg hne] at h; cases h

theorem monthTable_head (cu : Culture) (hcu : cu.monthHeadsEmpty = true) (count : Nat) (g : Bool) :
    (monthTable cu count g).headD [] = [] := by
  unfold Culture.monthHeadsEmpty at hcu
  simp only [List.all_cons, List.all_nil, Bool.and_true, Bool.and_eq_true, decide_eq_true_eq] at hcu
  obtain ⟨a, b, c, d⟩ := hcu
  unfold monthTable
  split <;> split <;> assumption

/-! ## one step, a list of steps -/

theorem parseStep_dt_ok (cu : Culture) (hcu : cu.monthHeadsEmpty = true) (l : Text) (b b' : Bucket) (r : Text) (s : Step)
    (fm fd ft : Bool) (hw : dtStepWF s = true) (hb : DtOK fm fd ft b) (h : parseStep cu l b s = .ok (some (b', r))) :
    DtOK (fm || setsSlot .monthNum s) (fd || setsSlot .dayOfMonth s) (ft || setsSlot .monthText s) b' := by
  cases s with
  | lit t =>
    simp only [parseStep] at h
    split at h
    · injection h with h; injection h with h; injection h with h _; rw [← h]; simpa [setsSlot] using hb
    · cases h
  | semi =>
    simp only [parseStep] at h
    split at h
    · injection h with h; injection h with h; injection h with h _; rw [← h]; simpa [setsSlot] using hb
    · cases h
  | amPm count =>
    simp only [parseStep] at h
    cases hp : parseAmPm cu count l with
    | none => rw [hp] at h; cases h
    | some q =>
      obtain ⟨v, r'⟩ := q
      rw [hp] at h; injection h with h; injection h with h; injection h with h _
      have hv := parseAmPm_range cu count l v r' hp
      rw [← h]
      obtain ⟨a1, a2, a3, a4, a5, a6, a7, a8, a9⟩ := hb
      exact ⟨by simpa [Bucket.set] using a1, by simpa [Bucket.set] using a2, by simpa [Bucket.set] using a3,
        by simpa [Bucket.set] using a4, by simpa [Bucket.set] using a5, by simpa [Bucket.set] using hv,
        by simpa [Bucket.set, setsSlot] using a7, by simpa [Bucket.set, setsSlot] using a8,
        by simpa [Bucket.set, setsSlot] using a9⟩
  | frac count scale fixed =>
    simp only [dtStepWF, Bool.and_eq_true, decide_eq_true_eq] at hw
    obtain ⟨hc, rfl⟩ := hw
    simp only [parseStep] at h
    rcases parseFraction_total count 9 (if fixed = true then count else 0) l hc with e | ⟨v, r', e, hv⟩
    · rw [e] at h; cases h
    · rw [e] at h; injection h with h; injection h with h; injection h with h _
      rw [← h]
      obtain ⟨a1, a2, a3, a4, a5, a6, a7, a8, a9⟩ := hb
      have : (10 : Nat) ^ 9 = 1000000000 := by decide
      exact ⟨by simpa [Bucket.set] using a1, by simpa [Bucket.set] using a2, by simpa [Bucket.set] using a3,
        by simpa [Bucket.set] using a4, by simp only [Bucket.set, if_true]; omega, by simpa [Bucket.set] using a6,
        by simpa [Bucket.set, setsSlot] using a7, by simpa [Bucket.set, setsSlot] using a8,
        by simpa [Bucket.set, setsSlot] using a9⟩
  | dotFrac count scale comma =>
    simp only [dtStepWF, Bool.and_eq_true, decide_eq_true_eq] at hw
    obtain ⟨hc, rfl⟩ := hw
    simp only [parseStep] at h
    split at h
    · injection h with h; injection h with h; injection h with h _; rw [← h]; simpa [setsSlot] using hb
    · rename_i r0 _
      rcases parseFraction_total count 9 1 r0 hc with e | ⟨v, r', e, hv⟩
      · rw [e] at h; cases h
      · rw [e] at h; injection h with h; injection h with h; injection h with h _
        rw [← h]
        obtain ⟨a1, a2, a3, a4, a5, a6, a7, a8, a9⟩ := hb
        have : (10 : Nat) ^ 9 = 1000000000 := by decide
        exact ⟨by simpa [Bucket.set] using a1, by simpa [Bucket.set] using a2, by simpa [Bucket.set] using a3,
          by simpa [Bucket.set] using a4, by simp only [Bucket.set, if_true]; omega, by simpa [Bucket.set] using a6,
          by simpa [Bucket.set, setsSlot] using a7, by simpa [Bucket.set, setsSlot] using a8,
          by simpa [Bucket.set, setsSlot] using a9⟩
  | monthText count =>
    simp only [parseStep] at h
    cases hp : parseLongest (lowC cu) l (monthTable cu count true)
        (if monthTable cu count false = monthTable cu count true then none else some (monthTable cu count false)) with
    | none => rw [hp] at h; cases h
    | some q =>
      obtain ⟨i, r'⟩ := q
      rw [hp] at h; injection h with h; injection h with h; injection h with h _
      have hi : 1 ≤ i := by
        apply parseLongest_index (lowC cu) l _ _ i r' (monthTable_head cu hcu count true) _ hp
        intro t ht
        split at ht
        · cases ht
        · injection ht with ht; rw [← ht]; exact monthTable_head cu hcu count false
      rw [← h]
      obtain ⟨a1, a2, a3, a4, a5, a6, a7, a8, a9⟩ := hb
      exact ⟨by simpa [Bucket.set] using a1, by simpa [Bucket.set] using a2, by simpa [Bucket.set] using a3,
        by simpa [Bucket.set] using a4, by simpa [Bucket.set] using a5, by simpa [Bucket.set] using a6,
        by simpa [Bucket.set, setsSlot] using a7, by simpa [Bucket.set, setsSlot] using a8,
        by intro _; simp only [Bucket.set, if_true]; exact hi⟩
  | dayText count =>
    simp only [parseStep] at h
    cases hp : parseLongest (lowC cu) l (dayTable cu count) none with
    | none => rw [hp] at h; cases h
    | some q =>
      obtain ⟨i, r'⟩ := q
      rw [hp] at h; injection h with h; injection h with h; injection h with h _
      rw [← h]
      have := hb.frame .dayOfWeek i (by decide) (by decide) (by decide) (by decide) (by decide) (by decide) (by decide)
        (by decide) (by decide)
      simpa [setsSlot] using this
  | era =>
    simp only [parseStep] at h
    cases hp : parseEra cu l with
    | none => rw [hp] at h; cases h
    | some q =>
      obtain ⟨i, r'⟩ := q
      rw [hp] at h; injection h with h; injection h with h; injection h with h _
      rw [← h]
      have := hb.frame .era i (by decide) (by decide) (by decide) (by decide) (by decide) (by decide) (by decide)
        (by decide) (by decide)
      simpa [setsSlot] using this
  | eraC cal =>
    simp only [parseStep] at h
    cases hp : firstMatchCI (lowC cu) l (eraNamesOf cu (eraIdOfCal cal)) with
    | none => rw [hp] at h; cases h
    | some r' =>
      rw [hp] at h; injection h with h; injection h with h; injection h with h _
      rw [← h]
      have := hb.frame .era (eraIdOfCal cal) (by decide) (by decide) (by decide) (by decide) (by decide) (by decide) (by decide)
        (by decide) (by decide)
      simpa [setsSlot] using this
  | calendar =>
    simp only [parseStep] at h
    split at h
    · cases h
    · rename_i i0 r0 _
      injection h with h; injection h with h; injection h with h _; rw [← h]
      have := hb.frame .calendar (ordOfId i0) (by decide) (by decide) (by decide) (by decide) (by decide) (by decide) (by decide)
        (by decide) (by decide)
      simpa [setsSlot] using this
  | num g st count maxCount minV maxV =>
    simp only [parseStep] at h
    cases hp : parseField count maxCount minV maxV l with
    | none => rw [hp] at h; cases h
    | some q =>
      obtain ⟨v, r'⟩ := q
      rw [hp] at h; injection h with h; injection h with h; injection h with h _
      have hr := parseField_range count maxCount minV maxV l v r' hp
      rw [← h]
      obtain ⟨a1, a2, a3, a4, a5, a6, a7, a8, a9⟩ := hb
      simp only [dtStepWF, Bool.or_eq_true, Bool.and_eq_true, decide_eq_true_eq] at hw
      rcases hw with ((((((⟨⟨rfl, rfl⟩, rfl⟩ | ⟨⟨rfl, rfl⟩, hmx⟩) | ⟨⟨rfl, rfl⟩, rfl⟩) | ⟨⟨rfl, rfl⟩, rfl⟩) | rfl) | rfl) |
          ⟨rfl, hmn⟩) | ⟨rfl, hmn⟩
      · exact ⟨by simpa [Bucket.set] using a1, by simp only [Bucket.set, if_true]; omega, by simpa [Bucket.set] using a3,
          by simpa [Bucket.set] using a4, by simpa [Bucket.set] using a5, by simpa [Bucket.set] using a6,
          by simpa [Bucket.set, setsSlot] using a7, by simpa [Bucket.set, setsSlot] using a8,
          by simpa [Bucket.set, setsSlot] using a9⟩
      · exact ⟨by simp only [Bucket.set, if_true]; omega, by simpa [Bucket.set] using a2, by simpa [Bucket.set] using a3,
          by simpa [Bucket.set] using a4, by simpa [Bucket.set] using a5, by simpa [Bucket.set] using a6,
          by simpa [Bucket.set, setsSlot] using a7, by simpa [Bucket.set, setsSlot] using a8,
          by simpa [Bucket.set, setsSlot] using a9⟩
      · exact ⟨by simpa [Bucket.set] using a1, by simpa [Bucket.set] using a2, by simp only [Bucket.set, if_true]; omega,
          by simpa [Bucket.set] using a4, by simpa [Bucket.set] using a5, by simpa [Bucket.set] using a6,
          by simpa [Bucket.set, setsSlot] using a7, by simpa [Bucket.set, setsSlot] using a8,
          by simpa [Bucket.set, setsSlot] using a9⟩
      · exact ⟨by simpa [Bucket.set] using a1, by simpa [Bucket.set] using a2, by simpa [Bucket.set] using a3,
          by simp only [Bucket.set, if_true]; omega, by simpa [Bucket.set] using a5, by simpa [Bucket.set] using a6,
          by simpa [Bucket.set, setsSlot] using a7, by simpa [Bucket.set, setsSlot] using a8,
          by simpa [Bucket.set, setsSlot] using a9⟩
      · have := (DtOK.mk a1 a2 a3 a4 a5 a6 a7 a8 a9 : DtOK fm fd ft b).frame .year v (by decide) (by decide) (by decide)
          (by decide) (by decide) (by decide) (by decide) (by decide) (by decide)
        simpa [setsSlot] using this
      · have := (DtOK.mk a1 a2 a3 a4 a5 a6 a7 a8 a9 : DtOK fm fd ft b).frame .yearOfEra v (by decide) (by decide) (by decide)
          (by decide) (by decide) (by decide) (by decide) (by decide) (by decide)
        simpa [setsSlot] using this
      · exact ⟨by simpa [Bucket.set] using a1, by simpa [Bucket.set] using a2, by simpa [Bucket.set] using a3,
          by simpa [Bucket.set] using a4, by simpa [Bucket.set] using a5, by simpa [Bucket.set] using a6,
          by intro _; simp only [Bucket.set, if_true]; omega, by simpa [Bucket.set, setsSlot] using a8,
          by simpa [Bucket.set, setsSlot] using a9⟩
      · exact ⟨by simpa [Bucket.set] using a1, by simpa [Bucket.set] using a2, by simpa [Bucket.set] using a3,
          by simpa [Bucket.set] using a4, by simpa [Bucket.set] using a5, by simpa [Bucket.set] using a6,
          by simpa [Bucket.set, setsSlot] using a7, by intro _; simp only [Bucket.set, if_true]; omega,
          by simpa [Bucket.set, setsSlot] using a9⟩
  | signRequired => simp [dtStepWF] at hw
  | signNegativeOnly => simp [dtStepWF] at hw

theorem parseSteps_dt_ok (cu : Culture) (hcu : cu.monthHeadsEmpty = true) : ∀ (ss : List Step) (l : Text) (b b' : Bucket)
    (r : Text) (fm fd ft : Bool),
    ss.all dtStepWF = true → DtOK fm fd ft b → parseSteps cu ss l b = .ok (some (b', r)) →
    DtOK (fm || ss.any (setsSlot .monthNum)) (fd || ss.any (setsSlot .dayOfMonth)) (ft || ss.any (setsSlot .monthText)) b' := by
  intro ss
  induction ss with
  | nil =>
    intro l b b' r fm fd ft _ hb h
    simp only [parseSteps] at h; injection h with h; injection h with h; injection h with h _; rw [← h]
    simpa using hb
  | cons s ss ih =>
    intro l b b' r fm fd ft hw hb h
    simp only [List.all_cons, Bool.and_eq_true] at hw
    simp only [parseSteps] at h
    cases hp : parseStep cu l b s with
    | error e => rw [hp] at h; cases h
    | ok o =>
      rw [hp] at h
      cases o with
      | none => cases h
      | some q =>
        obtain ⟨b1, l1⟩ := q
        have := ih l1 b1 b' r _ _ _ hw.2 (parseStep_dt_ok cu hcu l b b1 l1 s fm fd ft hw.1 hb hp) h
        simpa [List.any_cons, Bool.or_assoc] using this

/-! ## `calculate_value` on an in-range bucket -/

/-- a valid template value: a valid ISO date and a time inside the day -/
structure TmplOK (tm : Tmpl) : Prop where
  date : validDate tm.y tm.m tm.d
  t0 : 0 ≤ tm.nod
  t1 : tm.nod < 86400000000000

theorem tmplOK_default : TmplOK Tmpl.default := ⟨by decide, by decide, by decide⟩

theorem hasAny_and (used all bit : Nat) (h : all &&& bit = bit) : hasAny (used &&& all) bit = hasAny used bit := by
  unfold hasAny
  rw [Nat.and_assoc, h]

/-- `_LocalDateParseBucket._calculate_value` (ISO calendar): a success is a valid date -/
theorem dateValueT_valid (ty tmo td : Int) (htm : validDate ty tmo td) (used : Nat) (b : Bucket) (fm fd ft : Bool)
    (hb : DtOK fm fd ft b)
    (s1 : hasAny used F.monthNum = true → fm = true) (s2 : hasAny used F.dayOfMonth = true → fd = true)
    (s3 : hasAny used F.monthText = true → ft = true)
    (y m d : Int) (h : dateValueT ty tmo td used b = some (y, m, d)) : validDate y m d := by
  obtain ⟨t1, t2, t3, t4, t5, t6⟩ := htm
  unfold dateValueT at h
  split at h
  · rename_i hu
    have f1 : fm = true := s1 (by rw [hu]; decide)
    have f2 : fd = true := s2 (by rw [hu]; decide)
    obtain ⟨e, hv⟩ := isoDateValue_some _ _ _ (y, m, d) (hb.mo f1) (hb.dy f2) h
    injection e with e1 e2; injection e2 with e2 e3
    rw [e1, e2, e3]; exact hv
  · cases hy : determineYear ty used b with
    | none => rw [hy] at h; cases h
    | some y' =>
      rw [hy] at h; dsimp only at h
      cases hmo : determineMonth tmo used b with
      | none => rw [hmo] at h; cases h
      | some m' =>
        rw [hmo] at h; dsimp only at h
        -- the year is inside the calendar
        have hyr : ISO_MIN_YEAR ≤ y' ∧ y' ≤ ISO_MAX_YEAR := by
          unfold determineYear at hy
          unfold ISO_MIN_YEAR ISO_MAX_YEAR at *
          dsimp only at hy
          repeat' split at hy
          all_goals first
            | (injection hy with hy; subst hy; omega)
            | (injection hy with hy; subst hy; split <;> omega)
            | (cases hy; done)
        -- the month is between 1 and 12
        have hmr : 1 ≤ m' ∧ m' ≤ 12 := by
          unfold determineMonth at hmo
          dsimp only at hmo
          split at hmo
          · cases hmo
          · rename_i mm hmm
            split at hmo
            · cases hmo
            · injection hmo with hmo
              subst hmo
              refine ⟨?_, by omega⟩
              split at hmm
              · rename_i hp
                injection hmm with hmm; rw [← hmm]
                exact hb.mo (s1 (by
                  unfold hasAny
                  have : used &&& F.monthNum = (used &&& (F.monthNum ||| F.monthText)) &&& F.monthNum := by
                    rw [Nat.and_assoc]; rfl
                  rw [this, hp]; decide))
              · split at hmm
                · rename_i hp
                  injection hmm with hmm; rw [← hmm]
                  exact hb.mt (s3 (by
                    unfold hasAny
                    have : used &&& F.monthText = (used &&& (F.monthNum ||| F.monthText)) &&& F.monthText := by
                      rw [Nat.and_assoc]; rfl
                    rw [this, hp]; decide))
                · split at hmm
                  · rename_i hp
                    split at hmm
                    · cases hmm
                    · injection hmm with hmm; rw [← hmm]
                      exact hb.mo (s1 (by
                        unfold hasAny
                        have : used &&& F.monthNum = (used &&& (F.monthNum ||| F.monthText)) &&& F.monthNum := by
                          rw [Nat.and_assoc]; rfl
                        rw [this, hp]; decide))
                  · injection hmm with hmm; rw [← hmm]; exact t3
        generalize hdd : (if hasAny used F.dayOfMonth = true then b .dayOfMonth else td) = dd at h
        have hd1 : 1 ≤ dd := by
          rw [← hdd]; split
          · rename_i hd; exact hb.dy (s2 hd)
          · exact t5
        split at h
        · cases h
        · split at h
          · cases h
          · injection h with h
            injection h with e1 e2; injection e2 with e2 e3
            subst e1; subst e2; subst e3
            exact ⟨hyr.1, hyr.2, hmr.1, hmr.2, hd1, by omega⟩

/-- `_LocalTimeParseBucket._calculate_value` for any template time inside the day, on a bucket whose 24-hour field
    is at most 23 -/
theorem timeValueT_valid (tmpl : Int) (ht0 : 0 ≤ tmpl) (ht1 : tmpl < 86400000000000) (used : Nat) (b : Bucket)
    (fm fd ft : Bool) (hb : DtOK fm fd ft b) (h23 : b .hours24 ≤ 23) (nod : Int) (h : timeValue tmpl used b = some nod) :
    0 ≤ nod ∧ nod < 86400000000000 := by
  obtain ⟨a1, a2, a3, a4, a5, a6, _, _, _⟩ := hb
  have hm := csharpMod12_range (b .hours12) a2.1
  obtain ⟨eh, _, _, _⟩ := time_accessors tmpl ht0 ht1
  have th : 0 ≤ ltHour tmpl ∧ ltHour tmpl ≤ 23 := by rw [eh]; omega
  have tm12 := csharpMod12_range (ltHour tmpl) th.1
  have td : Int.tdiv (ltHour tmpl) 12 = ltHour tmpl / 12 := by
    rw [tdiv_pos _ _ (by decide), if_pos th.1]
  have fin : ∀ hour : Int, 0 ≤ hour → hour ≤ 23 →
      ltFromHmsn hour (b .minutes) (b .seconds) (b .fraction) = nod → 0 ≤ nod ∧ nod < 86400000000000 := by
    intro hour h0 h1 e; rw [← e]; unfold ltFromHmsn NPH NPMin NPS; omega
  unfold timeValue at h
  simp only [td] at h
  split at h
  · injection h with h; exact fin _ a1.1 h23 h
  · generalize hap : (if b .amPm = 2 then ltHour tmpl / 12 else b .amPm) = ap at h
    have hap' : ap = 0 ∨ ap = 1 := by
      rw [← hap]; split
      · omega
      · rcases a6 with e | e | e
        · left; exact e
        · right; exact e
        · rename_i hne; exact absurd e hne
    split at h
    · split at h
      · cases h
      · split at h
        · cases h
        · injection h with h; exact fin _ a1.1 h23 h
    · split at h
      · injection h with h; refine fin _ ?_ ?_ h <;> rcases hap' with e | e <;> rw [e] <;> omega
      · split at h
        · injection h with h; refine fin _ ?_ ?_ h <;> omega
        · split at h
          · injection h with h; refine fin _ ?_ ?_ h <;> rcases hap' with e | e <;> rw [e] <;> omega
          · injection h with h; exact fin _ th.1 th.2 h

/-- `_LocalDateTimeParseBucket._combine_buckets`: a success is a valid date and a time inside the day (the 24:00
    roll-over included) -/
theorem dtValue_valid (tm : Tmpl) (htm : TmplOK tm) (used : Nat) (b : Bucket) (fm fd ft : Bool) (hb : DtOK fm fd ft b)
    (s1 : hasAny used F.monthNum = true → fm = true) (s2 : hasAny used F.dayOfMonth = true → fd = true)
    (s3 : hasAny used F.monthText = true → ft = true)
    (v : Int × Int × Int × Int) (h : dtValue tm used b = .ok (some v)) :
    validDate v.1 v.2.1 v.2.2.1 ∧ 0 ≤ v.2.2.2 ∧ v.2.2.2 < 86400000000000 := by
  unfold dtValue at h
  dsimp only at h
  generalize hb' : (if decide (b .hours24 = 24) = true then b.set .hours24 0 else b) = b' at h
  have hb2 : DtOK fm fd ft b' ∧ b' .hours24 ≤ 23 := by
    rw [← hb']
    by_cases h24 : b .hours24 = 24
    · simp only [h24, decide_true, if_true]
      obtain ⟨a1, a2, a3, a4, a5, a6, a7, a8, a9⟩ := hb
      exact ⟨⟨by simp [Bucket.set], by simpa [Bucket.set] using a2, by simpa [Bucket.set] using a3,
        by simpa [Bucket.set] using a4, by simpa [Bucket.set] using a5, by simpa [Bucket.set] using a6,
        by simpa [Bucket.set] using a7, by simpa [Bucket.set] using a8, by simpa [Bucket.set] using a9⟩,
        by simp [Bucket.set]⟩
    · simp only [h24, decide_false, Bool.false_eq_true, if_false]
      exact ⟨hb, by have := hb.h24; omega⟩
  cases hd : dateValueT tm.y tm.m tm.d (used &&& F.allDate) b' with
  | none => rw [hd] at h; cases h
  | some w =>
    obtain ⟨y, m, d⟩ := w
    rw [hd] at h; dsimp only at h
    have hval := dateValueT_valid tm.y tm.m tm.d htm.date (used &&& F.allDate) b' fm fd ft hb2.1
      (by rw [hasAny_and used F.allDate F.monthNum (by decide)]; exact s1)
      (by rw [hasAny_and used F.allDate F.dayOfMonth (by decide)]; exact s2)
      (by rw [hasAny_and used F.allDate F.monthText (by decide)]; exact s3) y m d hd
    cases ht : timeValue tm.nod (used &&& F.allTime) b' with
    | none => rw [ht] at h; cases h
    | some t =>
      rw [ht] at h; dsimp only at h
      have htv := timeValueT_valid tm.nod htm.t0 htm.t1 (used &&& F.allTime) b' fm fd ft hb2.1 hb2.2 t ht
      split at h
      · split at h
        · cases h
        · rename_i ht0
          cases hp : plusOneDay y m d with
          | error e => rw [hp] at h; cases e <;> cases h
          | ok w =>
            obtain ⟨y', m', d'⟩ := w
            rw [hp] at h
            injection h with h; injection h with h
            subst h
            exact ⟨plusOneDay_valid y m d y' m' d' hval hp, htv⟩
      · injection h with h; injection h with h
        subst h
        exact ⟨hval, htv⟩

/-! ## pattern objects -/

theorem dtBucket0_ok (tm : Tmpl) (htm : TmplOK tm) : DtOK false false false (bucket0 (.datetime tm)) := by
  obtain ⟨_, e2, e3, e4⟩ := time_accessors tm.nod htm.t0 htm.t1
  have h0 := htm.t0; have h1 := htm.t1
  refine ⟨?_, ?_, ?_, ?_, ?_, ?_, ?_, ?_, ?_⟩ <;> simp only [bucket0, dtBucket0, timeBucket0, e2, e3, e4] <;>
    first | omega | decide | (intro h; cases h)

theorem dateBucket0_ok : DtOK false false false (bucket0 .date) := by
  refine ⟨?_, ?_, ?_, ?_, ?_, ?_, ?_, ?_, ?_⟩ <;> simp only [bucket0, dateBucket0] <;>
    first | decide | (intro h; cases h)

theorem fieldsSound_flags (used : Nat) (steps : List Step) (h : fieldsSound used steps = true) :
    (hasAny used F.monthNum = true → (false || steps.any (setsSlot .monthNum)) = true) ∧
    (hasAny used F.dayOfMonth = true → (false || steps.any (setsSlot .dayOfMonth)) = true) ∧
    (hasAny used F.monthText = true → (false || steps.any (setsSlot .monthText)) = true) := by
  unfold fieldsSound at h
  simp only [Bool.and_eq_true, Bool.or_eq_true, Bool.not_eq_true'] at h
  obtain ⟨⟨h1, h2⟩, h3⟩ := h
  refine ⟨?_, ?_, ?_⟩ <;> intro hu <;> simp only [Bool.false_or]
  · rcases h1 with e | e
    · rw [e] at hu; cases hu
    · exact e
  · rcases h2 with e | e
    · rw [e] at hu; cases hu
    · exact e
  · rcases h3 with e | e
    · rw [e] at hu; cases hu
    · exact e

/-- **success_value_valid** for LocalDateTime patterns (any culture record whose month tables start with the empty
    entry, any valid ISO template value, any well-formed list of date/time steps accounting for the used fields):
    a successful parse of any text yields a valid date and a time inside the day -/
theorem parseCompiled_datetime_valid (tm : Tmpl) (htm : TmplOK tm) (c : Compiled) (hcu : c.cu.monthHeadsEmpty = true)
    (hw : c.steps.all dtStepWF = true) (hs : fieldsSound c.used c.steps = true) (l : Text) (v : List Int)
    (h : parseCompiled (.datetime tm) c l = .ok (some v)) :
    ∃ y m d nod, v = [y, m, d, nod] ∧ validDate y m d ∧ 0 ≤ nod ∧ nod < 86400000000000 := by
  unfold parseCompiled at h
  split at h
  · cases h
  · cases hp : parseSteps c.cu c.steps l (bucket0 (.datetime tm)) with
    | error e => rw [hp] at h; cases h
    | ok o =>
      rw [hp] at h
      cases o with
      | none => cases h
      | some q =>
        obtain ⟨b, rest⟩ := q
        dsimp only at h
        have hb := parseSteps_dt_ok c.cu hcu c.steps l _ b rest false false false hw (dtBucket0_ok tm htm) hp
        obtain ⟨s1, s2, s3⟩ := fieldsSound_flags c.used c.steps hs
        unfold bucketValue at h
        dsimp only at h
        cases hv : dtValue tm c.used b with
        | error e => rw [hv] at h; cases h
        | ok o =>
          rw [hv] at h
          cases o with
          | none => cases h
          | some w =>
            simp only [mapR, Option.map] at h
            split at h
            · injection h with h; injection h with h
              have := dtValue_valid tm htm c.used b _ _ _ hb s1 s2 s3 w hv
              exact ⟨w.1, w.2.1, w.2.2.1, w.2.2.2, h.symm, this⟩
            · cases h

/-- **success_value_valid** for custom LocalDate patterns (ISO calendar, default template value 2000-01-01) -/
theorem parseCompiled_date_valid (c : Compiled) (hcu : c.cu.monthHeadsEmpty = true)
    (hw : c.steps.all dtStepWF = true) (hs : fieldsSound c.used c.steps = true) (l : Text) (v : List Int)
    (h : parseCompiled .date c l = .ok (some v)) : ∃ y m d, v = [y, m, d] ∧ validDate y m d := by
  unfold parseCompiled at h
  split at h
  · cases h
  · cases hp : parseSteps c.cu c.steps l (bucket0 .date) with
    | error e => rw [hp] at h; cases h
    | ok o =>
      rw [hp] at h
      cases o with
      | none => cases h
      | some q =>
        obtain ⟨b, rest⟩ := q
        dsimp only at h
        have hb := parseSteps_dt_ok c.cu hcu c.steps l _ b rest false false false hw dateBucket0_ok hp
        obtain ⟨s1, s2, s3⟩ := fieldsSound_flags c.used c.steps hs
        unfold bucketValue at h
        dsimp only at h
        cases hv : dateValue c.used b with
        | none => rw [hv] at h; cases h
        | some w =>
          obtain ⟨y, m, d⟩ := w
          rw [hv] at h
          simp only [Option.map] at h
          split at h
          · injection h with h; injection h with h
            exact ⟨y, m, d, h.symm, dateValueT_valid TEMPLATE_YEAR 1 1 (by decide) c.used b _ _ _ hb s1 s2 s3 y m d hv⟩
          · cases h

end Pyoda.C08
