/-
  C13 (continued) — the remaining caches under concurrent use, at the atomic-action granularity of the trusted base
  (one slot/dict/deque operation, one lock acquire/release per scheduler entry; ANY schedule, any number of threads):

    zoneCache_interleaved      lock-free 512-slot zone-interval cache: node built locally, installed by one slot write
    hebrewCache_interleaved    the process-wide Hebrew cache, including its read of the next year's slot
    lru_locked_linearizable    `_Cache.get_or_add`, body split into its dict/deque operations, all under the lock:
                               every interleaving equals the sequential run in lock-acquisition order
    formatInfo_transparent     `_PyodaFormatInfo._get_format_info`: the answer is a function of the culture
  Helper lemmas: PyodaProofs.C13ConcLemmas.
-/
import PyodaProofs.C13
import PyodaProofs.C13ConcLemmas

namespace Pyoda.C13
open Pyoda.Cache

/-- Over a partition base map, every completed lookup of every thread returns the base map's interval, under any
    schedule; no thread's node construction runs out of fuel; completed lookups are an in-order prefix of the program.
    GRANULARITY: the class has no lock; the atomic actions are one slot read and one slot write of `__instant_cache`
    (CPython's GIL, trusted base).  `Pyoda.GenAgree.C13Z.gen_Cache_getZoneInterval_gil_ops` pins, against the record
    regenerated from the source, that these two are the only operations of `get_zone_interval` on mutable state. -/
theorem zoneCache_interleaved (cfg : ZoneHashCache.Cfg) (hi : Int)
    (hp : Partition cfg.get (cfg.minDays * NPD) hi) (hfuel : 32 * 86400000000000 < cfg.fuel)
    (progs : Nat → List Int) (h : ∀ i, ∀ t ∈ progs i, Askable cfg hi t) (sched : List Nat) (i : Nat) :
    (∀ p ∈ ((ZoneCacheConc.runSched cfg progs sched).threads i).out, p.2 = cfg.get p.1) ∧
    ((ZoneCacheConc.runSched cfg progs sched).threads i).phase ≠ .failed ∧
    ∃ rest, ((ZoneCacheConc.runSched cfg progs sched).threads i).out.reverse.map (·.1) ++ rest = progs i := by
  have hinv := runSched_inv (ZoneCacheConc.step cfg) (ZInv cfg (cfg.minDays * NPD) hi)
    (fun i th => ZThreadInv cfg hi (progs i) th)
    (fun tid s th hs ht => zconc_step hp hfuel (progs tid) tid s th hs ht) sched (ZoneCacheConc.sys0 progs)
    (by intro j n hn; cases hn)
    (fun i => ⟨h i, (by intro p hp'; cases hp'), trivial, (by simp [ZoneCacheConc.sys0, zpending])⟩)
  obtain ⟨_, hout, hph, hpre⟩ := hinv.2 i
  unfold ZoneCacheConc.runSched
  rw [List.append_assoc] at hpre
  refine ⟨hout, ?_, ⟨_, hpre⟩⟩
  intro hf
  rw [hf] at hph
  exact hph

/-- two threads on slot 0 with instants 16 384 days apart (periods 0 and 512), action by action -/
example : (List.range 2).map (fun i => ((ZoneCacheConc.runSched ⟨twoZone, ZoneHashCache.instantMinDays, 40⟩
      (fun i => if i = 0 then [0, 1415577600000000005] else [1415577600000000005, 0])
      [0, 1, 0, 1, 0, 1, 0, 1, 0, 1, 0, 1, 0, 1, 0, 1]).threads i).out.reverse)
    = [[(0, twoZone 0), (1415577600000000005, twoZone 1415577600000000005)],
       [(1415577600000000005, twoZone 1415577600000000005), (0, twoZone 0)]] := by decide

/-- The shared Hebrew cache: every completed `__get_or_populate_cache(y)` returns what a cache-free evaluation packs. -/
theorem hebrewCache_interleaved (elapsed : Int → Int) (progs : Nat → List Int)
    (h : ∀ i, ∀ y ∈ progs i, HebAskable y) (sched : List Nat) (i : Nat) :
    (∀ p ∈ ((HebrewConc.runSched elapsed progs sched).threads i).out, p.2 = YearCache.Hebrew.entryOf elapsed p.1) ∧
    ∃ rest, ((HebrewConc.runSched elapsed progs sched).threads i).out.reverse.map (·.1) ++ rest = progs i := by
  have hinv := runSched_inv (HebrewConc.step elapsed) (Good (YearCache.Hebrew.entryOf elapsed))
    (fun i t => HThreadInv elapsed (progs i) t)
    (fun tid s t hs ht => hconc_step elapsed (progs tid) tid s t hs ht) sched (HebrewConc.sys0 progs)
    (good_init _)
    (fun i => ⟨h i, (by intro p hp'; cases hp'), trivial, (by simp [HebrewConc.sys0, hpending])⟩)
  obtain ⟨_, hout, _, hpre⟩ := hinv.2 i
  unfold HebrewConc.runSched
  rw [List.append_assoc] at hpre
  exact ⟨hout, ⟨_, hpre⟩⟩

/-- every Hebrew year 1..9999 (and the 0 / 10000 the calculator also asks for) is askable -/
example (y : Int) (h1 : 0 ≤ y) (h2 : y ≤ 10000) : HebAskable y := by
  unfold HebAskable YearCache.InRange; omega

example : (List.range 2).map (fun i => ((HebrewConc.runSched YearCache.Hebrew.elapsedDaysNoCache
      (fun i => if i = 0 then [5, 1028] else [1029, 4])
      [0, 1, 1, 0, 0, 1, 0, 1, 1, 0, 0, 1, 0, 1, 0, 1, 0, 1, 0, 1, 0, 1]).threads i).out.reverse.map (·.2))
    = [[5, 1028].map (YearCache.Hebrew.entryOf YearCache.Hebrew.elapsedDaysNoCache),
       [1029, 4].map (YearCache.Hebrew.entryOf YearCache.Hebrew.elapsedDaysNoCache)] := by decide

/-- `_Cache.get_or_add` from any number of threads, any schedule of the individual dict/deque operations and lock
    actions.  With `hist` the calls in lock-acquisition order:
    * each thread's results are, in order, the results the SEQUENTIAL cache gives along `hist` for that thread's
      calls (at most the call in flight is still missing), and its calls appear in `hist` in program order;
    * whenever the lock is free the dictionary and queue are exactly the sequential state after `hist`,
      hence within the size bound;
    * at most one thread is inside the locked region.
    ASSUMPTION AND ITS TIE: the model puts every dict / deque operation of `get_or_add` between one `acquire` and one
    `release`.  That the source does is `Pyoda.GenAgree.C13.cache_ops_atomic_in_source` (`gen_Cache_getOrAdd_atomic`,
    `gen_Cache_count_atomic`, `gen_Cache_clear_atomic` in `PyodaProofs/GenAgreeC13.lean`), checked on every run against
    the lock discipline records that `tools/py2lean.py` recomputes from the AST. -/
theorem lru_locked_linearizable (f : Int → Int) (size : Nat) (progs : Nat → List Int) (sched : List Nat) :
    (∀ i, ∃ tail, LruConc.linOut f size Lru.init (LruConc.runSched f size progs sched).shared.hist i =
        ((LruConc.runSched f size progs sched).threads i).out.reverse ++ tail ∧ tail.length ≤ 1) ∧
    (∀ i, ∃ rest, ((LruConc.runSched f size progs sched).shared.hist.filter (fun p => p.1 == i)).map (·.2) ++ rest
        = progs i) ∧
    ((LruConc.runSched f size progs sched).shared.lock = none →
      (LruConc.runSched f size progs sched).shared.st =
        (Lru.run f size Lru.init ((LruConc.runSched f size progs sched).shared.hist.map (·.2))).1 ∧
      (1 ≤ size → (LruConc.runSched f size progs sched).shared.st.dict.length ≤ size)) ∧
    (∀ i j, inCritL ((LruConc.runSched f size progs sched).threads i).pc = true →
      inCritL ((LruConc.runSched f size progs sched).threads j).pc = true → i = j) := by
  have h := runSched_global (LruConc.step f size) (LinInv f size progs) (fun sys tid hs => linInv_step f size progs sys tid hs)
    sched (LruConc.sys0 progs) (linInv_init f size progs)
  unfold LruConc.runSched
  refine ⟨?_, ?_, ?_, ?_⟩
  · intro i
    refine ⟨_, h.outs i, ?_⟩
    split <;> simp
  · intro i; exact ⟨_, h.order i⟩
  · intro hl
    have hst := h.free hl
    refine ⟨hst, ?_⟩
    intro hsz
    rw [hst]
    exact (lru_size_le f size hsz _).1
  · intro i j hi hj
    have h1 := h.mutex i hi
    have h2 := h.mutex j hj
    rw [h1] at h2
    injection h2

/-- two threads, bound 1, keys colliding: the interleaving below linearises as (t0,1) (t1,2) (t0,2) (t1,1) -/
example : (LruConc.runSched (fun k => 7 * k + 1) 1 (fun i => if i = 0 then [1, 2] else [2, 1])
      ((List.range 60).map (· % 2))).shared.hist = [(0, 1), (1, 2), (0, 2), (1, 1)] ∧
    (List.range 2).map (fun i => ((LruConc.runSched (fun k => 7 * k + 1) 1 (fun i => if i = 0 then [1, 2] else [2, 1])
      ((List.range 60).map (· % 2))).threads i).out.reverse) = [[.ok 8, .ok 15], [.ok 15, .ok 8]] := by decide

/-- `_PyodaFormatInfo._get_format_info`: whatever was asked before (more than 500 cultures or not, cached or mutable
    cultures, the invariant culture), the format info returned is the one built from that culture, and the cache
    stays within its bound. -/
theorem formatInfo_transparent (cfg : FormatInfo.Cfg) (ks : List Int) :
    (FormatInfo.run cfg Lru.init ks).2 = ks.map (fun k => .ok (cfg.build k)) ∧
    (FormatInfo.run cfg Lru.init ks).1.dict.length ≤ FormatInfo.cacheSize :=
  let h := fmt_run_correct cfg ks Lru.init (lruInv_init _ _)
  ⟨h.2, h.1.le⟩

end Pyoda.C13
