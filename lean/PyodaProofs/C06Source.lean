/-
  C06 — the full decoding `fromStreamX` extends the container decoding `fromStream` of C20: whatever it returns
  carries, as `.stream`, exactly what `fromStream` returns on the same bytes.  So every statement of C14/C20 about
  `fromStream` (field framing, required fields, failure kinds) applies to the source the C06 payload ops talk about.
-/
import PyodaModel.Codec.Validate

namespace Pyoda.C06
open Pyoda Pyoda.Codec

theorem bind_ok {α β} (x : R α) (f : α → R β) (b : β) (h : (x >>= f) = .ok b) : ∃ a, x = .ok a ∧ f a = .ok b := by
  cases x with
  | error e => cases h
  | ok a => exact ⟨a, rfl, h⟩

theorem payloadOf_base (b : BuilderX) (base : Builder) (id : Nat) (data : Bytes) (b' : BuilderX)
    (h : payloadOf b base id data = .ok b') : b'.base = base := by
  unfold payloadOf at h
  split at h
  · rcases bind_ok _ _ _ h with ⟨⟨w, r⟩, -, h2⟩
    cases h2; rfl
  · rcases bind_ok _ _ _ h with ⟨⟨n, r⟩, -, h2⟩
    rcases bind_ok _ _ _ h2 with ⟨⟨l, r'⟩, -, h3⟩
    cases h3; rfl
  · rcases bind_ok _ _ _ h with ⟨⟨n, r⟩, -, h2⟩
    rcases bind_ok _ _ _ h2 with ⟨⟨l, r'⟩, -, h3⟩
    cases h3; rfl
  · cases h; rfl

theorem handleFieldX_base (b : BuilderX) (id : Nat) (data : Bytes) (b' : BuilderX)
    (h : handleFieldX b id data = .ok b') : handleField b.base id data = .ok b'.base := by
  unfold handleFieldX at h
  rcases bind_ok _ _ _ h with ⟨base, h1, h2⟩
  rw [h1, payloadOf_base _ _ _ _ _ h2]

theorem readFieldsX_base (fuel : Nat) (b : BuilderX) (bs : Bytes) (b' : BuilderX)
    (h : readFieldsX fuel b bs = .ok b') : readFields fuel b.base bs = .ok b'.base := by
  induction fuel generalizing b bs with
  | zero =>
    cases bs with
    | nil => simp only [readFieldsX] at h; cases h; simp [readFields]
    | cons x xs => simp [readFieldsX] at h
  | succ fuel ih =>
    cases bs with
    | nil => simp only [readFieldsX] at h; cases h; simp [readFields]
    | cons id r =>
      simp only [readFieldsX] at h
      simp only [readFields]
      split at h
      · cases h
      · rename_i hid
        rw [if_neg hid]
        rcases bind_ok _ _ _ h with ⟨⟨len, r1⟩, h1, h2⟩
        rw [h1]
        show (match takeExact len.toNat r1 with
          | none => Except.error PyExc.invalidData
          | some (data, r) => do let b ← handleField b.base id data; readFields fuel b r) = _
        split at h2
        · cases h2
        · rename_i data r2 htake
          rw [htake]
          rcases bind_ok _ _ _ h2 with ⟨bx, h3, h4⟩
          show (handleField b.base id data >>= fun b => readFields fuel b r2) = _
          rw [handleFieldX_base _ _ _ _ h3]
          exact ih _ _ h4

theorem sourceOfBuilderX_stream (b : BuilderX) (s : SourceData) (h : sourceOfBuilderX b = .ok s) :
    streamDataOfBuilder b.base = .ok s.stream := by
  unfold sourceOfBuilderX at h
  rcases bind_ok _ _ _ h with ⟨d, h1, h2⟩
  rw [h1]
  split at h2
  · cases h2; rfl
  · cases h2

theorem fromStreamBodyX_stream (bytes : Bytes) (s : SourceData) (h : fromStreamBodyX bytes = .ok s) :
    fromStreamBody bytes = .ok s.stream := by
  unfold fromStreamBodyX at h
  unfold fromStreamBody
  split at h
  · rename_i b0 b1 b2 b3 rest
    split at h
    · cases h
    · rename_i hz
      dsimp only
      rw [if_neg hz]
      rcases bind_ok _ _ _ h with ⟨bx, h1, h2⟩
      have := readFieldsX_base _ _ _ _ h1
      simp only at this
      show (readFields rest.length {} rest >>= streamDataOfBuilder) = _
      rw [this]
      exact sourceOfBuilderX_stream _ _ h2
  · cases h

theorem toInvalidData_ok {α} (r : R α) (a : α) (h : toInvalidData r = .ok a) : r = .ok a := by
  cases r with
  | ok x => exact h
  | error e => cases h

theorem translate_ok {α} (c : PyExc → Bool) (r : R α) (a : α) (h : translate c r = .ok a) : r = .ok a := by
  cases r with
  | ok x => exact h
  | error e => simp only [translate] at h; split at h <;> cases h

/-- the full decoding extends the container decoding: same string pool, id map, version and zone fields -/
theorem fromStreamX_stream (bytes : Bytes) (s : SourceData) (h : fromStreamX bytes = .ok s) :
    fromStream bytes = .ok s.stream := by
  have hb := translate_ok _ _ _ (toInvalidData_ok _ _ h)
  have := fromStreamBodyX_stream bytes s hb
  simp [fromStream, fromStreamRaw, this, translate, toInvalidData]

/-- `version_id` is `"TZDB: <tzdb version> (mapping: <windows mapping version>)"` -/
theorem versionId_eq (s : SourceData) :
    s.versionId = S_TZDB ++ s.tzdbVersion ++ S_MAPPING ++ s.windows.version ++ S_CLOSE := by
  simp [SourceData.versionId, SourceData.versionText, SourceData.tzdbVersion, List.append_assoc]

end Pyoda.C06
