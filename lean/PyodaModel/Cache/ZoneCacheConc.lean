/-
  PyodaModel.Cache.ZoneCacheConc — `__HashArrayCache.get_zone_interval` as atomic actions on a shared slot array:
  readSlot; (hit: walk the LOCAL node) | build a node locally (base-map lookups only); writeSlot; walk the LOCAL node.
-/
import PyodaModel.Cache.ZoneHashCache
import PyodaModel.Cache.Interleave

namespace Pyoda.Cache.ZoneCacheConc
open Pyoda.Cache.ZoneHashCache

inductive Phase where
  | idle
  | haveNode (t : Int) (n : Option Node)   -- `node = self.__instant_cache[index]` done
  | built (t : Int) (n : Node)             -- `_create_node(period, map)` returned, node is local
  | written (t : Int) (n : Node)           -- `self.__instant_cache[index] = node` done
  | failed                                 -- the `while` loop of `_create_node` outran the fuel
  deriving DecidableEq, Repr

structure Thread where
  todo : List Int
  phase : Phase
  /-- completed lookups (instant, interval), most recent first -/
  out : List (Int × Interval)
  deriving DecidableEq, Repr

def step (cfg : Cfg) (_tid : Nat) (s : State) (th : Thread) : State × Thread :=
  match th.phase with
  | .idle =>
    match th.todo with
    | [] => (s, th)
    | t :: rest => (s, { th with todo := rest, phase := .haveNode t (s (slotOf (periodOf t))) })
  | .haveNode t (some n) =>
    if n.period = periodOf t then (s, { th with phase := .idle, out := (t, walk t n.cur n.prev) :: th.out })
    else
      match createNode cfg (periodOf t) with
      | some m => (s, { th with phase := .built t m })
      | none => (s, { th with phase := .failed })
  | .haveNode t none =>
    match createNode cfg (periodOf t) with
    | some m => (s, { th with phase := .built t m })
    | none => (s, { th with phase := .failed })
  | .built t n => (update s (slotOf (periodOf t)) (some n), { th with phase := .written t n })
  | .written t n => (s, { th with phase := .idle, out := (t, walk t n.cur n.prev) :: th.out })
  | .failed => (s, th)

abbrev Sys := Interleave.Sys State Thread

def sys0 (progs : Nat → List Int) : Sys := ⟨init, fun i => ⟨progs i, .idle, []⟩⟩

def runSched (cfg : Cfg) (progs : Nat → List Int) (sched : List Nat) : Sys :=
  Interleave.runSched (step cfg) (sys0 progs) sched

end Pyoda.Cache.ZoneCacheConc
