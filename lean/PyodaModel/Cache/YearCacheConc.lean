/-
  PyodaModel.Cache.YearCacheConc — `_get_start_of_year_in_days` as atomic actions on a shared cache:
  readSlot; (hit: return from the LOCAL entry) | compute; writeSlot; return from the LOCAL entry.
-/
import PyodaModel.Cache.YearCache
import PyodaModel.Cache.Interleave

namespace Pyoda.Cache.YearCacheConc
open Pyoda.Cache.YearCache

inductive Phase where
  | idle
  | haveEntry (y e : Int)     -- `cache_entry = self.__year_cache[cache_index]` done
  | computed (y e : Int)      -- `cache_entry = _YearStartCacheEntry(year, days)` built locally
  | written (y e : Int)       -- `self.__year_cache[cache_index] = cache_entry` done
  deriving DecidableEq, Repr

structure Thread where
  todo : List Int
  phase : Phase
  /-- completed lookups (year, answer), most recent first -/
  out : List (Int × Int)
  deriving DecidableEq, Repr

def step (compute : Int → Int) (_tid : Nat) (s : State) (t : Thread) : State × Thread :=
  match t.phase with
  | .idle =>
    match t.todo with
    | [] => (s, t)
    | y :: rest => (s, { t with todo := rest, phase := .haveEntry y (s (indexOf y)) })
  | .haveEntry y e =>
    if isValidFor e y then (s, { t with phase := .idle, out := (y, startDays e) :: t.out })
    else (s, { t with phase := .computed y (mkEntry y (compute y)) })
  | .computed y e => (update s (indexOf y) e, { t with phase := .written y e })
  | .written y e => (s, { t with phase := .idle, out := (y, startDays e) :: t.out })

abbrev Sys := Interleave.Sys State Thread

def sys0 (progs : Nat → List Int) : Sys := ⟨init, fun i => ⟨progs i, .idle, []⟩⟩

def runSched (compute : Int → Int) (progs : Nat → List Int) (sched : List Nat) : Sys :=
  Interleave.runSched (step compute) (sys0 progs) sched

end Pyoda.Cache.YearCacheConc
