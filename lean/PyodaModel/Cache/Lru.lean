/-
  PyodaModel.Cache.Lru — `_Cache.get_or_add` (dict + deque under a lock; least-recently-ADDED eviction).
  `dict` is an insertion-ordered association list (Python dict order), `keys` the deque (left = head).
-/
import PyodaModel.Prelude

namespace Pyoda.Cache.Lru

structure State where
  dict : List (Int × Int)
  keys : List Int
  deriving DecidableEq, Repr

def init : State := ⟨[], []⟩

def find : List (Int × Int) → Int → Option Int
  | [], _ => none
  | (k', v) :: rest, k => if k' = k then some v else find rest k

/-- `del dictionary[k]` -/
def del : List (Int × Int) → Int → List (Int × Int)
  | [], _ => []
  | (k', v) :: rest, k => if k' = k then rest else (k', v) :: del rest k

/-- `while len(dictionary) > size: evict = key_list.popleft(); if evict in dictionary: del dictionary[evict]`;
    `popleft` on an empty deque raises IndexError -/
def evict (size : Nat) : List (Int × Int) → List Int → State × Option PyExc
  | d, [] => (⟨d, []⟩, if d.length > size then some .indexError else none)
  | d, k :: ks => if d.length > size then evict size (del d k) ks else (⟨d, k :: ks⟩, none)

structure Out where
  res : R Int
  hit : Bool
  deriving DecidableEq

/-- `get_or_add(key)` with `value_factory = f` -/
def step (f : Int → Int) (size : Nat) (s : State) (k : Int) : State × Out :=
  match find s.dict k with
  | some v => (s, ⟨.ok v, true⟩)
  | none =>
    let keys := s.keys ++ [k]
    let dict := s.dict ++ [(k, f k)]
    match evict size dict keys with
    | (s', some e) => (s', ⟨.error e, false⟩)
    | (s', none) =>
      match find s'.dict k with
      | some v => (s', ⟨.ok v, false⟩)
      | none => (s', ⟨.error .keyError, false⟩)

def run (f : Int → Int) (size : Nat) : State → List Int → State × List Out
  | s, [] => (s, [])
  | s, k :: ks =>
    let r := step f size s k
    let rest := run f size r.1 ks
    (rest.1, r.2 :: rest.2)

end Pyoda.Cache.Lru
