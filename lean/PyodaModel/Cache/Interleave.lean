/-
  PyodaModel.Cache.Interleave — small-step interleaving: a shared state, threads indexed by `Nat`, each with a
  local state; one scheduler entry = one atomic action of that thread (`step tid shared local`).
  A schedule is an arbitrary list of thread ids.
-/
import PyodaModel.Prelude

namespace Pyoda.Cache.Interleave

structure Sys (σ τ : Type) where
  shared : σ
  threads : Nat → τ

def stepAt {σ τ} (step : Nat → σ → τ → σ × τ) (sys : Sys σ τ) (tid : Nat) : Sys σ τ :=
  let r := step tid sys.shared (sys.threads tid)
  ⟨r.1, fun j => if j = tid then r.2 else sys.threads j⟩

def runSched {σ τ} (step : Nat → σ → τ → σ × τ) (sys : Sys σ τ) (sched : List Nat) : Sys σ τ :=
  sched.foldl (stepAt step) sys

/-- `0,1,…,n-1` repeated `rounds` times -/
def roundRobin (n rounds : Nat) : List Nat :=
  (List.range rounds).flatMap (fun _ => List.range n)

end Pyoda.Cache.Interleave
