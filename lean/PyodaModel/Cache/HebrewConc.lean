/-
  PyodaModel.Cache.HebrewConc — `_HebrewScripturalCalculator.__get_or_populate_cache` on the process-wide cache as
  atomic actions: readSlot(year); (hit: return local) | readSlot(year+1) and compute locally; writeSlot; return.
  Years outside 1..9999 bypass the cache but still peek at the next year's slot.
-/
import PyodaModel.Cache.YearCache
import PyodaModel.Cache.Interleave

namespace Pyoda.Cache.HebrewConc
open Pyoda.Cache.YearCache Pyoda.Cache.YearCache.Hebrew

inductive Phase where
  | idle
  | haveEntry (y e : Int)              -- in-range year: its slot has been read
  | needCompute (y : Int) (store : Bool)   -- about to run `__compute_cache_entry` (reads the next year's slot)
  | computed (y v : Int) (store : Bool)    -- value packed locally
  | written (y v : Int)                -- slot written
  deriving DecidableEq, Repr

structure Thread where
  todo : List Int
  phase : Phase
  out : List (Int × Int)
  deriving DecidableEq, Repr

def step (elapsed : Int → Int) (_tid : Nat) (s : State) (t : Thread) : State × Thread :=
  match t.phase with
  | .idle =>
    match t.todo with
    | [] => (s, t)
    | y :: rest =>
      if y < minYear ∨ y > maxYear then (s, { t with todo := rest, phase := .needCompute y false })
      else (s, { t with todo := rest, phase := .haveEntry y (s (indexOf y)) })
  | .haveEntry y e =>
    if isValidFor e y then (s, { t with phase := .idle, out := (y, startDays e) :: t.out })
    else (s, { t with phase := .needCompute y true })
  | .needCompute y store => (s, { t with phase := .computed y (computeEntry elapsed s y) store })
  | .computed y v true => (update s (indexOf y) (mkEntry y v), { t with phase := .written y v })
  | .computed y v false => (s, { t with phase := .idle, out := (y, v) :: t.out })
  | .written y v => (s, { t with phase := .idle, out := (y, startDays (mkEntry y v)) :: t.out })

abbrev Sys := Interleave.Sys State Thread

def sys0 (progs : Nat → List Int) : Sys := ⟨YearCache.init, fun i => ⟨progs i, .idle, []⟩⟩

def runSched (elapsed : Int → Int) (progs : Nat → List Int) (sched : List Nat) : Sys :=
  Interleave.runSched (step elapsed) (sys0 progs) sched

end Pyoda.Cache.HebrewConc
