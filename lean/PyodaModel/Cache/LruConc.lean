/-
  PyodaModel.Cache.LruConc — `_Cache.get_or_add` called from several threads.  The body of `with self.__lock:` is
  split into its dictionary/deque operations; every one of them is a separate atomic action on the shared state.
  `hist` is a ghost field: the (thread, key) pairs in the order the lock was acquired.  It is written at `acquire`
  and never read by the actions.
-/
import PyodaModel.Cache.Lru
import PyodaModel.Cache.Interleave

namespace Pyoda.Cache.LruConc
open Pyoda.Cache.Lru

structure Shared where
  st : Lru.State
  lock : Option Nat
  hist : List (Nat × Int)

def shared0 : Shared := ⟨Lru.init, none, []⟩

inductive PC where
  | start                      -- outside the method (next call not begun)
  | locked (k : Int)           -- lock acquired
  | missed (k : Int)           -- `key in dictionary` was False
  | evicting (k : Int)         -- key appended and inserted; in the `while` loop
  | fetch (k : Int)            -- loop left; about to read `dictionary[key]`
  | releasing (r : R Int)      -- value (or exception) in hand, leaving the `with` block
  deriving DecidableEq

structure Thread where
  todo : List Int
  pc : PC
  /-- results of completed calls, most recent first -/
  out : List (R Int)

def step (f : Int → Int) (size : Nat) (tid : Nat) (s : Shared) (t : Thread) : Shared × Thread :=
  match t.pc with
  | .start =>
    match t.todo with
    | [] => (s, t)
    | k :: rest =>
      if s.lock = none then ({ s with lock := some tid, hist := s.hist ++ [(tid, k)] }, { t with todo := rest, pc := .locked k })
      else (s, t)
  | .locked k =>
    match find s.st.dict k with
    | some v => (s, { t with pc := .releasing (.ok v) })
    | none => (s, { t with pc := .missed k })
  | .missed k =>
    ({ s with st := ⟨s.st.dict ++ [(k, f k)], s.st.keys ++ [k]⟩ }, { t with pc := .evicting k })
  | .evicting k =>
    if s.st.dict.length > size then
      match s.st.keys with
      | [] => (s, { t with pc := .releasing (.error .indexError) })
      | k0 :: ks => ({ s with st := ⟨del s.st.dict k0, ks⟩ }, t)
    else (s, { t with pc := .fetch k })
  | .fetch k =>
    match find s.st.dict k with
    | some v => (s, { t with pc := .releasing (.ok v) })
    | none => (s, { t with pc := .releasing (.error .keyError) })
  | .releasing r => ({ s with lock := none }, { t with pc := .start, out := r :: t.out })

abbrev Sys := Interleave.Sys Shared Thread

def sys0 (progs : Nat → List Int) : Sys := ⟨shared0, fun i => ⟨progs i, .start, []⟩⟩

def runSched (f : Int → Int) (size : Nat) (progs : Nat → List Int) (sched : List Nat) : Sys :=
  Interleave.runSched (step f size) (sys0 progs) sched

/-- the sequential run along a linearisation, projected on thread `i` -/
def linOut (f : Int → Int) (size : Nat) : Lru.State → List (Nat × Int) → Nat → List (R Int)
  | _, [], _ => []
  | s, (j, k) :: rest, i =>
    let r := Lru.step f size s k
    if j = i then r.2.res :: linOut f size r.1 rest i else linOut f size r.1 rest i

end Pyoda.Cache.LruConc
