/-
  PyodaModel.Cache.Lazy — lazily filled maps: `DateTimeZoneCache.__time_zone_map` (id → zone or None),
  the fixed-offset zone cache of `DateTimeZone.for_offset`, `CalendarSystem.__CALENDAR_BY_ORDINAL`.
  Objects are numbered in creation order, so "the same object" is equality of numbers.
  `Seq`: one caller at a time.  `Conc`: check-then-create as atomic actions, with and without a lock.
-/
import PyodaModel.Prelude
import PyodaModel.Cache.Interleave

namespace Pyoda.Cache.Lazy

/-! ### sequential -/
structure SState where
  map : Nat → Option Nat
  next : Nat

def sinit : SState := ⟨fun _ => none, 0⟩

/-- `provider[key]`: `none` = unknown id; otherwise the stored object, created on first use -/
def sget (known : Nat → Bool) (s : SState) (k : Nat) : SState × Option Nat :=
  if known k then
    match s.map k with
    | some o => (s, some o)
    | none => (⟨fun j => if j = k then some s.next else s.map j, s.next + 1⟩, some s.next)
  else (s, none)

def srun (known : Nat → Bool) : SState → List Nat → SState × List (Option Nat)
  | s, [] => (s, [])
  | s, k :: ks =>
    let r := sget known s k
    let rest := srun known r.1 ks
    (rest.1, r.2 :: rest.2)

/-! ### concurrent first use of one key -/
structure Shared where
  slot : Option Nat
  next : Nat
  lock : Option Nat
  deriving DecidableEq, Repr

def shared0 : Shared := ⟨none, 0, none⟩

inductive PC where
  | start
  | locked
  | checked (seen : Option Nat)
  | created (o : Nat)
  | stored (o : Nat)
  | done (o : Nat)
  deriving DecidableEq, Repr

/-- with the lock: acquire; read slot; [create; write slot]; release -/
def stepLocked (tid : Nat) (s : Shared) (pc : PC) : Shared × PC :=
  match pc with
  | .start => if s.lock = none then ({ s with lock := some tid }, .locked) else (s, .start)
  | .locked => (s, .checked s.slot)
  | .checked (some o) => ({ s with lock := none }, .done o)
  | .checked none => ({ s with next := s.next + 1 }, .created s.next)
  | .created o => ({ s with slot := some o }, .stored o)
  | .stored o => ({ s with lock := none }, .done o)
  | .done o => (s, .done o)

/-- the pinned code: read slot; [create; write slot]; return the local object -/
def stepUnlocked (_tid : Nat) (s : Shared) (pc : PC) : Shared × PC :=
  match pc with
  | .start => (s, .checked s.slot)
  | .locked => (s, .checked s.slot)
  | .checked (some o) => (s, .done o)
  | .checked none => ({ s with next := s.next + 1 }, .created s.next)
  | .created o => ({ s with slot := some o }, .stored o)
  | .stored o => (s, .done o)
  | .done o => (s, .done o)

abbrev Sys := Interleave.Sys Shared PC

def sys0 : Sys := ⟨shared0, fun _ => .start⟩

def runLocked (sched : List Nat) : Sys := Interleave.runSched stepLocked sys0 sched
def runUnlocked (sched : List Nat) : Sys := Interleave.runSched stepUnlocked sys0 sched

def result : PC → Option Nat
  | .done o => some o
  | _ => none

end Pyoda.Cache.Lazy
