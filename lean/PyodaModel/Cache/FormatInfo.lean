/-
  PyodaModel.Cache.FormatInfo — `_PyodaFormatInfo._get_format_info(culture_info)`.
  A culture is represented by its object identity `k` (CultureInfo defines neither `__eq__` nor `__hash__`, so the
  500-entry `_Cache` is keyed by identity); `build k` stands for the content of `_PyodaFormatInfo(culture)`.
  The invariant culture is answered from `invariant_info`, a culture that is not read-only is never cached
  (it may still be mutated), everything else goes through `_Cache.get_or_add`.
-/
import PyodaModel.Cache.Lru

namespace Pyoda.Cache.FormatInfo

structure Cfg where
  build : Int → Int
  invariantKey : Int
  readOnly : Int → Bool

def cacheSize : Nat := 500

def step (cfg : Cfg) (s : Lru.State) (k : Int) : Lru.State × R Int :=
  if k = cfg.invariantKey then (s, .ok (cfg.build cfg.invariantKey))
  else if cfg.readOnly k then
    ((Lru.step cfg.build cacheSize s k).1, (Lru.step cfg.build cacheSize s k).2.res)
  else (s, .ok (cfg.build k))

def run (cfg : Cfg) : Lru.State → List Int → Lru.State × List (R Int)
  | s, [] => (s, [])
  | s, k :: ks =>
    let r := step cfg s k
    let rest := run cfg r.1 ks
    (rest.1, r.2 :: rest.2)

end Pyoda.Cache.FormatInfo
