/-
  PyodaModel.Cache.ZoneHashCache — `_CachingZoneIntervalMap.__HashArrayCache`.
  Instants are integers (nanoseconds since the epoch; `days = t / NPD`), a zone interval is its two raw bounds
  (the start/end of time are the sentinel instants `Instant._before_min_value/_after_max_value`, ordinary
  integers here). The base map is an arbitrary function `get`.  A node chain (`_previous` links) is a list whose
  head is the node stored in the slot (the latest interval of the period).
-/
import PyodaModel.Prelude

namespace Pyoda.Cache.ZoneHashCache

structure Interval where
  start : Int
  stop : Int
  deriving DecidableEq, Repr

structure Cfg where
  get : Int → Interval
  /-- `Instant._MIN_DAYS` -/
  minDays : Int
  /-- bound on the iterations of the `while` loop of `_create_node` (the code has none) -/
  fuel : Nat

/-- `instant._days_since_epoch >> _PERIOD_SHIFT` -/
def periodOf (t : Int) : Int := (t / NPD) / 32
/-- `period & __CACHE_PERIOD_MASK` -/
def slotOf (p : Int) : Nat := (p % 512).toNat

structure Node where
  period : Int
  cur : Interval
  prev : List Interval
  deriving DecidableEq, Repr

abbrev State := Nat → Option Node

def init : State := fun _ => none

def update (s : State) (i : Nat) (v : Option Node) : State := fun j => if j = i then v else s j

/-- the `while interval._raw_end._days_since_epoch < next_period_start_days` loop -/
def extend (cfg : Cfg) (nextDays : Int) : Nat → Interval → List Interval → Option (Interval × List Interval)
  | 0, _, _ => none
  | n + 1, cur, prev =>
    if cur.stop / NPD < nextDays then extend cfg nextDays n (cfg.get cur.stop) (cur :: prev)
    else some (cur, prev)

def periodStart (cfg : Cfg) (p : Int) : Int := (max (p * 32) cfg.minDays) * NPD

/-- `_HashCacheNode._create_node(period, map)`; `none` = the loop did not finish within the fuel -/
def createNode (cfg : Cfg) (p : Int) : Option Node :=
  match extend cfg (p * 32 + 32) cfg.fuel (cfg.get (periodStart cfg p)) [] with
  | some (cur, prev) => some ⟨p, cur, prev⟩
  | none => none

/-- `while node._previous is not None and node._interval._raw_start > instant: node = node._previous` -/
def walk (t : Int) : Interval → List Interval → Interval
  | cur, [] => cur
  | cur, p :: rest => if cur.start > t then walk t p rest else cur

structure Out where
  iv : Interval
  hit : Bool
  chainLen : Nat
  deriving DecidableEq, Repr

/-- `get_zone_interval(instant)` -/
def step (cfg : Cfg) (s : State) (t : Int) : Option (State × Out) :=
  let p := periodOf t
  let i := slotOf p
  match s i with
  | some node =>
    if node.period = p then some (s, ⟨walk t node.cur node.prev, true, node.prev.length + 1⟩)
    else
      match createNode cfg p with
      | some n => some (update s i (some n), ⟨walk t n.cur n.prev, false, n.prev.length + 1⟩)
      | none => none
  | none =>
    match createNode cfg p with
    | some n => some (update s i (some n), ⟨walk t n.cur n.prev, false, n.prev.length + 1⟩)
    | none => none

def run (cfg : Cfg) : State → List Int → Option (State × List Out)
  | s, [] => some (s, [])
  | s, t :: ts =>
    match step cfg s t with
    | none => none
    | some (s1, o) =>
      match run cfg s1 ts with
      | none => none
      | some (s2, os) => some (s2, o :: os)

/-! a concrete base map for the driver: the partition of the line at `bounds` -/
def getFromBounds : List Int → Int → Int → Int → Interval
  | [], s, hi, _ => ⟨s, hi⟩
  | b :: bs, s, hi, t => if t < b then ⟨s, b⟩ else getFromBounds bs b hi t

def beforeMin : Int := -1073741824 * NPD
def afterMax : Int := 1073741823 * NPD
def instantMinDays : Int := -4371222

def realCfg (bounds : List Int) : Cfg :=
  { get := getFromBounds bounds beforeMin afterMax, minDays := instantMinDays, fuel := 32 * 86400000000000 + 1 }

end Pyoda.Cache.ZoneHashCache
