/-
  PyodaModel.Cache.YearCache — `_YearStartCacheEntry` and `_YearMonthDayCalculator._get_start_of_year_in_days`
  (1024 slots per calculator), plus the global Hebrew cache of `_HebrewScripturalCalculator`
  (same entries, value = `(elapsed_days << 2) | flags`, and a peek at the next year's slot).

  Python            model
  `year & 1023`     `year % 1024`            (mask 2^k-1 = floor modulo)
  `year >> 10`      `year / 1024`            (Int `/` with a positive divisor is floor division)
  `(d << 7) | v`    `d * 128 + v`            (0 ≤ v < 128: the low seven bits of `d << 7` are zero)
  `value & 127`     `value % 128`,  `value >> 7` ↦ `value / 128`
  The cache (a dict with keys 0..1023, all present from `_create_cache`) is a total function `Nat → Int`
  holding the packed entry values; `ycache.run`/`hcache.run` compare index, validator, hit/miss and the packed
  values with the real objects, negative years included.
-/
import PyodaModel.Prelude

namespace Pyoda.Cache.YearCache

/-- `_get_cache_index` -/
def indexOf (y : Int) : Nat := (y % 1024).toNat
/-- `__get_validator`: `year >> 10 & 127` -/
def validator (y : Int) : Int := (y / 1024) % 128
/-- `_INVALID_ENTRY_YEAR = 127 >> 1 << 10` -/
def invalidYear : Int := 64512
/-- `_YearStartCacheEntry(year, days).__value` -/
def mkEntry (y days : Int) : Int := days * 128 + validator y
/-- `_is_valid_for_year` -/
def isValidFor (e y : Int) : Bool := validator y == e % 128
/-- `_start_of_year_days` -/
def startDays (e : Int) : Int := e / 128
/-- `__invalid()` -/
def invalidEntry : Int := mkEntry invalidYear 0

abbrev State := Nat → Int

/-- `_create_cache()` -/
def init : State := fun _ => invalidEntry

def update (s : State) (i : Nat) (v : Int) : State := fun j => if j = i then v else s j

structure Out where
  value : Int
  hit : Bool
  deriving DecidableEq, Repr

/-- `_get_start_of_year_in_days(year)` with `_calculate_start_of_year_days = compute` -/
def step (compute : Int → Int) (s : State) (y : Int) : State × Out :=
  let i := indexOf y
  let e := s i
  if isValidFor e y then (s, ⟨startDays e, true⟩)
  else
    let e' := mkEntry y (compute y)
    (update s i e', ⟨startDays e', false⟩)

def run (compute : Int → Int) : State → List Int → State × List Out
  | s, [] => (s, [])
  | s, y :: ys =>
    let r := step compute s y
    let rest := run compute r.1 ys
    (rest.1, r.2 :: rest.2)

/-- the years a calculator may ask for without two of them sharing (slot, validator) and without
    meeting the validator (63) of the invalid entry: `y >> 10 ∈ [-64, 62]` -/
def InRange (y : Int) : Prop := -65536 ≤ y ∧ y < 64512

instance (y : Int) : Decidable (InRange y) := by unfold InRange; infer_instance

/-! ### Hebrew scriptural calculator: global cache -/
namespace Hebrew

def isLeapYear (y : Int) : Bool := Int.fmod (y * 7 + 1) 19 < 7

/-- `__elapsed_days_no_cache` (operands are far inside the exact domain of `_towards_zero_division`) -/
def elapsedDaysNoCache (year : Int) : Int :=
  let m19 := csharpMod (year - 1) 19
  let monthsElapsed := 235 * Int.tdiv (year - 1) 19 + 12 * m19 + Int.tdiv (m19 * 7 + 1) 19
  let partsElapsed := 204 + 793 * csharpMod monthsElapsed 1080
  let hoursElapsed := 5 + 12 * monthsElapsed + 793 * Int.tdiv monthsElapsed 1080 + Int.tdiv partsElapsed 1080
  let day := 1 + 29 * monthsElapsed + Int.tdiv hoursElapsed 24
  let parts := csharpMod hoursElapsed 24 * 1080 + csharpMod partsElapsed 1080
  let postpone : Bool :=
    decide (parts ≥ 19440) ||
    (decide (csharpMod day 7 = 2) && decide (parts ≥ 9924) && !isLeapYear year) ||
    (decide (csharpMod day 7 = 1) && decide (parts ≥ 16789) && isLeapYear (year - 1))
  let alt := if postpone then 1 + day else day
  let a7 := csharpMod alt 7
  if a7 = 0 ∨ a7 = 3 ∨ a7 = 5 then alt + 1 else alt

def minYear : Int := 1
def maxYear : Int := 9999

/-- pack `days << 2 | heshvan-long | kislev-short` from the two year starts -/
def packEntry (days nextDays : Int) : Int :=
  let diy := nextDays - days
  days * 4 + (if csharpMod diy 10 = 5 then 1 else 0) + (if csharpMod diy 10 = 3 then 2 else 0)

/-- `__compute_cache_entry(year)`; reads the next year's slot -/
def computeEntry (elapsed : Int → Int) (s : State) (y : Int) : Int :=
  let days := elapsed y
  let ny := y + 1
  let nextDays :=
    if ny < maxYear then
      let e := s (indexOf ny)
      if isValidFor e ny then startDays e / 4 else elapsed ny
    else elapsed (y + 1)
  packEntry days nextDays

/-- what a cache-free evaluation stores/returns for `year` -/
def entryOf (elapsed : Int → Int) (y : Int) : Int := packEntry (elapsed y) (elapsed (y + 1))

/-- `__get_or_populate_cache(year)` -/
def step (elapsed : Int → Int) (s : State) (y : Int) : State × Out :=
  if y < minYear ∨ y > maxYear then (s, ⟨computeEntry elapsed s y, false⟩)
  else
    let i := indexOf y
    let e := s i
    if isValidFor e y then (s, ⟨startDays e, true⟩)
    else
      let e' := mkEntry y (computeEntry elapsed s y)
      (update s i e', ⟨startDays e', false⟩)

def run (elapsed : Int → Int) : State → List Int → State × List Out
  | s, [] => (s, [])
  | s, y :: ys =>
    let r := step elapsed s y
    let rest := run elapsed r.1 ys
    (rest.1, r.2 :: rest.2)

end Hebrew
end Pyoda.Cache.YearCache
