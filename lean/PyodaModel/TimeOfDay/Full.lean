/-
  PyodaModel.TimeOfDay.Full — `Period` arithmetic on local values with the date part inside the model.

  Transcribed from
    pyoda_time/_local_date_time.py   `plus(Period)`, `minus(Period)` (`__add__`, `add`, `__sub__`, `subtract` delegate)
    pyoda_time/_local_date.py        `__add__(Period)`, `__sub__(Period)` (`plus`, `add`, `minus`, `subtract` delegate)
    pyoda_time/_local_time.py        `__add__(Period)`, `__sub__(Period)` (`plus`, `add`, `minus`, `subtract` delegate)
    pyoda_time/_period.py            `__add__`, `__sub__` (`add`, `subtract` delegate), `has_time_component`,
                                     `has_date_component`
  over the date arithmetic of `PyodaModel.DateArith` (`addYears` = `_YearsPeriodField.add`, `addMonths` =
  `calculator._add_months`, `addFixed` = `_FixedLengthDatePeriodField.add`, per calendar family) and the time-unit
  steps of `PyodaModel.TimeOfDay` (`timeSteps`, `LocalTime.plusPeriod`).  A date is its (year, month, day) triple in
  the calendar with ordinal `k.ord`; nothing here is computed by the real code.

  Order of the steps in `LocalDateTime.plus`: the six time units first (on the time of day only, collecting the
  whole-day carry; these steps cannot raise), then on the date `plus_years`, `plus_months`, `plus_weeks` and ONE
  `plus_days(period.days + carry)`.  So the carry is applied after the month/year clamping.
  This port has no `Period.__neg__` and no `Period._add_to`; `minus` negates each component inline.
-/
import PyodaModel.TimeOfDay
import PyodaModel.DateArith

namespace Pyoda.PeriodOps
open Pyoda Pyoda.DateArith

/-- `Period.__add__` -/
def add (p q : Period) : Period :=
  ⟨p.years + q.years, p.months + q.months, p.weeks + q.weeks, p.days + q.days, p.hours + q.hours,
   p.minutes + q.minutes, p.seconds + q.seconds, p.milliseconds + q.milliseconds, p.ticks + q.ticks,
   p.nanoseconds + q.nanoseconds⟩

/-- `Period.__sub__` -/
def sub (p q : Period) : Period :=
  ⟨p.years - q.years, p.months - q.months, p.weeks - q.weeks, p.days - q.days, p.hours - q.hours,
   p.minutes - q.minutes, p.seconds - q.seconds, p.milliseconds - q.milliseconds, p.ticks - q.ticks,
   p.nanoseconds - q.nanoseconds⟩

/-- the component-wise negation `minus(Period)` applies inline (there is no `Period.__neg__` in this port) -/
def neg (p : Period) : Period :=
  ⟨-p.years, -p.months, -p.weeks, -p.days, -p.hours, -p.minutes, -p.seconds, -p.milliseconds, -p.ticks,
   -p.nanoseconds⟩

def zero : Period := ⟨0, 0, 0, 0, 0, 0, 0, 0, 0, 0⟩

/-- `Period.has_time_component` -/
def hasTimeComponent (p : Period) : Bool :=
  decide (p.hours ≠ 0) || decide (p.minutes ≠ 0) || decide (p.seconds ≠ 0) || decide (p.milliseconds ≠ 0)
    || decide (p.ticks ≠ 0) || decide (p.nanoseconds ≠ 0)

/-- `Period.has_date_component` -/
def hasDateComponent (p : Period) : Bool :=
  decide (p.years ≠ 0) || decide (p.months ≠ 0) || decide (p.weeks ≠ 0) || decide (p.days ≠ 0)

/-- the components the time-unit steps of `PyodaModel.TimeOfDay` read -/
def timePart (p : Period) : TimePeriod :=
  ⟨p.weeks, p.days, p.hours, p.minutes, p.seconds, p.milliseconds, p.ticks, p.nanoseconds⟩

/-- nanoseconds of the six time units -/
def timeTotal (p : Period) : Int :=
  p.hours * NPH + p.minutes * NPMin + p.seconds * NPS + p.milliseconds * NPMs + p.ticks * NPT + p.nanoseconds

end Pyoda.PeriodOps

namespace Pyoda.LocalDate
open Pyoda Pyoda.DateArith Pyoda.PeriodOps

/-- `date.plus_years(y).plus_months(m).plus_weeks(w).plus_days(d)`: applied first to last, each step on the result
    of the previous one, each with its own clamping rule and range check -/
def dateSteps (k : Cal) (s : Ymd) (y m w d : Int) : R Ymd := do
  let a ← addYears k s y
  let b ← addMonths k a m
  let c ← addFixed k.c 7 b w
  addFixed k.c 1 c d

/-- `LocalDate.__add__(Period)` (`plus`, `LocalDate.add`) -/
def plusPeriod (k : Cal) (s : Ymd) (p : Period) : R Ymd :=
  if hasTimeComponent p then .error .valueError
  else dateSteps k s p.years p.months p.weeks p.days

/-- `LocalDate.__sub__(Period)` (`minus`, `LocalDate.subtract`) -/
def minusPeriod (k : Cal) (s : Ymd) (p : Period) : R Ymd :=
  if hasTimeComponent p then .error .valueError
  else dateSteps k s (-p.years) (-p.months) (-p.weeks) (-p.days)

end Pyoda.LocalDate

namespace Pyoda.LocalTime
open Pyoda Pyoda.DateArith Pyoda.PeriodOps

/-- `LocalTime.__add__(Period)` (`plus`, `LocalTime.add`) -/
def plusPeriodChecked (t : LocalTime) (p : Period) : R LocalTime :=
  if hasDateComponent p then .error .valueError else .ok (t.plusPeriod (timePart p))

/-- `LocalTime.__sub__(Period)` (`minus`, `LocalTime.subtract`) -/
def minusPeriodChecked (t : LocalTime) (p : Period) : R LocalTime :=
  if hasDateComponent p then .error .valueError else .ok (t.plusPeriod (timePart p).neg)

end Pyoda.LocalTime

namespace Pyoda.LocalDateTime
open Pyoda Pyoda.DateArith Pyoda.PeriodOps

/-- `LocalDateTime.plus(period)` on (calendar, (year, month, day), time of day) -/
def plusPeriodFull (k : Cal) (s : Ymd) (t : LocalTime) (p : Period) : R (Ymd × LocalTime) := do
  let te := timeSteps t (timePart p)
  let date ← LocalDate.dateSteps k s p.years p.months p.weeks (p.days + te.2)
  .ok (date, te.1)

/-- `LocalDateTime.minus(period)`: every component negated inline, the days as `extra_days - other.days` -/
def minusPeriodFull (k : Cal) (s : Ymd) (t : LocalTime) (p : Period) : R (Ymd × LocalTime) := do
  let te := timeSteps t (timePart p).neg
  let date ← LocalDate.dateSteps k s (-p.years) (-p.months) (-p.weeks) (te.2 - p.days)
  .ok (date, te.1)

/-- both directions behind one sign (`1` = plus, anything else = minus) -/
def applyPeriodFull (k : Cal) (s : Ymd) (t : LocalTime) (p : Period) (sign : Int) : R (Ymd × LocalTime) :=
  if sign = 1 then plusPeriodFull k s t p else minusPeriodFull k s t p

end Pyoda.LocalDateTime

/-! ## line protocol

  `r` is the route through the public API; the model gives the same answer for every route of a direction.
    ldtf.period r ord y m d nod  Y M W D h mi s ms t ns   r ∈ plus | opadd | add | minus | opsub | subtract → y m d nod
    ldtf.unit u ord y m d nod n                            u ∈ years | months | weeks | days → y m d nod
                                                           (`LocalDateTime.plus_<u>(n)` = `plus` of the one-component period)
    datef.period r ord y m d     Y M W D h mi s ms t ns   (same routes) → y m d
    timef.period r nod           Y M W D h mi s ms t ns   (same routes) → nod
    period.alg r  <10 components> <10 components>          r ∈ opadd | add | opsub | subtract → 10 components
    period.has <10 components>                             → has_time_component has_date_component
  Month amounts of 10^27 and more are outside the model (`!dom`), as in the DateArith area. -/

namespace Pyoda.TimeOfDay
open Pyoda Pyoda.DateArith Pyoda.PeriodOps

/-- `some true` = a plus route, `some false` = a minus route -/
def route? : String → Option Bool
  | "plus" => some true | "opadd" => some true | "add" => some true
  | "minus" => some false | "opsub" => some false | "subtract" => some false
  | _ => none

def showLdtFull (r : R (Ymd × LocalTime)) : String :=
  showR (fun x => showInts [x.1.1, x.1.2.1, x.1.2.2, x.2.nod]) r

def nodGuard (nod : Int) (r : String) : String := if nod < 0 ∨ nod ≥ NPD then "!valueError" else r

def handleFull (toks : List String) : Option String :=
  match toks with
  | "ldtf.period" :: r :: c :: rest => withCal c fun k => do
      let plus ← route? r
      match ← parseInts? rest with
      | y :: m :: d :: nod :: comps =>
        let p ← periodOf comps
        let s : Ymd := (y, m, d)
        some (showR id (validated k s (.ok (nodGuard nod (domGuard p.months (showLdtFull
          (if plus then LocalDateTime.plusPeriodFull k s ⟨nod⟩ p else LocalDateTime.minusPeriodFull k s ⟨nod⟩ p)))))))
      | _ => none
  | ["ldtf.unit", u, c, y, m, d, nod, n] => withCal c fun k => do
      -- `LocalDateTime.plus_years / plus_months / plus_weeks / plus_days`: one date step, the time of day kept
      match ← parseInts? [y, m, d, nod, n] with
      | [y, m, d, nod, n] =>
        let p ← (match u with
          | "years" => some (⟨n, 0, 0, 0, 0, 0, 0, 0, 0, 0⟩ : Period)
          | "months" => some ⟨0, n, 0, 0, 0, 0, 0, 0, 0, 0⟩
          | "weeks" => some ⟨0, 0, n, 0, 0, 0, 0, 0, 0, 0⟩
          | "days" => some ⟨0, 0, 0, n, 0, 0, 0, 0, 0, 0⟩
          | _ => none)
        let s : Ymd := (y, m, d)
        some (showR id (validated k s (.ok (nodGuard nod (domGuard p.months (showLdtFull
          (LocalDateTime.plusPeriodFull k s ⟨nod⟩ p)))))))
      | _ => none
  | "datef.period" :: r :: c :: rest => withCal c fun k => do
      let plus ← route? r
      match ← parseInts? rest with
      | y :: m :: d :: comps =>
        let p ← periodOf comps
        let s : Ymd := (y, m, d)
        some (showR id (validated k s (.ok (domGuard p.months (showYmd
          (if plus then LocalDate.plusPeriod k s p else LocalDate.minusPeriod k s p))))))
      | _ => none
  | "timef.period" :: r :: rest => do
      let plus ← route? r
      match ← parseInts? rest with
      | nod :: comps =>
        let p ← periodOf comps
        some (nodGuard nod (showT
          (if plus then LocalTime.plusPeriodChecked ⟨nod⟩ p else LocalTime.minusPeriodChecked ⟨nod⟩ p)))
      | _ => none
  | "period.alg" :: r :: rest => do
      let plus ← (match r with
        | "opadd" => some true | "add" => some true | "opsub" => some false | "subtract" => some false | _ => none)
      let v ← parseInts? rest
      let p ← periodOf (v.take 10)
      let q ← periodOf (v.drop 10)
      some (showInts (if plus then PeriodOps.add p q else PeriodOps.sub p q).toList)
  | "period.has" :: rest => do
      let v ← parseInts? rest
      let p ← periodOf v
      some (showBool (hasTimeComponent p) ++ " " ++ showBool (hasDateComponent p))
  | _ => none

end Pyoda.TimeOfDay
