/- Generic line-protocol loop: one op per input line, one reply per output line. -/
import PyodaModel.Prelude

namespace Pyoda

def dispatchWith (handlers : List (List String → Option String)) (line : String) : String :=
  let toks := (line.splitOn " ").filter (· ≠ "")
  match toks with
  | [] => "?empty"
  | _ =>
    match handlers.findSome? (fun h => h toks) with
    | some r => r
    | none => "?bad-op"

partial def driverLoop (handlers : List (List String → Option String)) (hin hout : IO.FS.Stream) : IO Unit := do
  let line ← hin.getLine
  if line.isEmpty then return ()
  let l := String.ofList (line.toList.filter (fun c => c != '\n' && c != '\r'))
  hout.putStrLn (dispatchWith handlers l)
  driverLoop handlers hin hout

def runDriver (handlers : List (List String → Option String)) : IO Unit := do
  let hin ← IO.getStdin
  let hout ← IO.getStdout
  driverLoop handlers hin hout
  hout.flush

end Pyoda

namespace Pyoda

/-- stateful variant: `step state tokens = some (state', reply)`; `none` = unknown op -/
partial def driverLoopS {σ} (step : σ → List String → Option (σ × String)) (st : σ) (hin hout : IO.FS.Stream) : IO Unit := do
  let line ← hin.getLine
  if line.isEmpty then return ()
  let l := String.ofList (line.toList.filter (fun c => c != '\n' && c != '\r'))
  let toks := (l.splitOn " ").filter (· ≠ "")
  match toks with
  | [] => hout.putStrLn "?empty"; driverLoopS step st hin hout
  | _ =>
    match step st toks with
    | some (st', r) => hout.putStrLn r; driverLoopS step st' hin hout
    | none => hout.putStrLn "?bad-op"; driverLoopS step st hin hout

def runDriverS {σ} (init : σ) (step : σ → List String → Option (σ × String)) : IO Unit := do
  let hin ← IO.getStdin
  let hout ← IO.getStdout
  driverLoopS step init hin hout
  hout.flush

end Pyoda
