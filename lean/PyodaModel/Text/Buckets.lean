/-
  PyodaModel.Text.Buckets — value accessors, parse buckets (`calculate_value`) and the pattern objects' `format` /
  `parse` for LocalTime (template midnight), LocalDate (ISO calendar, template 2000-01-01, two-digit-year
  maximum 30) and Offset, on top of the generic engine.
  `calculate_value` is modelled as the code does it after the repairs of DESIGN.md section 7 (rows 5, 16).
-/
import PyodaModel.Text.Engine
import PyodaModel.Text.Compile

namespace Pyoda.Text

/-! ### accessors -/

/-- `LocalTime.clock_hour_of_half_day` -/
def ltClockHour (nod : Int) : Int :=
  let h := int32Overflow (csharpMod (ltHour nod) 12)
  if h = 0 then 12 else h

def timeGetter (nod : Int) : Getter
  | .hours24 => ltHour nod
  | .hours12 => ltClockHour nod
  | .minutes => ltMinute nod
  | .seconds => ltSecond nod
  | .fraction => ltNano nod
  | _ => 0

/-- `GJEraCalculator._get_year_of_era` -/
def yearOfEra (y : Int) : Int := if y > 0 then y else 1 - y

/-- days since 1970-01-01 of a proleptic Gregorian date (civil-from-days inverse, used for the weekday only) -/
def daysFromCivil (y m d : Int) : Int :=
  let y' := if m ≤ 2 then y - 1 else y
  let era := Int.fdiv y' 400
  let yoe := y' - era * 400
  let mp := if m > 2 then m - 3 else m + 9
  let doy := Int.fdiv (153 * mp + 2) 5 + d - 1
  let doe := yoe * 365 + Int.fdiv yoe 4 - Int.fdiv yoe 100 + doy
  era * 146097 + doe - 719468

/-- `LocalDate.day_of_week` as `IsoDayOfWeek` value (Monday = 1 … Sunday = 7) -/
def isoDayOfWeek (y m d : Int) : Int := Int.fmod (daysFromCivil y m d + 3) 7 + 1

def dateGetter (y m d : Int) : Getter
  | .year => y
  | .yearOfEra => yearOfEra y
  | .yearOfEra2 => csharpMod (csharpMod (yearOfEra y) 100 + 100) 100
  | .monthNum => m
  | .dayOfMonth => d
  | .dayOfWeek => isoDayOfWeek y m d
  | _ => 0

def offsetGetter (s : Int) : Getter
  | .sign => if offMillis s ≥ 0 then 0 else 1
  | .hours24 => offHours s
  | .minutes => offMinutes s
  | .seconds => offSecs s
  | _ => 0

/-! ### buckets -/

def F.allTimeExceptFraction : Nat := F.hours12 ||| F.hours24 ||| F.minutes ||| F.seconds ||| F.amPm ||| F.embeddedTime

def hasAny (used bits : Nat) : Bool := used &&& bits ≠ 0

/-- `_LocalTimeParseBucket._ctor(template)` -/
def timeBucket0 (tmpl : Int) : Bucket
  | .minutes => ltMinute tmpl
  | .seconds => ltSecond tmpl
  | .fraction => ltNano tmpl
  | _ => 0

/-- `_LocalTimeParseBucket._calculate_value` -/
def timeValue (tmpl : Int) (used : Nat) (b : Bucket) : Option Int :=
  if used &&& F.allTimeExceptFraction = (F.hours24 ||| F.minutes ||| F.seconds) then
    some (ltFromHmsn (b .hours24) (b .minutes) (b .seconds) (b .fraction))
  else
    let amPm := if b .amPm = 2 then Int.tdiv (ltHour tmpl) 12 else b .amPm
    let fin (hour : Int) : Option Int := some (ltFromHmsn hour (b .minutes) (b .seconds) (b .fraction))
    if hasAny used F.hours24 then
      if hasAll used (F.hours12 ||| F.hours24) ∧ csharpMod (b .hours12) 12 ≠ csharpMod (b .hours24) 12 then none
      else if hasAny used F.amPm ∧ Int.tdiv (b .hours24) 12 ≠ amPm then none
      else fin (b .hours24)
    else
      let flags := used &&& (F.hours12 ||| F.amPm)
      if flags = (F.hours12 ||| F.amPm) then fin (csharpMod (b .hours12) 12 + amPm * 12)
      else if flags = F.hours12 then fin (csharpMod (b .hours12) 12 + Int.tdiv (ltHour tmpl) 12 * 12)
      else if flags = F.amPm then fin (csharpMod (ltHour tmpl) 12 + amPm * 12)
      else fin (ltHour tmpl)

def offsetBucket0 : Bucket := fun _ => 0

/-- `_OffsetParseBucket.calculate_value` (repaired, see `Iso.offsetValue`) -/
def offsetBucketValue (b : Bucket) : R (Option Int) :=
  offsetValue (decide (b .sign = 1)) (b .hours24) (b .minutes) (b .seconds)

/-- template of `LocalDatePattern`: 2000-01-01 ISO, `two_digit_year_max` 30 -/
def dateBucket0 : Bucket := fun _ => 0

def TEMPLATE_YEAR : Int := 2000
def TWO_DIGIT_YEAR_MAX : Int := 30

/-- `__determine_year` for the ISO calendar without an era field (era of the template: CE) -/
def determineYear (used : Nat) (b : Bucket) : Option Int :=
  if hasAny used F.year then
    let y := b .year
    if y > ISO_MAX_YEAR ∨ y < ISO_MIN_YEAR then none
    else if hasAny used F.yearOfEra then
      let yoe := yearOfEra y
      let yoe := if hasAny used F.yearTwoDigits then csharpMod yoe 100 else yoe
      if yoe ≠ b .yearOfEra then none else some y
    else some y
  else if ¬ hasAny used F.yearOfEra then some TEMPLATE_YEAR
  else
    let yoe := b .yearOfEra
    let yoe :=
      if hasAny used F.yearTwoDigits then
        let century := Int.tdiv (yearOfEra TEMPLATE_YEAR) 100
        let century := if yoe > TWO_DIGIT_YEAR_MAX ∧ century > 1 then century - 1 else century
        yoe + century * 100
      else yoe
    if yoe < 1 ∨ yoe > 9999 then none else some yoe

/-- `__determine_month` -/
def determineMonth (used : Nat) (b : Bucket) : Option Int :=
  let p := used &&& (F.monthNum ||| F.monthText)
  let m : Option Int :=
    if p = F.monthNum then some (b .monthNum)
    else if p = F.monthText then some (b .monthText)
    else if p = (F.monthNum ||| F.monthText) then (if b .monthNum ≠ b .monthText then none else some (b .monthNum))
    else some 1
  match m with
  | none => none
  | some m => if m > 12 then none else some m

/-- `_LocalDateParseBucket._calculate_value` for the ISO calendar; era and calendar fields are outside the subset -/
def dateValue (used : Nat) (b : Bucket) : Option (Int × Int × Int) :=
  if used = (F.year ||| F.monthNum ||| F.dayOfMonth) then isoDateValue (b .year) (b .monthNum) (b .dayOfMonth)
  else
    match determineYear used b with
    | none => none
    | some y =>
      match determineMonth used b with
      | none => none
      | some m =>
        let d := if hasAny used F.dayOfMonth then b .dayOfMonth else 1
        if d > daysInMonth y m then none
        else if hasAny used F.dayOfWeek ∧ b .dayOfWeek ≠ isoDayOfWeek y m d then none
        else some (y, m, d)

/-! ### pattern objects -/

/-- value of a modelled type in canonical fields: time `[nod]`, date `[y, m, d]`, offset `[seconds]` -/
def getterOf (ty : PType) (v : List Int) : Option Getter :=
  match ty, v with
  | .time, [nod] => some (timeGetter nod)
  | .date, [y, m, d] => some (dateGetter y m d)
  | .offset, [s] => some (offsetGetter s)
  | _, _ => none

def fmtCompiled (c : Compiled) (get : Getter) (buf : Text) : R Text := formatSteps c.cu c.used get c.steps buf

/-- the bucket a pattern of the type starts from -/
def bucket0 (ty : PType) : Bucket :=
  match ty with
  | .time => timeBucket0 0
  | .date => dateBucket0
  | .offset => offsetBucket0

/-- `bucket.calculate_value(used_fields, text)` in canonical fields -/
def bucketValue (ty : PType) (used : Nat) (b : Bucket) : R (Option (List Int)) :=
  match ty with
  | .time => .ok ((timeValue 0 used b).map (fun n => [n]))
  | .date => .ok ((dateValue used b).map (fun v => [v.1, v.2.1, v.2.2]))
  | .offset => mapR (fun o => o.map (fun s => [s])) (offsetBucketValue b)

/-- `__SteppedPattern.parse`: empty text, parse actions, `calculate_value`, end of text (by position) -/
def parseCompiled (ty : PType) (c : Compiled) (l : Text) : R (Option (List Int)) :=
  if l = [] then .ok none else
  match parseSteps c.cu c.steps l (bucket0 ty) with
  | .error e => .error e
  | .ok none => .ok none
  | .ok (some (b, rest)) =>
    match bucketValue ty c.used b with
    | .error e => .error e
    | .ok none => .ok none
    | .ok (some v) => if rest = [] then .ok (some v) else .ok none

mutual
/-- `format` of a pattern object; composites are the Offset `g`/`i` triples (long, medium, short) whose format
    predicates are: always / whole minutes / whole hours, the last that holds being used -/
def fmtPat (ty : PType) (v : List Int) (get : Getter) : Pat → R Text
  | .stepped c => fmtCompiled c get []
  | .zprefix p => if v = [0] then .ok ['Z'] else fmtPat ty v get p
  | .composite ps =>
    match v, ps with
    | [s], [a, b, c] =>
      if csharpMod s 3600 = 0 then fmtPat ty v get c
      else if csharpMod s 60 = 0 then fmtPat ty v get b
      else fmtPat ty v get a
    | _, _ => .error .runtimeError
end

mutual
/-- `parse` of a pattern object -/
def parsePat (ty : PType) (l : Text) : Pat → R (Option (List Int))
  | .stepped c => parseCompiled ty c l
  | .zprefix p => if l = ['Z'] then .ok (some [0]) else parsePat ty l p
  | .composite ps => if l = [] then .ok none else parsePats ty l ps
/-- composite: the first pattern that succeeds; every failure on a non-empty text continues -/
def parsePats (ty : PType) (l : Text) : List Pat → R (Option (List Int))
  | [] => .ok none
  | p :: ps =>
    match parsePat ty l p with
    | .error e => .error e
    | .ok (some v) => .ok (some v)
    | .ok none => parsePats ty l ps
end

end Pyoda.Text
