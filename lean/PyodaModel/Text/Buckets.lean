/-
  PyodaModel.Text.Buckets — value accessors, parse buckets (`calculate_value`) and the pattern objects' `format` /
  `parse` for LocalTime (template midnight), LocalDate (ISO calendar, template 2000-01-01, two-digit-year
  maximum 30), Offset, LocalDateTime (any ISO template value; the combined bucket with the 24:00 roll-over;
  patterns with embedded date / time parts), AnnualDate (any template) and Duration, on top of the generic engine.
  `calculate_value` is modelled as the code does it after the repairs of DESIGN.md section 7 (rows 5, 16).
-/
import PyodaModel.Text.Engine
import PyodaModel.Text.Compile
import PyodaModel.Calendar.Core
import PyodaModel.Calendar.Systems
import PyodaModel.DateArith

namespace Pyoda.Text

/-! ### accessors -/

/-- `LocalTime.clock_hour_of_half_day` -/
def ltClockHour (nod : Int) : Int :=
  let h := int32Overflow (csharpMod (ltHour nod) 12)
  if h = 0 then 12 else h

def timeGetter (nod : Int) : Getter
  | .hours24 => ltHour nod
  | .hours12 => ltClockHour nod
  | .minutes => ltMinute nod
  | .seconds => ltSecond nod
  | .fraction => ltNano nod
  | _ => 0

/-- `GJEraCalculator._get_year_of_era` -/
def yearOfEra (y : Int) : Int := if y > 0 then y else 1 - y

/-- days since 1970-01-01 of a proleptic Gregorian date (civil-from-days inverse, used for the weekday only) -/
def daysFromCivil (y m d : Int) : Int :=
  let y' := if m ≤ 2 then y - 1 else y
  let era := Int.fdiv y' 400
  let yoe := y' - era * 400
  let mp := if m > 2 then m - 3 else m + 9
  let doy := Int.fdiv (153 * mp + 2) 5 + d - 1
  let doe := yoe * 365 + Int.fdiv yoe 4 - Int.fdiv yoe 100 + doy
  era * 146097 + doe - 719468

/-- `LocalDate.day_of_week` as `IsoDayOfWeek` value (Monday = 1 … Sunday = 7) -/
def isoDayOfWeek (y m d : Int) : Int := Int.fmod (daysFromCivil y m d + 3) 7 + 1

def dateGetter (y m d : Int) : Getter
  | .year => y
  | .yearOfEra => yearOfEra y
  | .yearOfEra2 => csharpMod (csharpMod (yearOfEra y) 100 + 100) 100
  | .monthNum => m
  | .dayOfMonth => d
  | .dayOfWeek => isoDayOfWeek y m d
  | .era => if y > 0 then 1 else 0
  | _ => 0

def offsetGetter (s : Int) : Getter
  | .sign => if offMillis s ≥ 0 then 0 else 1
  | .hours24 => offHours s
  | .minutes => offMinutes s
  | .seconds => offSecs s
  | _ => 0

/-! ### buckets -/

def F.allTimeExceptFraction : Nat := F.hours12 ||| F.hours24 ||| F.minutes ||| F.seconds ||| F.amPm ||| F.embeddedTime

def hasAny (used bits : Nat) : Bool := used &&& bits ≠ 0

/-- `_LocalTimeParseBucket._ctor(template)` -/
def timeBucket0 (tmpl : Int) : Bucket
  | .minutes => ltMinute tmpl
  | .seconds => ltSecond tmpl
  | .fraction => ltNano tmpl
  | _ => 0

/-- `_LocalTimeParseBucket._calculate_value` -/
def timeValue (tmpl : Int) (used : Nat) (b : Bucket) : Option Int :=
  if used &&& F.allTimeExceptFraction = (F.hours24 ||| F.minutes ||| F.seconds) then
    some (ltFromHmsn (b .hours24) (b .minutes) (b .seconds) (b .fraction))
  else
    let amPm := if b .amPm = 2 then Int.tdiv (ltHour tmpl) 12 else b .amPm
    let fin (hour : Int) : Option Int := some (ltFromHmsn hour (b .minutes) (b .seconds) (b .fraction))
    if hasAny used F.hours24 then
      if hasAll used (F.hours12 ||| F.hours24) ∧ csharpMod (b .hours12) 12 ≠ csharpMod (b .hours24) 12 then none
      else if hasAny used F.amPm ∧ Int.tdiv (b .hours24) 12 ≠ amPm then none
      else fin (b .hours24)
    else
      let flags := used &&& (F.hours12 ||| F.amPm)
      if flags = (F.hours12 ||| F.amPm) then fin (csharpMod (b .hours12) 12 + amPm * 12)
      else if flags = F.hours12 then fin (csharpMod (b .hours12) 12 + Int.tdiv (ltHour tmpl) 12 * 12)
      else if flags = F.amPm then fin (csharpMod (ltHour tmpl) 12 + amPm * 12)
      else fin (ltHour tmpl)

def offsetBucket0 : Bucket := fun _ => 0

/-- `_OffsetParseBucket.calculate_value` (repaired, see `Iso.offsetValue`) -/
def offsetBucketValue (b : Bucket) : R (Option Int) :=
  offsetValue (decide (b .sign = 1)) (b .hours24) (b .minutes) (b .seconds)

/-- template of `LocalDatePattern`: 2000-01-01 ISO, `two_digit_year_max` 30 -/
def dateBucket0 : Bucket := fun _ => 0

def TEMPLATE_YEAR : Int := 2000
def TWO_DIGIT_YEAR_MAX : Int := 30

/-- `GJEraCalculator._get_era` as an index into `CalendarSystem.iso.eras()` = [BCE, CE] -/
def isoEra (y : Int) : Int := if y > 0 then 1 else 0

/-- `__determine_year` for the ISO calendar; `ty` is the template value's year; the era slot holds the index of
    the parsed era in `eras()` (0 = BCE, 1 = CE).  For both eras the year of era runs over 1 … 9999. -/
def determineYear (ty : Int) (used : Nat) (b : Bucket) : Option Int :=
  if hasAny used F.year then
    let y := b .year
    if y > ISO_MAX_YEAR ∨ y < ISO_MIN_YEAR then none
    else if hasAny used F.era ∧ b .era ≠ isoEra y then none
    else if hasAny used F.yearOfEra then
      let yoe := yearOfEra y
      let yoe := if hasAny used F.yearTwoDigits then csharpMod yoe 100 else yoe
      if yoe ≠ b .yearOfEra then none else some y
    else some y
  else if ¬ hasAny used F.yearOfEra then
    if hasAny used F.era ∧ b .era ≠ isoEra ty then none else some ty
  else
    let era := if hasAny used F.era then b .era else isoEra ty
    let yoe := b .yearOfEra
    let yoe :=
      if hasAny used F.yearTwoDigits then
        let century := Int.tdiv (yearOfEra ty) 100
        let century := if yoe > TWO_DIGIT_YEAR_MAX ∧ century > 1 then century - 1 else century
        yoe + century * 100
      else yoe
    if yoe < 1 ∨ yoe > 9999 then none else some (if era = 1 then yoe else 1 - yoe)

/-- `__determine_month`; `tmo` is the template value's month -/
def determineMonth (tmo : Int) (used : Nat) (b : Bucket) : Option Int :=
  let p := used &&& (F.monthNum ||| F.monthText)
  let m : Option Int :=
    if p = F.monthNum then some (b .monthNum)
    else if p = F.monthText then some (b .monthText)
    else if p = (F.monthNum ||| F.monthText) then (if b .monthNum ≠ b .monthText then none else some (b .monthNum))
    else some tmo
  match m with
  | none => none
  | some m => if m > 12 then none else some m

/-- `_LocalDateParseBucket._calculate_value` for the ISO calendar with template value `ty-tmo-td`; the calendar
    field is outside the subset (a parsed calendar other than ISO is `!dom` at the step) -/
def dateValueT (ty tmo td : Int) (used : Nat) (b : Bucket) : Option (Int × Int × Int) :=
  if used = (F.year ||| F.monthNum ||| F.dayOfMonth) then isoDateValue (b .year) (b .monthNum) (b .dayOfMonth)
  else
    match determineYear ty used b with
    | none => none
    | some y =>
      match determineMonth tmo used b with
      | none => none
      | some m =>
        let d := if hasAny used F.dayOfMonth then b .dayOfMonth else td
        if d > daysInMonth y m then none
        else if hasAny used F.dayOfWeek ∧ b .dayOfWeek ≠ isoDayOfWeek y m d then none
        else some (y, m, d)

/-- LocalDate patterns of the default template 2000-01-01 -/
def dateValue (used : Nat) (b : Bucket) : Option (Int × Int × Int) := dateValueT TEMPLATE_YEAR 1 1 used b

/-! ### LocalDateTime -/

def F.allTime : Nat := F.hours12 ||| F.hours24 ||| F.minutes ||| F.seconds ||| F.fraction ||| F.amPm ||| F.embeddedTime
def F.allDate : Nat := F.year ||| F.yearTwoDigits ||| F.yearOfEra ||| F.monthNum ||| F.monthText ||| F.dayOfMonth |||
  F.dayOfWeek ||| F.era ||| F.calendar ||| F.embeddedDate

/-- accessors of a LocalDateTime (ISO calendar): date fields `y m d`, nanosecond of day `nod` -/
def dtGetter (y m d nod : Int) : Getter
  | .hours24 => ltHour nod
  | .hours12 => ltClockHour nod
  | .minutes => ltMinute nod
  | .seconds => ltSecond nod
  | .fraction => ltNano nod
  | .amPm => 0
  | .sign => 0
  | s => dateGetter y m d s

/-- `_LocalDateTimeParseBucket._ctor`: a date bucket (zeros) and a time bucket of the template time -/
def dtBucket0 (tm : Tmpl) : Bucket := timeBucket0 tm.nod

/-- `_LocalDateTimeParseBucket._combine_buckets` (repaired: the `OverflowError` of the 24:00 roll-over on the last
    day of the calendar is a failure result) -/
def dtValue (tm : Tmpl) (used : Nat) (b : Bucket) : R (Option (Int × Int × Int × Int)) :=
  let hour24 := decide (b .hours24 = 24)
  let b' := if hour24 then b.set .hours24 0 else b
  match dateValueT tm.y tm.m tm.d (used &&& F.allDate) b' with
  | none => .ok none
  | some (y, m, d) =>
    match timeValue tm.nod (used &&& F.allTime) b' with
    | none => .ok none
    | some t =>
      if hour24 then
        if t ≠ 0 then .ok none
        else match plusOneDay y m d with
          | .error .overflowError => .ok none
          | .error e => .error e
          | .ok (y', m', d') => .ok (some (y', m', d', t))
      else .ok (some (y, m, d, t))

/-! ### LocalDateTime patterns with embedded date / time patterns -/

/-- `_LocalDateParseBucket._calculate_value` with the embedded-date branch (after the ISO fast path test):
    the fields were assigned from a parsed LocalDate -/
def dateValueE (ty tmo td : Int) (used : Nat) (b : Bucket) : Option (Int × Int × Int) :=
  if used ≠ (F.year ||| F.monthNum ||| F.dayOfMonth) ∧ hasAny used F.embeddedDate then
    some (b .year, b .monthNum, b .dayOfMonth)
  else dateValueT ty tmo td used b

/-- `_LocalTimeParseBucket._calculate_value` with the embedded-time branch -/
def timeValueE (tmpl : Int) (used : Nat) (b : Bucket) : Option Int :=
  if used &&& F.allTimeExceptFraction ≠ (F.hours24 ||| F.minutes ||| F.seconds) ∧ hasAny used F.embeddedTime then
    some (ltFromHmsn (b .hours24) (b .minutes) (b .seconds) (b .fraction))
  else timeValue tmpl used b

/-- `_combine_buckets` over the buckets of a pattern with embedded parts -/
def dtValueE (tm : Tmpl) (used : Nat) (b : Bucket) : R (Option (Int × Int × Int × Int)) :=
  let hour24 := decide (b .hours24 = 24)
  let b' := if hour24 then b.set .hours24 0 else b
  match dateValueE tm.y tm.m tm.d (used &&& F.allDate) b' with
  | none => .ok none
  | some (y, m, d) =>
    match timeValueE tm.nod (used &&& F.allTime) b' with
    | none => .ok none
    | some t =>
      if hour24 then
        if t ≠ 0 then .ok none
        else match plusOneDay y m d with
          | .error .overflowError => .ok none
          | .error e => .error e
          | .ok (y', m', d') => .ok (some (y', m', d', t))
      else .ok (some (y, m, d, t))

/-- the format actions of the segments: plain steps see the whole value, an embedded pattern its date / time part
    (`value_extractor`) -/
def fmtSegs (cu : Culture) (used : Nat) (y m d nod : Int) : List Seg → Text → R Text
  | [], buf => .ok buf
  | .plain ss :: segs, buf =>
    match formatSteps cu used (dtGetter y m d nod) ss buf with
    | .error e => .error e
    | .ok buf' => fmtSegs cu used y m d nod segs buf'
  | .date c :: segs, buf =>
    match formatSteps c.cu c.used (dateGetter y m d) c.steps buf with
    | .error e => .error e
    | .ok buf' => fmtSegs cu used y m d nod segs buf'
  | .time c :: segs, buf =>
    match formatSteps c.cu c.used (timeGetter nod) c.steps buf with
    | .error e => .error e
    | .ok buf' => fmtSegs cu used y m d nod segs buf'

/-- the parse actions of the segments.  An embedded pattern runs `parse_partial` — its own steps on a bucket of its
    own (template: the outer template's date / time) and its own `calculate_value` — and on success assigns the
    outer bucket's fields from the value -/
def parseSegs (tm : Tmpl) (cu : Culture) : List Seg → Text → Bucket → R (Option (Bucket × Text))
  | [], l, b => .ok (some (b, l))
  | .plain ss :: segs, l, b =>
    match parseSteps cu ss l b with
    | .error e => .error e
    | .ok none => .ok none
    | .ok (some (b', l')) => parseSegs tm cu segs l' b'
  | .date c :: segs, l, b =>
    match parseSteps c.cu c.steps l dateBucket0 with
    | .error e => .error e
    | .ok none => .ok none
    | .ok (some (bi, l')) =>
      match dateValueT tm.y tm.m tm.d c.used bi with
      | none => .ok none
      | some (y, m, d) => parseSegs tm cu segs l' (((b.set .year y).set .monthNum m).set .dayOfMonth d)
  | .time c :: segs, l, b =>
    match parseSteps c.cu c.steps l (timeBucket0 tm.nod) with
    | .error e => .error e
    | .ok none => .ok none
    | .ok (some (bi, l')) =>
      match timeValue tm.nod c.used bi with
      | none => .ok none
      | some t =>
        parseSegs tm cu segs l' ((((b.set .hours24 (ltHour t)).set .minutes (ltMinute t)).set .seconds (ltSecond t)).set .fraction (ltNano t))

/-- `__SteppedPattern.parse` for a LocalDateTime pattern with embedded parts -/
def parseSegmented (tm : Tmpl) (cu : Culture) (used : Nat) (segs : List Seg) (l : Text) : R (Option (List Int)) :=
  if l = [] then .ok none else
  match parseSegs tm cu segs l (dtBucket0 tm) with
  | .error e => .error e
  | .ok none => .ok none
  | .ok (some (b, rest)) =>
    match dtValueE tm used b with
    | .error e => .error e
    | .ok none => .ok none
    | .ok (some v) => if rest = [] then .ok (some [v.1, v.2.1, v.2.2.1, v.2.2.2]) else .ok none

/-! ### AnnualDate -/

def annualGetter (m d : Int) : Getter
  | .monthNum => m
  | .dayOfMonth => d
  | _ => 0

/-- `_AnnualDateParseBucket.calculate_value` with template value month `tm`, day `td` (the constructor
    `AnnualDate(month, day)` validates against the year 2000; its checks are implied by the tests before it) -/
def annualValue (tm td : Int) (used : Nat) (b : Bucket) : Option (Int × Int) :=
  match determineMonth tm used b with
  | none => none
  | some m =>
    let d := if hasAny used F.dayOfMonth then b .dayOfMonth else td
    if d > daysInMonth 2000 m then none else some (m, d)

/-! ### Duration -/

def DUR_MIN_NANOS : Int := -(1073741824 * NPD)
def DUR_MAX_NANOS : Int := 1073741824 * NPD - 1

/-- `Duration.nanosecond_of_day` of the value (floor days `fd`, nanosecond of floor day `n`) -/
def durNanoOfDay (fd n : Int) : Int := if fd ≥ 0 then n else if n = 0 then 0 else n - NPD

/-- `__get_positive_nanosecond_units(duration, nanoseconds_per_unit, units_per_day)` -/
def durTotalUnits (fd n npu upd : Int) : Int :=
  if fd ≥ 0 then fd * upd + Int.tdiv n npu
  else
    let nod := durNanoOfDay fd n
    let neg := if nod = 0 then fd * upd else (fd + 1) * upd + Int.tdiv nod npu
    Int.neg neg

/-- accessors of a Duration value -/
def durationGetter (fd n : Int) : Getter
  | .sign => if fd ≥ 0 then 0 else 1
  | .dayOfMonth => if fd ≥ 0 then fd else if n = 0 then -fd else -(fd + 1)
  | .totalHours => durTotalUnits fd n NPH 24
  | .totalMinutes => durTotalUnits fd n NPMin 1440
  | .totalSeconds => durTotalUnits fd n NPS 86400
  | .hours24 => csharpMod (Int.tdiv ((durNanoOfDay fd n).natAbs : Int) NPH) 24
  | .minutes => csharpMod (Int.tdiv ((durNanoOfDay fd n).natAbs : Int) NPMin) 60
  | .seconds => csharpMod (Int.tdiv ((durNanoOfDay fd n).natAbs : Int) NPS) 60
  | .fraction => csharpMod ((durNanoOfDay fd n).natAbs : Int) NPS
  | _ => 0

/-- `Duration.from_nanoseconds` for an int -/
def durFromNanos (n : Int) : R (Int × Int) := do
  checkRange n DUR_MIN_NANOS DUR_MAX_NANOS
  if n ≥ 0 then pure (Int.fdiv n NPD, Int.fmod n NPD)
  else
    let days ← pyTdiv (n + 1) NPD
    let days := days - 1
    pure (days, n - days * NPD)

/-- `_DurationParseBucket.calculate_value`: the units were added into one number of nanoseconds (each field occurs at
    most once: days, hours, minutes, seconds, fraction), negated for a `-` sign, range-checked -/
def durationValue (b : Bucket) : R (Option (Int × Int)) :=
  let nanos := b .dayOfMonth * NPD + b .hours24 * NPH + b .minutes * NPMin + b .seconds * NPS + b .fraction
  let nanos := if b .sign = 1 then -nanos else nanos
  if nanos < DUR_MIN_NANOS ∨ nanos > DUR_MAX_NANOS then .ok none
  else match durFromNanos nanos with
    | .error e => .error e
    | .ok v => .ok (some v)

/-! ### all 19 calendars: values, buckets and `calculate_value` through the calendar descriptions `Calendar.Calc`
  (the calculators of `PyodaModel/Calendar/Systems.lean`, untouched).  Used for patterns whose template value is not in
  the ISO calendar and for patterns with the calendar field `c`; the functions above stay the ISO path. -/

open Pyoda.Calendar (Calc calcOf)

def calcOfInt (k : Int) : Option Calc := if k < 0 then none else calcOf k.toNat

/-- `calendar._get_era(year)` as era id; calendars 0 … 2 have BCE / CE -/
def eraIdOfYear (cal : Int) (y : Int) : Int := if cal ≤ 2 then (if y > 0 then 1 else 0) else eraIdOfCal cal.toNat

/-- `calendar._get_year_of_era(year)` -/
def yearOfEraC (cal : Int) (y : Int) : Int := if cal ≤ 2 then yearOfEra y else y

/-- is `e` one of `calendar.eras()`? -/
def isEraOf (cal : Int) (e : Int) : Bool := if cal ≤ 2 then (e == 0 || e == 1) else e == eraIdOfCal cal.toNat

/-- the last of `calendar.eras()` -/
def latestEra (cal : Int) : Int := if cal ≤ 2 then 1 else eraIdOfCal cal.toNat

/-- `get_min_year_of_era` / `get_max_year_of_era` / `get_absolute_year` for an era of the calendar -/
def minYoe (cal : Int) (c : Calc) : Int := if cal ≤ 2 then 1 else c.minYear
def maxYoe (cal : Int) (c : Calc) (era : Int) : Int := if cal ≤ 2 then (if era = 1 then c.maxYear else 1 - c.minYear) else c.maxYear
def absYear (cal : Int) (yoe era : Int) : Int := if cal ≤ 2 then (if era = 1 then yoe else 1 - yoe) else yoe

/-- `LocalDate.day_of_week` (Monday = 1 … Sunday = 7) from the day number -/
def dayOfWeekC (c : Calc) (y m d : Int) : Int := Calendar.dayOfWeek (c.start y + c.toMonth y m + d - 1)

/-- accessors of a LocalDate in the calendar with ordinal `cal` -/
def dateGetterC (cal : Int) (c : Calc) (y m d : Int) : Getter
  | .year => y
  | .yearOfEra => yearOfEraC cal y
  | .yearOfEra2 => csharpMod (csharpMod (yearOfEraC cal y) 100 + 100) 100
  | .monthNum => m
  | .dayOfMonth => d
  | .dayOfWeek => dayOfWeekC c y m d
  | .era => eraIdOfYear cal y
  | .calendar => cal
  | _ => 0

def dtGetterC (cal : Int) (c : Calc) (y m d nod : Int) : Getter
  | .hours24 => ltHour nod
  | .hours12 => ltClockHour nod
  | .minutes => ltMinute nod
  | .seconds => ltSecond nod
  | .fraction => ltNano nod
  | .amPm => 0
  | .sign => 0
  | s => dateGetterC cal c y m d s

/-- `__determine_year` (as repaired: a template year outside the calendar read from the text is a failure; a template
    era that the calendar read from the text does not have is replaced by the calendar's latest era) -/
def determineYearC (cal : Int) (c : Calc) (tc : TmplC) (used : Nat) (b : Bucket) : Option Int :=
  if hasAny used F.year then
    let y := b .year
    if y > c.maxYear ∨ y < c.minYear then none
    else if hasAny used F.era ∧ b .era ≠ eraIdOfYear cal y then none
    else if hasAny used F.yearOfEra then
      let yoe := yearOfEraC cal y
      let yoe := if hasAny used F.yearTwoDigits then csharpMod yoe 100 else yoe
      if yoe ≠ b .yearOfEra then none else some y
    else some y
  else if ¬ hasAny used F.yearOfEra then
    if tc.y > c.maxYear ∨ tc.y < c.minYear then none
    else if hasAny used F.era ∧ b .era ≠ eraIdOfYear cal tc.y then none else some tc.y
  else
    let tera := eraIdOfYear tc.cal tc.y
    let era := if hasAny used F.era then b .era else (if isEraOf cal tera then tera else latestEra cal)
    let yoe := b .yearOfEra
    let yoe :=
      if hasAny used F.yearTwoDigits then
        let century := Int.tdiv (yearOfEraC tc.cal tc.y) 100
        let century := if yoe > TWO_DIGIT_YEAR_MAX ∧ century > 1 then century - 1 else century
        yoe + century * 100
      else yoe
    if yoe < minYoe cal c ∨ yoe > maxYoe cal c era then none else some (absYear cal yoe era)

/-- `__determine_month` against `calendar.get_months_in_year(year)` -/
def determineMonthC (c : Calc) (tmo : Int) (used : Nat) (b : Bucket) (y : Int) : Option Int :=
  let p := used &&& (F.monthNum ||| F.monthText)
  let m : Option Int :=
    if p = F.monthNum then some (b .monthNum)
    else if p = F.monthText then some (b .monthText)
    else if p = (F.monthNum ||| F.monthText) then (if b .monthNum ≠ b .monthText then none else some (b .monthNum))
    else some tmo
  match m with
  | none => none
  | some m => if m > c.months y then none else some m

/-- `_LocalDateParseBucket._calculate_value` with the bucket's calendar `cal` / `c` and template value `tc` -/
def dateValueC (cal : Int) (c : Calc) (tc : TmplC) (used : Nat) (b : Bucket) : Option (Int × Int × Int) :=
  if used = (F.year ||| F.monthNum ||| F.dayOfMonth) ∧ cal = 0 then isoDateValue (b .year) (b .monthNum) (b .dayOfMonth)
  else
    match determineYearC cal c tc used b with
    | none => none
    | some y =>
      match determineMonthC c tc.m used b y with
      | none => none
      | some m =>
        let d := if hasAny used F.dayOfMonth then b .dayOfMonth else tc.d
        if d > c.dim y m then none
        else if hasAny used F.dayOfWeek ∧ b .dayOfWeek ≠ dayOfWeekC c y m d then none
        else some (y, m, d)

/-- the date bucket of a pattern whose template value is `tc`: the calendar slot holds the template's calendar -/
def dateBucketC (tc : TmplC) : Bucket := dateBucket0.set .calendar tc.cal

def dtBucketC (tc : TmplC) : Bucket := (timeBucket0 tc.nod).set .calendar tc.cal

/-- (y, m, d, calendar ordinal) -/
def dateValueG (tc : TmplC) (used : Nat) (b : Bucket) : R (Option (Int × Int × Int × Int)) :=
  match calcOfInt (b .calendar) with
  | none => .error .other
  | some c => .ok ((dateValueC (b .calendar) c tc used b).map fun v => (v.1, v.2.1, v.2.2, b .calendar))

/-- `LocalDate.plus_days(1)` in the calendar (`_FixedLengthDatePeriodField(1).add`, the model of property C09) -/
def plusOneDayG (cal : Int) (y m d : Int) : R (Int × Int × Int) :=
  match calcOfInt cal with
  | none => .error .other
  | some c => DateArith.addFixed c 1 (y, m, d) 1

/-- `_combine_buckets` in any calendar: (y, m, d, nanosecond of day, calendar ordinal) -/
def dtValueG (tc : TmplC) (used : Nat) (b : Bucket) : R (Option (Int × Int × Int × Int × Int)) :=
  let hour24 := decide (b .hours24 = 24)
  let b' := if hour24 then b.set .hours24 0 else b
  match dateValueG tc (used &&& F.allDate) b' with
  | .error e => .error e
  | .ok none => .ok none
  | .ok (some (y, m, d, cal)) =>
    match timeValue tc.nod (used &&& F.allTime) b' with
    | none => .ok none
    | some t =>
      if hour24 then
        if t ≠ 0 then .ok none
        else match plusOneDayG cal y m d with
          | .error .overflowError => .ok none
          | .error e => .error e
          | .ok (y', m', d') => .ok (some (y', m', d', t, cal))
      else .ok (some (y, m, d, t, cal))

/-- the embedded-date branch of `_calculate_value`: `LocalDate(year, month, day, calendar)` from the fields an embedded
    pattern assigned -/
def dateValueEG (tc : TmplC) (used : Nat) (b : Bucket) : R (Option (Int × Int × Int × Int)) :=
  if (used ≠ (F.year ||| F.monthNum ||| F.dayOfMonth) ∨ b .calendar ≠ 0) ∧ hasAny used F.embeddedDate then
    .ok (some (b .year, b .monthNum, b .dayOfMonth, b .calendar))
  else dateValueG tc used b

def dtValueEG (tc : TmplC) (used : Nat) (b : Bucket) : R (Option (Int × Int × Int × Int × Int)) :=
  let hour24 := decide (b .hours24 = 24)
  let b' := if hour24 then b.set .hours24 0 else b
  match dateValueEG tc (used &&& F.allDate) b' with
  | .error e => .error e
  | .ok none => .ok none
  | .ok (some (y, m, d, cal)) =>
    match timeValueE tc.nod (used &&& F.allTime) b' with
    | none => .ok none
    | some t =>
      if hour24 then
        if t ≠ 0 then .ok none
        else match plusOneDayG cal y m d with
          | .error .overflowError => .ok none
          | .error e => .error e
          | .ok (y', m', d') => .ok (some (y', m', d', t, cal))
      else .ok (some (y, m, d, t, cal))

/-- a value with its calendar: `[y, m, d]` / `[y, m, d, nod]` are ISO values, a fifth (fourth) entry is the ordinal -/
def showDateC (v : Int × Int × Int × Int) : List Int :=
  if v.2.2.2 = 0 then [v.1, v.2.1, v.2.2.1] else [v.1, v.2.1, v.2.2.1, v.2.2.2]

def showDtC (v : Int × Int × Int × Int × Int) : List Int :=
  if v.2.2.2.2 = 0 then [v.1, v.2.1, v.2.2.1, v.2.2.2.1] else [v.1, v.2.1, v.2.2.1, v.2.2.2.1, v.2.2.2.2]

/-- format of the segments for a value of calendar `cal` -/
def fmtSegsG (cu : Culture) (used : Nat) (cal : Int) (c : Calc) (y m d nod : Int) : List Seg → Text → R Text
  | [], buf => .ok buf
  | .plain ss :: segs, buf =>
    match formatSteps cu used (dtGetterC cal c y m d nod) ss buf with
    | .error e => .error e
    | .ok buf' => fmtSegsG cu used cal c y m d nod segs buf'
  | .date e :: segs, buf =>
    match formatSteps e.cu e.used (dateGetterC cal c y m d) e.steps buf with
    | .error e => .error e
    | .ok buf' => fmtSegsG cu used cal c y m d nod segs buf'
  | .time e :: segs, buf =>
    match formatSteps e.cu e.used (timeGetter nod) e.steps buf with
    | .error e => .error e
    | .ok buf' => fmtSegsG cu used cal c y m d nod segs buf'

/-- parse of the segments with template `tc`: an embedded date pattern has a date bucket of its own (template: the outer
    template's date, calendar included) and assigns calendar, year, month, day of its value to the outer bucket -/
def parseSegsG (tc : TmplC) (cu : Culture) : List Seg → Text → Bucket → R (Option (Bucket × Text))
  | [], l, b => .ok (some (b, l))
  | .plain ss :: segs, l, b =>
    match parseSteps cu ss l b with
    | .error e => .error e
    | .ok none => .ok none
    | .ok (some (b', l')) => parseSegsG tc cu segs l' b'
  | .date c :: segs, l, b =>
    match parseSteps c.cu c.steps l (dateBucketC tc) with
    | .error e => .error e
    | .ok none => .ok none
    | .ok (some (bi, l')) =>
      match dateValueG tc c.used bi with
      | .error e => .error e
      | .ok none => .ok none
      | .ok (some (y, m, d, cal)) =>
        parseSegsG tc cu segs l' ((((b.set .calendar cal).set .year y).set .monthNum m).set .dayOfMonth d)
  | .time c :: segs, l, b =>
    match parseSteps c.cu c.steps l (timeBucket0 tc.nod) with
    | .error e => .error e
    | .ok none => .ok none
    | .ok (some (bi, l')) =>
      match timeValue tc.nod c.used bi with
      | none => .ok none
      | some t =>
        parseSegsG tc cu segs l' ((((b.set .hours24 (ltHour t)).set .minutes (ltMinute t)).set .seconds (ltSecond t)).set .fraction (ltNano t))

def hasCalendarStep (steps : List Step) : Bool := steps.any (fun s => s == .calendar)

/-- does a pattern with embedded parts have the calendar field (as a plain step or inside an embedded date pattern)? -/
def segsUseCalendar (segs : List Seg) : Bool :=
  segs.any fun sg => match sg with
    | .plain ss => hasCalendarStep ss
    | .date c => hasCalendarStep c.steps
    | .time _ => false

def parseSegmentedG (tc : TmplC) (cu : Culture) (used : Nat) (segs : List Seg) (l : Text) : R (Option (List Int)) :=
  if l = [] then .ok none else
  match parseSegsG tc cu segs l (dtBucketC tc) with
  | .error e => .error e
  | .ok none => .ok none
  | .ok (some (b, rest)) =>
    match dtValueEG tc used b with
    | .error e => .error e
    | .ok none => .ok none
    | .ok (some v) => if rest = [] then .ok (some (showDtC v)) else .ok none

/-! ### pattern objects -/

/-- value of a modelled type in canonical fields: time `[nod]`, date `[y, m, d]`, offset `[seconds]` -/
def getterOf (ty : PType) (v : List Int) : Option Getter :=
  match ty, v with
  | .time, [nod] => some (timeGetter nod)
  | .date, [y, m, d] => some (dateGetter y m d)
  | .offset, [s] => some (offsetGetter s)
  | .datetime _, [y, m, d, nod] => some (dtGetter y m d nod)
  | .annual _ _, [m, d] => some (annualGetter m d)
  | .duration, [fd, n] => some (durationGetter fd n)
  | .dateC _, [y, m, d] => some (dateGetter y m d)
  | .datetimeC _, [y, m, d, nod] => some (dtGetter y m d nod)
  -- a value of another calendar: the ordinal follows the fields
  | .date, [y, m, d, cal] => (calcOfInt cal).map fun c => dateGetterC cal c y m d
  | .dateC _, [y, m, d, cal] => (calcOfInt cal).map fun c => dateGetterC cal c y m d
  | .datetime _, [y, m, d, nod, cal] => (calcOfInt cal).map fun c => dtGetterC cal c y m d nod
  | .datetimeC _, [y, m, d, nod, cal] => (calcOfInt cal).map fun c => dtGetterC cal c y m d nod
  | _, _ => none

def fmtCompiled (c : Compiled) (get : Getter) (buf : Text) : R Text := formatSteps c.cu c.used get c.steps buf

/-- the bucket a pattern of the type starts from -/
def bucket0 (ty : PType) : Bucket :=
  match ty with
  | .time => timeBucket0 0
  | .date => dateBucket0
  | .offset => offsetBucket0
  | .datetime tm => dtBucket0 tm
  | .annual _ _ => dateBucket0
  | .duration => offsetBucket0
  | .dateC tc => dateBucketC tc
  | .datetimeC tc => dtBucketC tc

/-- `bucket.calculate_value(used_fields, text)` in canonical fields -/
def bucketValue (ty : PType) (used : Nat) (b : Bucket) : R (Option (List Int)) :=
  match ty with
  | .time => .ok ((timeValue 0 used b).map (fun n => [n]))
  | .date => .ok ((dateValue used b).map (fun v => [v.1, v.2.1, v.2.2]))
  | .offset => mapR (fun o => o.map (fun s => [s])) (offsetBucketValue b)
  | .datetime tm => mapR (fun o => o.map (fun v => [v.1, v.2.1, v.2.2.1, v.2.2.2])) (dtValue tm used b)
  | .annual tm td => .ok ((annualValue tm td used b).map (fun v => [v.1, v.2]))
  | .duration => mapR (fun o => o.map (fun v => [v.1, v.2])) (durationValue b)
  | .dateC tc => mapR (fun o => o.map showDateC) (dateValueG tc used b)
  | .datetimeC tc => mapR (fun o => o.map showDtC) (dtValueG tc used b)

/-- the type whose bucket evaluates a compiled pattern: a LocalDate / LocalDateTime pattern of an ISO template WITH the
    calendar field `c` is evaluated by the all-calendar bucket (the calendar read from the text decides) -/
def evalType (ty : PType) (steps : List Step) : PType :=
  match ty with
  | .date => if hasCalendarStep steps then .dateC TmplC.default else .date
  | .datetime tm => if hasCalendarStep steps then .datetimeC tm.toC else .datetime tm
  | t => t

/-- `__SteppedPattern.parse`: empty text, parse actions, `calculate_value`, end of text (by position) -/
def parseCompiled (ty : PType) (c : Compiled) (l : Text) : R (Option (List Int)) :=
  if l = [] then .ok none else
  match parseSteps c.cu c.steps l (bucket0 ty) with
  | .error e => .error e
  | .ok none => .ok none
  | .ok (some (b, rest)) =>
    match bucketValue ty c.used b with
    | .error e => .error e
    | .ok none => .ok none
    | .ok (some v) => if rest = [] then .ok (some v) else .ok none

/-- a pattern object without the calendar field (plain or inside an embedded date pattern) -/
def patNoCal : Pat → Bool
  | .stepped c => !hasCalendarStep c.steps
  | .segmented _ _ segs => !segsUseCalendar segs
  | _ => true

mutual
/-- `format` of a pattern object; composites are the Offset `g`/`i` triples (long, medium, short) whose format
    predicates are: always / whole minutes / whole hours, the last that holds being used -/
def fmtPat (ty : PType) (v : List Int) (get : Getter) : Pat → R Text
  | .stepped c => fmtCompiled c get []
  | .zprefix p => if v = [0] then .ok ['Z'] else fmtPat ty v get p
  | .composite ps =>
    match v, ps with
    | [s], [a, b, c] =>
      if csharpMod s 3600 = 0 then fmtPat ty v get c
      else if csharpMod s 60 = 0 then fmtPat ty v get b
      else fmtPat ty v get a
    | _, _ => .error .runtimeError
  | .segmented cu used segs =>
    match v with
    | [y, m, d, nod] => fmtSegs cu used y m d nod segs []
    | [y, m, d, nod, cal] =>
      match calcOfInt cal with
      | some c => fmtSegsG cu used cal c y m d nod segs []
      | none => .error .runtimeError
    | _ => .error .runtimeError
end

mutual
/-- `parse` of a pattern object -/
def parsePat (ty : PType) (l : Text) : Pat → R (Option (List Int))
  | .stepped c => parseCompiled (evalType ty c.steps) c l
  | .zprefix p => if l = ['Z'] then .ok (some [0]) else parsePat ty l p
  | .composite ps => if l = [] then .ok none else parsePats ty l ps
  | .segmented cu used segs =>
    match ty with
    | .datetime tm => if segsUseCalendar segs then parseSegmentedG tm.toC cu used segs l else parseSegmented tm cu used segs l
    | .datetimeC tc => parseSegmentedG tc cu used segs l
    | _ => .error .runtimeError
/-- composite: the first pattern that succeeds; every failure on a non-empty text continues -/
def parsePats (ty : PType) (l : Text) : List Pat → R (Option (List Int))
  | [] => .ok none
  | p :: ps =>
    match parsePat ty l p with
    | .error e => .error e
    | .ok (some v) => .ok (some v)
    | .ok none => parsePats ty l ps
end

end Pyoda.Text
