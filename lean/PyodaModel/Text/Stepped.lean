/-
  PyodaModel.Text.Stepped — the step language of `_SteppedPatternBuilder` and pattern compilation.

  `compileCustom` mirrors `_SteppedPatternBuilder._parse_custom_pattern` with the per-type character handler
  tables of `_local_time_pattern_parser.py`, `_local_date_pattern_parser.py`, `_offset_pattern_parser.py`,
  followed by `_validate_used_fields` (time and date patterns) ; `compileTime / compileDate / compileOffset`
  mirror the `parse_pattern` methods (empty text, standard single-letter patterns, `Z` prefix, composites).
  A compiled pattern is a list of `Step`s (one per format/parse action pair) plus the used-field set.

  Every failure is `InvalidPatternError` (`.invalidPattern`).  The sample formatting done by
  `__SteppedPattern.__init__` (expected length) is not modelled: it can only fail for templates outside the
  tables (19-month calendars with text months), which is outside the modelled subset.
-/
import PyodaModel.Text.PatternCursor

namespace Pyoda.Text

/-! ### `_PatternFields` -/
namespace F
def sign : Nat := 1
def hours12 : Nat := 2
def hours24 : Nat := 4
def minutes : Nat := 8
def seconds : Nat := 16
def fraction : Nat := 32
def amPm : Nat := 64
def year : Nat := 128
def yearTwoDigits : Nat := 256
def yearOfEra : Nat := 512
def monthNum : Nat := 1024
def monthText : Nat := 2048
def dayOfMonth : Nat := 4096
def dayOfWeek : Nat := 8192
def era : Nat := 16384
def calendar : Nat := 32768
def totalDuration : Nat := 524288
def embeddedDate : Nat := 1048576
def embeddedTime : Nat := 2097152
end F

/-- which value accessor a numeric step formats / which bucket slot it sets -/
inductive Slot where
  | hours12 | hours24 | minutes | seconds | fraction | amPm | sign
  | year | yearOfEra | yearOfEra2 | monthNum | monthText | dayOfMonth | dayOfWeek
  | era
  /-- Duration: total hours / minutes / seconds (getters only; the bucket adds them into hours24 / minutes / seconds) -/
  | totalHours | totalMinutes | totalSeconds
  /-- the calendar of the value (accessor) / of the parse bucket (`_LocalDateParseBucket._calendar`), as ordinal -/
  | calendar
  deriving DecidableEq, Repr

/-- one format-action / parse-action pair -/
inductive Step where
  /-- `_add_literal` (character or text; both are `cursor._match`) -/
  | lit (s : Text)
  /-- padded numeric field: `_add_parse_value_action(count, maxCount, _, minV, maxV, setter)` +
      `add_format_left_pad(count, getter, minV ≥ 0, count = maxCount)`; `get` is the accessor formatted,
      `set` the bucket slot assigned -/
  | num (get set : Slot) (count maxCount : Nat) (minV maxV : Int)
  /-- `f…` (fixed) / `F…` (truncating) fraction of `scale` digits -/
  | frac (count scale : Nat) (fixed : Bool)
  /-- `.F…` (period handler) / `;F…` (comma-dot handler, also accepts `,`) -/
  | dotFrac (count scale : Nat) (comma : Bool)
  /-- `;` not followed by `F`: writes `.`, reads `.` or `,` -/
  | semi
  | signRequired
  | signNegativeOnly
  /-- `t` / `tt` with the culture's designators -/
  | amPm (count : Nat)
  /-- `MMM` / `MMMM` -/
  | monthText (count : Nat)
  /-- `ddd` / `dddd` -/
  | dayText (count : Nat)
  /-- `g` / `gg` -/
  | era
  /-- `c` -/
  | calendar
  /-- `g` / `gg` in a pattern whose template value is in the single-era calendar of ordinal `cal` (3 … 18): the parse
      action tries the names of that calendar's only era (`_parse_era` iterates `self._calendar.eras()`; the bucket's
      calendar is the template's, since a pattern cannot have both `g` and `c`) -/
  | eraC (cal : Nat)
  deriving DecidableEq, Repr

/-- the part of `_PyodaFormatInfo` the text engine reads -/
structure Culture where
  timeSep : Text
  dateSep : Text
  am : Text
  pm : Text
  longMonths : List Text
  shortMonths : List Text
  longMonthsGen : List Text
  shortMonthsGen : List Text
  longDays : List Text
  shortDays : List Text
  shortDate : Text
  longDate : Text
  monthDay : Text
  shortTime : Text
  longTime : Text
  offLong : Text
  offMedium : Text
  offShort : Text
  offLongNP : Text
  offMediumNP : Text
  offShortNP : Text
  /-- `date_time_format.full_date_time_pattern` (LocalDateTime standard pattern `F`) -/
  fullDateTime : Text := []
  /-- `get_era_names(era)` for the ISO calendar's eras BCE, CE (longest first) and `get_era_primary_name` -/
  eraNamesBCE : List Text := []
  eraNamesCE : List Text := []
  eraPrimaryBCE : Text := []
  eraPrimaryCE : Text := []
  /-- the same for the eras of the other calendars, in the order anno martyrum (Coptic), anno mundi (Hebrew), anno
      persico, anno hegirae, Bahá'í (era ids 2 … 6; 0 = BCE, 1 = CE) -/
  eraNamesX : List (List Text) := []
  eraPrimaryX : List Text := []
  /-- the case-folding table of the run for non-ASCII characters: `(c, str.lower(c))` for the characters of the culture's
      names and of the text at hand whose lower-case form is ONE character (ASCII is folded by `asciiLower`) -/
  fold : List (Char × Char) := []
  deriving Repr

/-- template value of a LocalDateTime pattern (ISO calendar): date fields and nanosecond of day -/
structure Tmpl where
  y : Int
  m : Int
  d : Int
  nod : Int
  deriving DecidableEq, Repr

/-- `LocalDateTimePattern._DEFAULT_TEMPLATE_VALUE` = 2000-01-01T00:00 -/
def Tmpl.default : Tmpl := ⟨2000, 1, 1, 0⟩

/-- template value in any calendar (ordinal `cal`): date fields and nanosecond of day (unused by LocalDate patterns) -/
structure TmplC where
  cal : Nat
  y : Int
  m : Int
  d : Int
  nod : Int
  deriving DecidableEq, Repr

def Tmpl.toC (tm : Tmpl) : TmplC := ⟨0, tm.y, tm.m, tm.d, tm.nod⟩

inductive PType where
  | time | date | offset
  /-- LocalDateTime pattern whose template value is `tm` (ISO calendar) -/
  | datetime (tm : Tmpl)
  /-- AnnualDate pattern whose template value is month `tm`, day `td` -/
  | annual (tm td : Int)
  | duration
  /-- LocalDate pattern whose template value is `tc` (any calendar; `.date` = 2000-01-01 ISO) -/
  | dateC (tc : TmplC)
  /-- LocalDateTime pattern whose template value is `tc` (any calendar) -/
  | datetimeC (tc : TmplC)
  deriving DecidableEq, Repr

/-- builder state: used fields and the steps so far (in order) -/
structure CSt where
  used : Nat
  steps : List Step
  deriving Repr

/-- `_add_field`: `REPEATED_FIELD_IN_PATTERN` when the field is already used -/
def addField (st : CSt) (bit : Nat) : R CSt :=
  if st.used ||| bit = st.used then .error .invalidPattern else .ok { st with used := st.used ||| bit }

def addStep (st : CSt) (s : Step) : CSt := { st with steps := st.steps ++ [s] }

def isAsciiLetter (c : Char) : Bool :=
  (decide (65 ≤ c.toNat) && decide (c.toNat ≤ 90)) || (decide (97 ≤ c.toNat) && decide (c.toNat ≤ 122))

/-- `_handle_padded_field(max_count, field, min, max, getter, setter)` -/
def handlePadded (c : Char) (rest : Text) (st : CSt) (maxCount bit : Nat) (minV maxV : Int) (slot : Slot) :
    R (CSt × Nat) :=
  match repeatCount c rest maxCount with
  | .error e => .error e
  | .ok n =>
    match addField st bit with
    | .error e => .error e
    | .ok st => .ok (addStep st (.num slot slot n maxCount minV maxV), n - 1)

/-- `_TimePatternHelper._create_period_handler(9, …)` / `_create_comma_dot_handler(9, …)` -/
def handleDot (comma : Bool) (rest : Text) (st : CSt) : R (CSt × Nat) :=
  match rest with
  | 'F' :: r =>
    match repeatCount 'F' r 9 with
    | .error e => .error e
    | .ok n =>
      match addField st F.fraction with
      | .error e => .error e
      | .ok st => .ok (addStep st (.dotFrac n 9 comma), n)
  | _ => .ok (addStep st (if comma then .semi else .lit ['.']), 0)

/-- `_TimePatternHelper._create_fraction_handler(9, …)` for `f` and `F` -/
def handleFraction (c : Char) (rest : Text) (st : CSt) : R (CSt × Nat) :=
  match repeatCount c rest 9 with
  | .error e => .error e
  | .ok n =>
    match addField st F.fraction with
    | .error e => .error e
    | .ok st => .ok (addStep st (.frac n 9 (c = 'f')), n - 1)

/-- `_handle_quote` -/
def handleQuote (c : Char) (rest : Text) (st : CSt) : R (CSt × Nat) :=
  match quotedString c rest with
  | .error e => .error e
  | .ok (s, k) => .ok (addStep st (.lit s), k)

/-- `_handle_backslash` -/
def handleBackslash (rest : Text) (st : CSt) : R (CSt × Nat) :=
  match rest with
  | [] => .error .invalidPattern
  | d :: _ => .ok (addStep st (.lit [d]), 1)

/-- `_handle_percent` -/
def handlePercent (rest : Text) (st : CSt) : R (CSt × Nat) :=
  match rest with
  | [] => .error .invalidPattern                            -- PERCENT_AT_END_OF_STRING
  | d :: _ => if d = '%' then .error .invalidPattern else .ok (st, 0)   -- PERCENT_DOUBLED

/-- a character without handler: letters and `<`, `>` are errors, anything else is a literal -/
def handleDefault (c : Char) (st : CSt) : R (CSt × Nat) :=
  if isAsciiLetter c ∨ c = '<' ∨ c = '>' then .error .invalidPattern
  else .ok (addStep st (.lit [c]), 0)

/-- the handlers common to the three tables; `none` = not a common character -/
def handleCommon (c : Char) (rest : Text) (st : CSt) : Option (R (CSt × Nat)) :=
  if c = '%' then some (handlePercent rest st)
  else if c = '\'' ∨ c = '"' then some (handleQuote c rest st)
  else if c = '\\' then some (handleBackslash rest st)
  else none

/-- a handler of the shape `count = get_repeat_count(max); _add_field(bit); add one step` -/
def handleCounted (c : Char) (rest : Text) (st : CSt) (maxCount bit : Nat) (mk : Nat → Step) : R (CSt × Nat) :=
  match repeatCount c rest maxCount with
  | .error e => .error e
  | .ok n =>
    match addField st bit with
    | .error e => .error e
    | .ok st => .ok (addStep st (mk n), n - 1)

/-- a handler of the shape `_add_field(bit); add one step` (no repeat count) -/
def handleSingle (st : CSt) (bit : Nat) (step : Step) : R (CSt × Nat) :=
  match addField st bit with
  | .error e => .error e
  | .ok st => .ok (addStep st step, 0)

/-- `_LocalTimePatternParser.__pattern_character_handlers` -/
def handleTime (cu : Culture) (c : Char) (rest : Text) (st : CSt) : R (CSt × Nat) :=
  match handleCommon c rest st with
  | some r => r
  | none =>
    if c = '.' then handleDot false rest st
    else if c = ';' then handleDot true rest st
    else if c = ':' then .ok (addStep st (.lit cu.timeSep), 0)
    else if c = 'h' then handlePadded c rest st 2 F.hours12 1 12 .hours12
    else if c = 'H' then handlePadded c rest st 2 F.hours24 0 23 .hours24
    else if c = 'm' then handlePadded c rest st 2 F.minutes 0 59 .minutes
    else if c = 's' then handlePadded c rest st 2 F.seconds 0 59 .seconds
    else if c = 'f' ∨ c = 'F' then handleFraction c rest st
    else if c = 't' then handleCounted c rest st 2 F.amPm .amPm
    else handleDefault c st

/-- `_DatePatternHelper._create_year_of_era_handler` -/
def handleYearOfEra (c : Char) (rest : Text) (st : CSt) : R (CSt × Nat) :=
  match repeatCount c rest 4 with
  | .error e => .error e
  | .ok n =>
    match addField st F.yearOfEra with
    | .error e => .error e
    | .ok st =>
      if n = 2 then
        match addField (addStep st (.num .yearOfEra2 .yearOfEra 2 2 0 99)) F.yearTwoDigits with
        | .error e => .error e
        | .ok st => .ok (st, n - 1)
      else if n = 4 then .ok (addStep st (.num .yearOfEra .yearOfEra 4 4 1 9999), n - 1)
      else .error .invalidPattern                           -- INVALID_REPEAT_COUNT

/-- `_create_month_of_year_handler` / `_create_day_handler`: numeric for 1–2, text for 3–4 -/
def handleMonthOrDay (month : Bool) (c : Char) (rest : Text) (st : CSt) : R (CSt × Nat) :=
  match repeatCount c rest 4 with
  | .error e => .error e
  | .ok n =>
    let numeric := decide (n ≤ 2)
    let step : Step :=
      if numeric then (if month then .num .monthNum .monthNum n 2 1 99 else .num .dayOfMonth .dayOfMonth n 2 1 99)
      else (if month then .monthText n else .dayText n)
    let bit := if numeric then (if month then F.monthNum else F.dayOfMonth) else (if month then F.monthText else F.dayOfWeek)
    match addField (addStep st step) bit with
    | .error e => .error e
    | .ok st => .ok (st, n - 1)

/-- `_LocalDatePatternParser.__character_handlers` (with the repaired `"` entry) -/
def handleDate (cu : Culture) (c : Char) (rest : Text) (st : CSt) : R (CSt × Nat) :=
  match handleCommon c rest st with
  | some r => r
  | none =>
    if c = '/' then .ok (addStep st (.lit cu.dateSep), 0)
    else if c = 'y' then handleYearOfEra c rest st
    else if c = 'u' then handlePadded c rest st 4 F.year (-9999) 9999 .year
    else if c = 'M' then handleMonthOrDay true c rest st
    else if c = 'd' then handleMonthOrDay false c rest st
    else if c = 'c' then handleSingle st F.calendar .calendar
    else if c = 'g' then handleCounted c rest st 2 F.era (fun _ => .era)
    else handleDefault c st

/-- `_OffsetPatternParser.__PATTERN_CHARACTER_HANDLERS` -/
def handleOffset (cu : Culture) (c : Char) (rest : Text) (st : CSt) : R (CSt × Nat) :=
  match handleCommon c rest st with
  | some r => r
  | none =>
    if c = ':' then .ok (addStep st (.lit cu.timeSep), 0)
    else if c = 'h' then .error .invalidPattern             -- HOUR12_PATTERN_NOT_SUPPORTED
    else if c = 'H' then handlePadded c rest st 2 F.hours24 0 23 .hours24
    else if c = 'm' then handlePadded c rest st 2 F.minutes 0 59 .minutes
    else if c = 's' then handlePadded c rest st 2 F.seconds 0 59 .seconds
    else if c = '+' then handleSingle st F.sign .signRequired
    else if c = '-' then handleSingle st F.sign .signNegativeOnly
    else if c = 'Z' then .error .invalidPattern             -- ZPREFIX_NOT_AT_START_OF_PATTERN
    else handleDefault c st

/-- `_LocalDateTimePatternParser.__pattern_character_handlers`: the date and the time tables together, `H` admits
    24, `T` is a literal.  This plain builder stops with the `!dom` marker at the letter `l` (embedded `ld<…>` /
    `lt<…>` patterns); `Compile.compileDTText` then runs the builder with embedded patterns (`compileSegmented`) -/
def handleDateTime (cu : Culture) (c : Char) (rest : Text) (st : CSt) : R (CSt × Nat) :=
  match handleCommon c rest st with
  | some r => r
  | none =>
    if c = '/' then .ok (addStep st (.lit cu.dateSep), 0)
    else if c = 'T' then .ok (addStep st (.lit ['T']), 0)
    else if c = 'y' then handleYearOfEra c rest st
    else if c = 'u' then handlePadded c rest st 4 F.year (-9999) 9999 .year
    else if c = 'M' then handleMonthOrDay true c rest st
    else if c = 'd' then handleMonthOrDay false c rest st
    else if c = '.' then handleDot false rest st
    else if c = ';' then handleDot true rest st
    else if c = ':' then .ok (addStep st (.lit cu.timeSep), 0)
    else if c = 'h' then handlePadded c rest st 2 F.hours12 1 12 .hours12
    else if c = 'H' then handlePadded c rest st 2 F.hours24 0 24 .hours24
    else if c = 'm' then handlePadded c rest st 2 F.minutes 0 59 .minutes
    else if c = 's' then handlePadded c rest st 2 F.seconds 0 59 .seconds
    else if c = 'f' ∨ c = 'F' then handleFraction c rest st
    else if c = 't' then handleCounted c rest st 2 F.amPm .amPm
    else if c = 'c' then handleSingle st F.calendar .calendar
    else if c = 'g' then handleCounted c rest st 2 F.era (fun _ => .era)
    else if c = 'l' then .error .decimalDomain
    else handleDefault c st

/-- `_annual_date_pattern_parser._handle_day_of_month`: `d` / `dd` only -/
def handleAnnualDay (c : Char) (rest : Text) (st : CSt) : R (CSt × Nat) :=
  match repeatCount c rest 2 with
  | .error e => .error e
  | .ok n =>
    match addField (addStep st (.num .dayOfMonth .dayOfMonth n 2 1 99)) F.dayOfMonth with
    | .error e => .error e
    | .ok st => .ok (st, n - 1)

/-- `_AnnualDatePatternParser.__PATTERN_CHARACTER_HANDLERS` -/
def handleAnnual (cu : Culture) (c : Char) (rest : Text) (st : CSt) : R (CSt × Nat) :=
  match handleCommon c rest st with
  | some r => r
  | none =>
    if c = '/' then .ok (addStep st (.lit cu.dateSep), 0)
    else if c = 'M' then handleMonthOrDay true c rest st
    else if c = 'd' then handleAnnualDay c rest st
    else handleDefault c st

/-- `_DurationPatternParser._create_total_handler` / `_create_day_handler`: at most one total (capital) field -/
def handleTotal (c : Char) (rest : Text) (st : CSt) (maxCount bit : Nat) (maxV : Int) (getS setS : Slot) : R (CSt × Nat) :=
  match repeatCount c rest maxCount with
  | .error e => .error e
  | .ok n =>
    if st.used &&& F.totalDuration ≠ 0 then .error .invalidPattern      -- MULTIPLE_CAPITAL_DURATION_FIELDS
    else
      match addField st bit with
      | .error e => .error e
      | .ok st =>
        match addField st F.totalDuration with
        | .error e => .error e
        | .ok st => .ok (addStep st (.num getS setS n maxCount 0 maxV), n - 1)

/-- `_DurationPatternParser.__PATTERN_CHARACTER_HANDLERS` -/
def handleDuration (cu : Culture) (c : Char) (rest : Text) (st : CSt) : R (CSt × Nat) :=
  match handleCommon c rest st with
  | some r => r
  | none =>
    if c = '.' then handleDot false rest st
    else if c = ':' then .ok (addStep st (.lit cu.timeSep), 0)
    else if c = 'D' then handleTotal c rest st 10 F.dayOfMonth 1073741824 .dayOfMonth .dayOfMonth
    else if c = 'H' then handleTotal c rest st 14 F.hours24 25769803776 .totalHours .hours24
    else if c = 'h' then handlePadded c rest st 2 F.hours24 0 23 .hours24
    else if c = 'M' then handleTotal c rest st 14 F.minutes 1546188226560 .totalMinutes .minutes
    else if c = 'm' then handlePadded c rest st 2 F.minutes 0 59 .minutes
    else if c = 'S' then handleTotal c rest st 14 F.seconds 92771293593600 .totalSeconds .seconds
    else if c = 's' then handlePadded c rest st 2 F.seconds 0 59 .seconds
    else if c = 'f' ∨ c = 'F' then handleFraction c rest st
    else if c = '+' then handleSingle st F.sign .signRequired
    else if c = '-' then handleSingle st F.sign .signNegativeOnly
    else handleDefault c st

def handleChar (ty : PType) (cu : Culture) (c : Char) (rest : Text) (st : CSt) : R (CSt × Nat) :=
  match ty with
  | .time => handleTime cu c rest st
  | .date => handleDate cu c rest st
  | .offset => handleOffset cu c rest st
  | .datetime _ => handleDateTime cu c rest st
  | .annual _ _ => handleAnnual cu c rest st
  | .duration => handleDuration cu c rest st
  | .dateC _ => handleDate cu c rest st
  | .datetimeC _ => handleDateTime cu c rest st

/-- `_parse_custom_pattern`: `while cursor.move_next(): handler(cursor, builder)`.  A handler that consumed `k`
    further characters leaves the cursor on the last of them, so the loop continues after `rest.drop k`.
    `fuel` bounds the iterations; `text.length` suffices because every iteration consumes at least one character
    (`C08.compileLoop_fuel`); running out of fuel is reported as `.other` and proved unreachable. -/
def compileLoop (ty : PType) (cu : Culture) : Nat → Text → CSt → R CSt
  | _, [], st => .ok st
  | 0, _ :: _, _ => .error .other
  | f + 1, c :: rest, st =>
    match handleChar ty cu c rest st with
    | .error e => .error e
    | .ok (st', k) => compileLoop ty cu f (rest.drop k) st'

def hasAll (used bits : Nat) : Bool := used &&& bits = bits

/-- `_validate_used_fields` -/
def validateUsed (used : Nat) : R Unit :=
  if used &&& (F.era ||| F.yearOfEra) = F.era then .error .invalidPattern          -- ERA_WITHOUT_YEAR_OF_ERA
  else if hasAll used (F.era ||| F.calendar) then .error .invalidPattern           -- CALENDAR_AND_ERA
  else .ok ()

/-- a compiled stepped pattern: the culture its steps are interpreted in, used fields, steps -/
structure Compiled where
  cu : Culture
  used : Nat
  steps : List Step
  deriving Repr

/-- `parse_no_standard_expansion` (time, date) / the builder part of `__parse_partial_pattern` (offset) -/
def compileCustom (ty : PType) (cu : Culture) (text : Text) : R Compiled :=
  match compileLoop ty cu text.length text ⟨0, []⟩ with
  | .error e => .error e
  | .ok st =>
    match (if ty = .offset ∨ ty = .duration then .ok () else validateUsed st.used) with
    | .error e => .error e
    | .ok _ => .ok ⟨cu, st.used, st.steps⟩

end Pyoda.Text
