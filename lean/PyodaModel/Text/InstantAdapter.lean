/-
  PyodaModel.Text.InstantAdapter — `_InstantPatternParser.__LocalDateTimePatternAdapter`: an Instant pattern is a
  LocalDateTime pattern over the UTC date-time of the instant.
    format(instant) = pattern.format(instant.in_utc().local_date_time)    (StartOfTime / EndOfTime for the two invalid
                                                                            sentinel instants)
    parse(text)     = pattern.parse(text).convert(ldt ↦ Instant._ctor(days = ldt.date._days_since_epoch,
                                                                        nano_of_day = ldt.nanosecond_of_day))
  `in_utc()` builds the ISO date with `LocalDate._ctor(days_since_epoch=…)` (the calendar-less constructor with its
  1900–2100 tables: `Calendar.Greg.ymdOfDaysFast`); `_days_since_epoch` of the parsed date is the calculator's
  `_get_days_since_epoch` of the date's calendar (`Greg.daysOfYmdFast` for ISO / Gregorian).  Both come from the calendar
  model of properties C01 / C02.

  Ops:  inst.fmt <patternHex> <culture> <days> <nanoOfDay>          → textHex | !<err>
        inst.parse <patternHex> <culture> <textHex> [<fold>]        → ok <days> <nanoOfDay> | fail | !dom | !<err>
        inst.extents                                                → 1 when every calendar lies inside the Instant range
-/
import PyodaModel.Text.PatHandle
import PyodaModel.Calendar

namespace Pyoda.Text
open Pyoda.Calendar (Calc calcOf)

def INST_MIN_DAYS : Int := -4371222
def INST_MAX_DAYS : Int := 2932896

/-- `instant.in_utc().local_date_time` as fields (ISO calendar) -/
def instantFields (days nod : Int) : R (Int × Int × Int × Int) :=
  match Calendar.Greg.ymdOfDaysFast days with
  | .error e => .error e
  | .ok r =>
    let w := Calendar.viaPacked 0 r
    .ok (w.1, w.2.1, w.2.2, nod)

/-- `local_date._days_since_epoch` for a date of the calendar with ordinal `cal` -/
def daysOfDate (cal : Int) (y m d : Int) : R Int :=
  match calcOfInt cal with
  | none => .error .other
  | some c => if cal ≤ 1 then Calendar.Greg.daysOfYmdFast y m d else Calendar.daysOfYmdRaw c y m d

/-- `Instant._ctor(days=value.date._days_since_epoch, nano_of_day=value.nanosecond_of_day)` on a date-time result
    (`[y, m, d, nod]` = ISO, a fifth entry = the calendar's ordinal) -/
def instantOfFields (v : List Int) : R (Int × Int) :=
  match v with
  | [y, m, d, nod] =>
    match daysOfDate 0 y m d with
    | .ok days => .ok (days, nod)
    | .error e => .error e
  | [y, m, d, nod, cal] =>
    match daysOfDate cal y m d with
    | .ok days => .ok (days, nod)
    | .error e => .error e
  | _ => .error .runtimeError

def startOfTime : Text := "StartOfTime".toList
def endOfTime : Text := "EndOfTime".toList

/-- the adapter's `format` -/
def fmtInstant (p : Pat) (days nod : Int) : R Text :=
  if INST_MIN_DAYS ≤ days ∧ days ≤ INST_MAX_DAYS then
    match instantFields days nod with
    | .error e => .error e
    | .ok (y, m, d, n) => fmtPat (.datetime Tmpl.default) [y, m, d, n] (dtGetter y m d n) p
  else if days < INST_MIN_DAYS then .ok startOfTime else .ok endOfTime

/-- the adapter's `parse` -/
def parseInstant (p : Pat) (l : Text) : R (Option (Int × Int)) :=
  match parsePat (.datetime Tmpl.default) l p with
  | .error e => .error e
  | .ok none => .ok none
  | .ok (some v) =>
    match instantOfFields v with
    | .error e => .error e
    | .ok r => .ok (some r)

def opInstParse (p cu t fold : String) : Option String := do
  let p ← decodeText' p; let cu ← decodeCulture cu; let t ← decodeText' t
  let fold ← decodeText' fold
  let cu := withFold cu fold
  some (match compileInstant Tmpl.default cu p with
    | .error e => "!" ++ e.name
    | .ok pat =>
      if patHasText pat && !(coveredBy cu.fold t && patAscii cu.fold pat) then "!dom"
      else match parseInstant pat t with
        | .error e => "!" ++ e.name
        | .ok none => "fail"
        | .ok (some v) => s!"ok {v.1} {v.2}")

/-- every calendar lies inside the Instant range (hypothesis `CalExtents` of `C08.parseInstant_spec`) -/
def calExtentsOK : Bool :=
  (List.range 19).all fun k =>
    match calcOf k with
    | some c => decide (INST_MIN_DAYS ≤ c.start c.minYear) && decide (c.start (c.maxYear + 1) - 1 ≤ INST_MAX_DAYS)
    | none => false

def handleInstant (toks : List String) : Option String :=
  match toks with
  | ["inst.extents"] => some (showBool calExtentsOK)
  | ["inst.fmt", p, cu, days, nod] => do
      let p ← decodeText' p; let cu ← decodeCulture cu
      let days ← parseInt? days; let nod ← parseInt? nod
      some (match compileInstant Tmpl.default cu p with
        | .error e => "!" ++ e.name
        | .ok pat =>
          match fmtInstant pat days nod with
          | .error e => "!" ++ e.name
          | .ok t => encodeText' t)
  | ["inst.parse", p, cu, t] => opInstParse p cu t "-"
  | ["inst.parse", p, cu, t, fold] => opInstParse p cu t fold
  | _ => none

end Pyoda.Text
