/-
  PyodaModel.Text.PatHandle — line-protocol ops of the generic pattern model.
    pcur.quoted <closeCode> <restHex>      → ok <stringHex> <consumed> | !invalidPattern
    pcur.repeat <charCode> <restHex> <max> → ok <count> | !invalidPattern
    pcur.embedded <restHex>                → ok <patternHex> <consumed> | !invalidPattern
    pat.compile <time|date|offset> <patternHex> <culture> → ok <shape> | !invalidPattern
    pat.fmt <type> <patternHex> <culture> <value fields…>  → textHex | !dom | !<err>
    pat.parse <type> <patternHex> <culture> <textHex>       → ok fields… | fail | !dom | !<err>
    pat.delim <type> <patternHex> <culture> → 1 | 0 (the theorem's `Delimited` criterion on the compiled steps) | 3 | 2
       (`DelimitedSegs` holds / fails for a pattern with embedded parts) | - (neither)
    pat.wf <type> <patternHex> <culture> → 1 | 0 (`dtStepWF` on all steps and `fieldsSound`) | 2 | 0 (`segWF` of a pattern with
       embedded parts) | - (neither; or the culture fails `monthHeadsEmpty`)
    cu.names <culture> → <9 bits: monthNamesOK 3g 3p 4g 4p, dayNamesOK 3 4, amPmOK 1 2, eraOK> <hex of the U+001F-joined
       danger character lists: months 3g 3p 4g 4p, days 3 4, am/pm, era>   (`NamesOK` conditions of the text-step theorems)
    cu.check <culture> → <offsetTextsCustom> <dtTextsNoL> <monthHeadsEmpty>   (culture hypotheses of the theorems)
    pat.calids → hex of the U+001F-joined calendar ids
       type: time | date | offset | datetime | datetime:<y>,<m>,<d>,<nod> (template value) | dateC:<cal>,<y>,<m>,<d> |
             datetimeC:<cal>,<y>,<m>,<d>,<nod> (template value in the calendar with that ordinal); a date / date-time
             VALUE of another calendar carries the ordinal as an extra last field (`y m d cal`, `y m d nod cal`)
    pat.calords → hex of the U+001F-joined calendar ids in ordinal order
       shape: S<used>/<number of steps>  |  Z(<shape>)  |  C(<shape>,<shape>,…)   (an embedded pattern counts as one step)
    culture: `inv` or `c:` + hex of the U+001F-joined fields of `Culture` (lists comma-free: each list entry is
       its own field; 4+4+14*4+8*2+11 … see `decodeCulture`)
-/
import PyodaModel.Text.Compile
import PyodaModel.Text.Buckets
import PyodaModel.Text.Delimited
import PyodaModel.Text.WellFormed

namespace Pyoda.Text

def decodeText' (h : String) : Option Text := do
  let bs ← parseHex? h
  let s ← String.fromUTF8? (ByteArray.mk (bs.map UInt8.ofNat).toArray)
  pure s.toList

def encodeText' (t : Text) : String :=
  showHex ((String.ofList t).toUTF8.toList.map (·.toNat))

def splitOnChar (sep : Char) : Text → Text → List Text → List Text
  | [], cur, acc => (cur.reverse :: acc).reverse
  | c :: l, cur, acc => if c = sep then splitOnChar sep l [] (cur.reverse :: acc) else splitOnChar sep l (c :: cur) acc

/-- field order: timeSep dateSep am pm | 14 longMonths | 14 shortMonths | 14 longMonthsGen | 14 shortMonthsGen |
    8 longDays | 8 shortDays | shortDate longDate monthDay shortTime longTime | 6 offset pattern texts |
    fullDateTime | primary BCE, CE era names | all BCE, CE era names (each list U+001E-joined) | primary names of the
    eras anno martyrum, anno mundi, anno persico, anno hegirae, Bahá'í | all names of those five  (102 fields) -/
def decodeCulture (s : String) : Option Culture :=
  if s = "inv" then some invariantCulture
  else if s.startsWith "c:" then do
    let t ← decodeText' (String.ofList (s.toList.drop 2))
    let fs := splitOnChar (Char.ofNat 31) t [] []
    if fs.length ≠ 102 then none else
    let g (i : Nat) : Text := fs.getD i []
    let sl (a n : Nat) : List Text := (fs.drop a).take n
    let names (i : Nat) : List Text := if g i = [] then [] else splitOnChar (Char.ofNat 30) (g i) [] []
    some { timeSep := g 0, dateSep := g 1, am := g 2, pm := g 3,
           longMonths := sl 4 14, shortMonths := sl 18 14, longMonthsGen := sl 32 14, shortMonthsGen := sl 46 14,
           longDays := sl 60 8, shortDays := sl 68 8,
           shortDate := g 76, longDate := g 77, monthDay := g 78, shortTime := g 79, longTime := g 80,
           offLong := g 81, offMedium := g 82, offShort := g 83, offLongNP := g 84, offMediumNP := g 85, offShortNP := g 86,
           fullDateTime := g 87, eraPrimaryBCE := g 88, eraPrimaryCE := g 89, eraNamesBCE := names 90, eraNamesCE := names 91,
           eraPrimaryX := [g 92, g 93, g 94, g 95, g 96], eraNamesX := [names 97, names 98, names 99, names 100, names 101] }
  else none

/-- `time` | `date` | `offset` | `datetime` (default template) | `datetime:<y>,<m>,<d>,<nod>` | `annual` |
    `annual:<m>,<d>` | `duration` | `instant` (values as UTC date-time fields) -/
def decodeType (s : String) : Option PType :=
  if s = "time" then some .time else if s = "date" then some .date else if s = "offset" then some .offset
  else if s = "datetime" then some (.datetime Tmpl.default)
  else if s.startsWith "datetime:" then
    match ((String.ofList (s.toList.drop 9)).splitOn ",").mapM String.toInt? with
    | some [y, m, d, nod] => some (.datetime ⟨y, m, d, nod⟩)
    | _ => none
  else if s = "instant" then some (.datetime Tmpl.default)
  else if s = "annual" then some (.annual 1 1)
  else if s.startsWith "annual:" then
    match ((String.ofList (s.toList.drop 7)).splitOn ",").mapM String.toInt? with
    | some [m, d] => some (.annual m d)
    | _ => none
  else if s = "duration" then some .duration
  else if s.startsWith "dateC:" then
    match ((String.ofList (s.toList.drop 6)).splitOn ",").mapM String.toInt? with
    | some [cal, y, m, d] => if cal < 0 then none else some (.dateC ⟨cal.toNat, y, m, d, 0⟩)
    | _ => none
  else if s.startsWith "datetimeC:" then
    match ((String.ofList (s.toList.drop 10)).splitOn ",").mapM String.toInt? with
    | some [cal, y, m, d, nod] => if cal < 0 then none else some (.datetimeC ⟨cal.toNat, y, m, d, nod⟩)
    | _ => none
  else none

/-- the type a created pattern object parses with (LocalDateTime standard patterns keep the default template) -/
def effType (tok : String) (ty : PType) (text : Text) : PType :=
  match ty with
  | .datetime tm => if tok = "instant" then ty else .datetime (effTmpl tm text)
  | .dateC tc => .dateC (effTmplDateC tc text)
  | .datetimeC tc => .datetimeC (effTmplC tc text)
  | t => t

/-- pattern creation for a type token (`instant` = the Instant adapter over a LocalDateTime pattern) -/
def compileTok (tok : String) (ty : PType) (cu : Culture) (text : Text) : R Pat :=
  if tok = "instant" then compileInstant Tmpl.default cu text else compile ty cu text

def stepIsText : Step → Bool
  | .amPm _ => true
  | .monthText _ => true
  | .dayText _ => true
  | .era => true
  | .eraC _ => true
  | _ => false

/-- number of format/parse action pairs of the segments (an embedded pattern is one action) -/
def segActions : List Seg → Nat
  | [] => 0
  | .plain ss :: segs => ss.length + segActions segs
  | _ :: segs => 1 + segActions segs

def segHasText : Seg → Bool
  | .plain ss => ss.any stepIsText
  | .date c => c.steps.any stepIsText
  | .time c => c.steps.any stepIsText

mutual
def showPat : Pat → String
  | .stepped c => s!"S{c.used}/{c.steps.length}"
  | .zprefix p => "Z(" ++ showPat p ++ ")"
  | .composite ps => "C(" ++ showPats ps ++ ")"
  | .segmented _ used segs => s!"S{used}/{segActions segs}"
def showPats : List Pat → String
  | [] => ""
  | [p] => showPat p
  | p :: ps => showPat p ++ "," ++ showPats ps
end

mutual
def patHasText : Pat → Bool
  | .stepped c => c.steps.any stepIsText
  | .zprefix p => patHasText p
  | .composite ps => patsHaveText ps
  | .segmented _ _ segs => segs.any segHasText
def patsHaveText : List Pat → Bool
  | [] => false
  | p :: ps => patHasText p || patsHaveText ps
end

def asciiOnly (t : Text) : Bool := t.all (fun c => decide (c.toNat < 128))

/-- every character is ASCII or listed in the folding table `fold` -/
def coveredBy (fold : List (Char × Char)) (t : Text) : Bool :=
  t.all (fun c => decide (c.toNat < 128) || (lookupFold c fold).isSome)

/-- `xXyY…` → [(x, X), (y, Y), …] -/
def pairsOf : Text → List (Char × Char)
  | a :: b :: t => (a, b) :: pairsOf t
  | _ => []

def withFold (cu : Culture) (fold : Text) : Culture := { cu with fold := pairsOf fold }

/-- the culture strings a text step compares case-insensitively are covered by the folding table `fold` -/
def stepAscii (fold : List (Char × Char)) (cu : Culture) : Step → Bool
  | .amPm _ => coveredBy fold cu.am && coveredBy fold cu.pm
  | .monthText count => (monthTable cu count true).all (coveredBy fold) && (monthTable cu count false).all (coveredBy fold)
  | .dayText count => (dayTable cu count).all (coveredBy fold)
  | .era => (cu.eraNamesBCE ++ cu.eraNamesCE).all (coveredBy fold)
  | .eraC cal => (eraNamesOf cu (eraIdOfCal cal)).all (coveredBy fold)
  | _ => true

def segAscii (fold : List (Char × Char)) : Seg → Bool
  | .plain _ => true
  | .date c => c.steps.all (stepAscii fold c.cu)
  | .time c => c.steps.all (stepAscii fold c.cu)

def segPlainAscii (fold : List (Char × Char)) (cu : Culture) : Seg → Bool
  | .plain ss => ss.all (stepAscii fold cu)
  | _ => true

mutual
def patAscii (fold : List (Char × Char)) : Pat → Bool
  | .stepped c => c.steps.all (stepAscii fold c.cu)
  | .zprefix p => patAscii fold p
  | .composite ps => patsAscii fold ps
  | .segmented cu _ segs => segs.all (segAscii fold) && segs.all (segPlainAscii fold cu)
def patsAscii (fold : List (Char × Char)) : List Pat → Bool
  | [] => true
  | p :: ps => patAscii fold p && patsAscii fold ps
end

def cultureAscii (cu : Culture) : Bool :=
  asciiOnly cu.am && asciiOnly cu.pm &&
  (cu.longMonths ++ cu.shortMonths ++ cu.longMonthsGen ++ cu.shortMonthsGen ++ cu.longDays ++ cu.shortDays ++
    cu.eraNamesBCE ++ cu.eraNamesCE).all asciiOnly

def opParse (tok p cu t fold : String) : Option String := do
      let ty ← decodeType tok; let p ← decodeText' p; let cu ← decodeCulture cu
      let t ← decodeText' t
      let fold ← decodeText' fold
      let cu := withFold cu fold
      some (match compileTok tok ty cu p with
        | .error e => "!" ++ e.name
        | .ok pat =>
          if patHasText pat && !(coveredBy cu.fold t && patAscii cu.fold pat) then "!dom"
          else match parsePat (effType tok ty p) t pat with
            | .error e => "!" ++ e.name
            | .ok none => "fail"
            | .ok (some v) => "ok " ++ showInts v)

def opDelim (tok p cu fold : String) : Option String := do
      let ty ← decodeType tok; let p ← decodeText' p; let cu ← decodeCulture cu
      let fold ← decodeText' fold
      let cu := withFold cu fold
      some (match compileTok tok ty cu p with
        | .error e => "!" ++ e.name
        | .ok (.stepped c) => if Delimited c.cu c.used true c.steps then "1" else "0"
        | .ok (.segmented cu' used segs) => if DelimitedSegs cu' used true segs then "3" else "2"
        | .ok _ => "-")

def opNames (cu fold : String) : Option String := do
      let cu ← decodeCulture cu
      let fold ← decodeText' fold
      let cu := withFold cu fold
      let bits := [monthNamesOK cu 3 true, monthNamesOK cu 3 false, monthNamesOK cu 4 true, monthNamesOK cu 4 false,
        dayNamesOK cu 3, dayNamesOK cu 4, amPmOK cu 1, amPmOK cu 2, eraOK cu]
      let dangers := [monthDanger cu 3 true, monthDanger cu 3 false, monthDanger cu 4 true, monthDanger cu 4 false,
        dayDanger cu 3, dayDanger cu 4, amPmDanger cu 1, eraDanger cu]
      some (String.ofList (bits.map (fun b => if b then '1' else '0')) ++ " " ++
        encodeText' (List.intercalate [Char.ofNat 31] dangers))

def handlePat (toks : List String) : Option String :=
  match toks with
  | ["pcur.quoted", q, rest] => do
      let q ← parseInt? q; let rest ← decodeText' rest
      if q < 0 then none else
      some (match quotedString (Char.ofNat q.toNat) rest with
        | .error e => "!" ++ e.name
        | .ok (s, k) => s!"ok {encodeText' s} {k}")
  | ["pcur.repeat", c, rest, mx] => do
      let c ← parseInt? c; let rest ← decodeText' rest; let mx ← parseInt? mx
      if c < 0 ∨ mx < 0 then none else
      some (match repeatCount (Char.ofNat c.toNat) rest mx.toNat with
        | .error e => "!" ++ e.name
        | .ok n => s!"ok {n}")
  | ["pcur.embedded", rest] => do
      let rest ← decodeText' rest
      some (match embeddedPattern rest with
        | .error e => "!" ++ e.name
        | .ok (s, k) => s!"ok {encodeText' s} {k}")
  | ["pat.compile", tok, p, cu] => do
      let ty ← decodeType tok; let p ← decodeText' p; let cu ← decodeCulture cu
      some (match compileTok tok ty cu p with
        | .error e => "!" ++ e.name
        | .ok pat => "ok " ++ showPat pat)
  | "pat.fmt" :: tok :: p :: cu :: args => do
      let ty ← decodeType tok; let p ← decodeText' p; let cu ← decodeCulture cu
      let v ← parseInts? args
      let get ← getterOf ty v
      some (match compileTok tok ty cu p with
        | .error e => "!" ++ e.name
        | .ok pat =>
          match fmtPat ty v get pat with
          | .error e => "!" ++ e.name
          | .ok t => encodeText' t)
  | ["pat.parse", tok, p, cu, t] => opParse tok p cu t "-"
  | ["pat.parse", tok, p, cu, t, fold] => opParse tok p cu t fold
  | ["pat.delim", tok, p, cu] => opDelim tok p cu "-"
  | ["pat.delim", tok, p, cu, fold] => opDelim tok p cu fold
  | ["pat.wf", tok, p, cu] => do
      let ty ← decodeType tok; let p ← decodeText' p; let cu ← decodeCulture cu
      some (match compileTok tok ty cu p with
        | .error e => "!" ++ e.name
        | .ok (.stepped c) => showBool (c.steps.all dtStepWF && fieldsSound c.used c.steps)
        | .ok (.segmented cu' used segs) => if segWF cu' used segs then "2" else (if cu'.monthHeadsEmpty then "0" else "-")
        | .ok _ => "-")
  | ["cu.check", cu] => do
      let cu ← decodeCulture cu
      some s!"{showBool cu.offsetTextsCustom} {showBool cu.dtTextsNoL} {showBool cu.monthHeadsEmpty}"
  | ["cu.names", cu] => opNames cu "-"
  | ["cu.names", cu, fold] => opNames cu fold
  | ["pat.calids"] => some (encodeText' (List.intercalate [Char.ofNat 31] calendarIds))
  | ["pat.calords"] => some (encodeText' (List.intercalate [Char.ofNat 31] calOrdIds))
  | _ => none

end Pyoda.Text
