/-
  PyodaModel.Text.PatternCursor — pattern-text scanning of pyoda_time/text/patterns/_pattern_cursor.py.

  A `_PatternCursor` positioned ON a character `c` is modelled by the text `rest` that follows `c`.
  Every scanner returns, besides its value, the number `k` of characters of `rest` it consumed, such that the
  cursor is left ON the last consumed character (that is how the handlers of `_SteppedPatternBuilder` leave it;
  the builder's loop then calls `move_next()`).  All failures are `InvalidPatternError` (`.invalidPattern`).
-/
import PyodaModel.Text.Numeric

namespace Pyoda.Text

/-- number of leading characters of `l` equal to `c` -/
def countLeading (c : Char) : Text → Nat
  | [] => 0
  | d :: l => if d = c then countLeading c l + 1 else 0

/-- `get_repeat_count(maximum_count)` with the cursor on `c`: the length of the run of `c` (at least 1);
    `REPEAT_COUNT_EXCEEDED` above the maximum.  Consumes `count − 1` characters of `rest`. -/
def repeatCount (c : Char) (rest : Text) (max : Nat) : R Nat :=
  let n := countLeading c rest + 1
  if n > max then .error .invalidPattern else .ok n

/-- `get_quoted_string(close_quote)` with the cursor on the opening quote: characters up to the closing quote,
    a backslash taking the next character literally.  `acc` is the reversed string so far, `k` the number of
    characters consumed so far; the result counts the closing quote. -/
def quotedAux (close : Char) : Text → Text → Nat → R (Text × Nat)
  | [], _, _ => .error .invalidPattern                     -- MISSING_END_QUOTE
  | c :: r, acc, k =>
    if c = close then .ok (acc.reverse, k + 1)
    else if c = '\\' then
      match r with
      | [] => .error .invalidPattern                        -- ESCAPE_AT_END_OF_STRING
      | d :: r' => quotedAux close r' (d :: acc) (k + 2)
    else quotedAux close r (c :: acc) (k + 1)

def quotedString (close : Char) (rest : Text) : R (Text × Nat) := quotedAux close rest [] 0

/-- the scanning loop of `get_embedded_pattern()` after the opening `<`: nesting depth, quoted strings (skipped
    with the rules of `get_quoted_string`), escapes.  Returns the number of characters up to and including the
    `>` that closes depth 1. -/
def embScan : Nat → Option Char → Text → Nat → R Nat
  | _, none, [], _ => .error .invalidPattern               -- MISSING_EMBEDDED_PATTERN_END
  | d, none, c :: r, k =>
    if c = '>' then (if d ≤ 1 then .ok (k + 1) else embScan (d - 1) none r (k + 1))
    else if c = '<' then embScan (d + 1) none r (k + 1)
    else if c = '\\' then
      match r with
      | [] => .error .invalidPattern                        -- ESCAPE_AT_END_OF_STRING
      | _ :: r' => embScan d none r' (k + 2)
    else if c = '\'' ∨ c = '"' then embScan d (some c) r (k + 1)
    else embScan d none r (k + 1)
  | _, some _, [], _ => .error .invalidPattern             -- MISSING_END_QUOTE
  | d, some q, c :: r, k =>
    if c = q then embScan d none r (k + 1)
    else if c = '\\' then
      match r with
      | [] => .error .invalidPattern
      | _ :: r' => embScan d (some q) r' (k + 2)
    else embScan d (some q) r (k + 1)

/-- `get_embedded_pattern()` with the cursor on the character before `<`: the embedded pattern text and the
    number of characters of `rest` consumed (through the closing `>`). -/
def embeddedPattern (rest : Text) : R (Text × Nat) :=
  match rest with
  | '<' :: r =>
    match embScan 1 none r 0 with
    | .error e => .error e
    | .ok k => .ok (r.take (k - 1), k + 1)
  | _ => .error .invalidPattern                             -- MISSING_EMBEDDED_PATTERN_START

end Pyoda.Text
