/-
  PyodaModel.Text.Delimited — the decidable, syntactic criterion `Delimited` of the round-trip theorem
  (`PyodaProofs/C07Stepped.lean: stepped_roundtrip`), kept in the model so that the driver can report which
  generated patterns the theorem covers.
-/
import PyodaModel.Text.WellFormed

namespace Pyoda.Text

/-- what the steps after a field start with, as far as the pattern text tells -/
inductive Follow where
  | stop                 -- end of the pattern
  | char (c : Char)      -- a literal starting with `c`
  | digit                -- a non-negative numeric field
  | dotOr (c : Option Char)  -- an optional `.fraction` at the end of the pattern / before a literal starting with `c`
  | unknown
  deriving DecidableEq, Repr

def follow : List Step → Follow
  | [] => .stop
  | .lit (c :: _) :: _ => .char c
  | .semi :: _ => .char '.'
  | .num _ _ _ _ minV _ :: _ => if minV ≥ 0 then .digit else .unknown
  | .dotFrac _ _ _ :: ss =>
    match ss with
    | [] => .dotOr none
    | .lit (c :: _) :: _ => .dotOr (some c)
    | _ => .unknown
  | _ => .unknown

def Follow.nonDigit : Follow → Bool
  | .stop => true
  | .char c => !isDigit c
  | .dotOr none => true
  | .dotOr (some c) => !isDigit c
  | _ => false

def Follow.notChar (x : Char) : Follow → Bool
  | .stop => true
  | .char c => decide (c ≠ x)
  | .digit => !isDigit x
  | .dotOr none => decide (x ≠ '.')
  | .dotOr (some c) => decide (x ≠ '.') && decide (c ≠ x)
  | .unknown => false

/-- the following text does not start, up to ASCII case, with the (lower-case) character `x` -/
def Follow.notCharCI (low : Char → Char) (x : Char) : Follow → Bool
  | .stop => true
  | .char c => decide (low c ≠ x)
  | .digit => !isDigit x
  | .dotOr none => decide (x ≠ '.')
  | .dotOr (some c) => decide (x ≠ '.') && decide (low c ≠ x)
  | .unknown => false

/-- text steps: the culture's names can be told apart (`monthNamesOK`, `dayNamesOK`, `amPmOK`, `eraOK`) and what
    follows cannot continue a written name into a longer one (the `…Danger` characters) -/
def textStepOK (cu : Culture) (used : Nat) (f : Follow) : Step → Bool
  | .monthText count =>
    monthNamesOK cu count (genitiveOf used) && (monthDanger cu count (genitiveOf used)).all (f.notCharCI (lowC cu))
  | .dayText count => dayNamesOK cu count && (dayDanger cu count).all (f.notCharCI (lowC cu))
  | .amPm count => amPmOK cu count && (amPmDanger cu count).all (f.notCharCI (lowC cu))
  | .era => eraOK cu && (eraDanger cu).all (f.notCharCI (lowC cu))
  | .eraC cal => eraCOK cu cal && (eraCDanger cu cal).all (f.notCharCI (lowC cu))
  | .calendar => true
  | _ => false

/-- after the step, is the output known not to end with `.`? -/
def lastSafe (safe : Bool) : Step → Bool
  | .lit s => if s = [] then safe else decide (s.getLast? ≠ some '.')
  | .num _ _ _ _ _ _ => true
  | .frac _ _ fixed => fixed
  | .signRequired => true
  | .signNegativeOnly => safe
  | _ => false

def delimStep (cu : Culture) (used : Nat) (safe : Bool) (f : Follow) : Step → Bool
  | .lit _ => true
  | .semi => true
  | .signRequired => true
  | .num _ _ count maxCount _ _ => decide (count = maxCount) || f.nonDigit
  | .frac _ _ fixed => fixed || (f.nonDigit && safe)
  | .dotFrac _ _ comma => f.nonDigit && f.notChar '.' && (!comma || f.notChar ',')
  | .signNegativeOnly => f.notChar '-' && f.notChar '+'
  | s => textStepOK cu used f s

/-- **Delimited** (decidable): every variable-width numeric field (`count < maxCount`, `F…`, `.F…`) is followed by
    a literal that does not start with a digit or ends the pattern; a bare `F…` is not written right after a `.`;
    `.F…`/`;F…` is not followed by a literal `.` (`,`); a negative-only sign is not followed by a literal `-`/`+`;
    text steps (month and day names, am/pm designators, era names) satisfy `textStepOK` in the culture `cu` for
    the pattern's field set `used`. -/
def Delimited (cu : Culture) (used : Nat) (safe : Bool) : List Step → Bool
  | [] => true
  | s :: ss => delimStep cu used safe (follow ss) s && Delimited cu used (lastSafe safe s) ss

/-! ### patterns with embedded parts (`Pat.segmented`): the same criterion with the text that FOLLOWS a step list taken
    into account (`PyodaProofs/C07Segmented.lean: segmented_roundtrip`) -/

/-- `follow` for a step list that is followed by more text, of which `fo` is known -/
def followF (fo : Follow) : List Step → Follow
  | [] => fo
  | .lit (c :: _) :: _ => .char c
  | .lit [] :: ss => followF fo ss
  | .semi :: _ => .char '.'
  | .num _ _ _ _ minV _ :: _ => if minV ≥ 0 then .digit else .unknown
  | .dotFrac _ _ _ :: ss =>
    match followF fo ss with
    | .stop => .dotOr none
    | .char c => .dotOr (some c)
    | _ => .unknown
  | _ => .unknown

/-- `Delimited` for a step list followed by text described by `fo` -/
def DelimitedF (cu : Culture) (used : Nat) (fo : Follow) : Bool → List Step → Bool
  | _, [] => true
  | safe, s :: ss => delimStep cu used safe (followF fo ss) s && DelimitedF cu used fo (lastSafe safe s) ss

/-- is the output known not to end with `.` after the steps? -/
def lastSafeList : Bool → List Step → Bool
  | safe, [] => safe
  | safe, s :: ss => lastSafeList (lastSafe safe s) ss

def segSteps : Seg → List Step
  | .plain ss => ss
  | .date c => c.steps
  | .time c => c.steps

/-- what the text written by the segments starts with -/
def segFollow : List Seg → Follow
  | [] => .stop
  | sg :: segs => followF (segFollow segs) (segSteps sg)

/-- **DelimitedSegs** (decidable): `Delimited` segment by segment — the plain steps in the outer pattern's culture and
    field set, an embedded pattern in its own — each against what the following segments write -/
def DelimitedSegs (cu : Culture) (used : Nat) : Bool → List Seg → Bool
  | _, [] => true
  | safe, .plain ss :: segs => DelimitedF cu used (segFollow segs) safe ss && DelimitedSegs cu used (lastSafeList safe ss) segs
  | safe, .date c :: segs => DelimitedF c.cu c.used (segFollow segs) safe c.steps && DelimitedSegs cu used (lastSafeList safe c.steps) segs
  | safe, .time c :: segs => DelimitedF c.cu c.used (segFollow segs) safe c.steps && DelimitedSegs cu used (lastSafeList safe c.steps) segs

end Pyoda.Text
