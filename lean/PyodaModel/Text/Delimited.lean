/-
  PyodaModel.Text.Delimited — the decidable, syntactic criterion `Delimited` of the round-trip theorem
  (`PyodaProofs/C07Stepped.lean: stepped_roundtrip`), kept in the model so that the driver can report which
  generated patterns the theorem covers.
-/
import PyodaModel.Text.Stepped

namespace Pyoda.Text

/-- what the steps after a field start with, as far as the pattern text tells -/
inductive Follow where
  | stop                 -- end of the pattern
  | char (c : Char)      -- a literal starting with `c`
  | digit                -- a non-negative numeric field
  | dotOr (c : Option Char)  -- an optional `.fraction` at the end of the pattern / before a literal starting with `c`
  | unknown
  deriving DecidableEq, Repr

def follow : List Step → Follow
  | [] => .stop
  | .lit (c :: _) :: _ => .char c
  | .semi :: _ => .char '.'
  | .num _ _ _ _ minV _ :: _ => if minV ≥ 0 then .digit else .unknown
  | .dotFrac _ _ _ :: ss =>
    match ss with
    | [] => .dotOr none
    | .lit (c :: _) :: _ => .dotOr (some c)
    | _ => .unknown
  | _ => .unknown

def Follow.nonDigit : Follow → Bool
  | .stop => true
  | .char c => !isDigit c
  | .dotOr none => true
  | .dotOr (some c) => !isDigit c
  | _ => false

def Follow.notChar (x : Char) : Follow → Bool
  | .stop => true
  | .char c => decide (c ≠ x)
  | .digit => !isDigit x
  | .dotOr none => decide (x ≠ '.')
  | .dotOr (some c) => decide (x ≠ '.') && decide (c ≠ x)
  | .unknown => false

/-- after the step, is the output known not to end with `.`? -/
def lastSafe (safe : Bool) : Step → Bool
  | .lit s => if s = [] then safe else decide (s.getLast? ≠ some '.')
  | .num _ _ _ _ _ _ => true
  | .frac _ _ fixed => fixed
  | .signRequired => true
  | .signNegativeOnly => safe
  | _ => false

def delimStep (safe : Bool) (f : Follow) : Step → Bool
  | .lit _ => true
  | .semi => true
  | .signRequired => true
  | .num _ _ count maxCount _ _ => decide (count = maxCount) || f.nonDigit
  | .frac _ _ fixed => fixed || (f.nonDigit && safe)
  | .dotFrac _ _ comma => f.nonDigit && f.notChar '.' && (!comma || f.notChar ',')
  | .signNegativeOnly => f.notChar '-' && f.notChar '+'
  | _ => false

/-- **Delimited** (decidable): every variable-width numeric field (`count < maxCount`, `F…`, `.F…`) is followed by
    a literal that does not start with a digit or ends the pattern; a bare `F…` is not written right after a `.`;
    `.F…`/`;F…` is not followed by a literal `.` (`,`); a negative-only sign is not followed by a literal `-`/`+`;
    no text steps. -/
def Delimited (safe : Bool) : List Step → Bool
  | [] => true
  | s :: ss => delimStep safe (follow ss) s && Delimited (lastSafe safe s) ss

end Pyoda.Text
