/-
  PyodaModel.Text.PyIso — what the Python standard library writes:
  `datetime.date.isoformat()`  ("%04d-%02d-%02d"),
  `datetime.time.isoformat()`  ("%02d:%02d:%02d" plus ".%06d" when microsecond ≠ 0),
  the UTC-offset suffix of `datetime.isoformat()` (sign, "%02d:%02d", plus ":%02d" when seconds ≠ 0).
  Tied to CPython by the correspondence suite `text.pyiso`.
-/
import PyodaModel.Text.Numeric

namespace Pyoda.Text

def pyDateIso (y m d : Nat) : Text :=
  leftPadNonNeg y 4 ++ ['-'] ++ leftPadNonNeg m 2 ++ ['-'] ++ leftPadNonNeg d 2

/-- `time.isoformat()` for a time given as microsecond of day -/
def pyTimeIso (us : Nat) : Text :=
  let h := us / 3600000000
  let m := us / 60000000 % 60
  let s := us / 1000000 % 60
  let f := us % 1000000
  leftPadNonNeg h 2 ++ [':'] ++ leftPadNonNeg m 2 ++ [':'] ++ leftPadNonNeg s 2 ++
    (if f = 0 then [] else '.' :: leftPadNonNeg f 6)

/-- the offset suffix written for `timezone(timedelta(seconds=s))` -/
def pyOffsetIso (s : Int) : Text :=
  let a := s.natAbs
  let h := a / 3600
  let m := a / 60 % 60
  let ss := a % 60
  (if s < 0 then '-' else '+') :: (leftPadNonNeg h 2 ++ [':'] ++ leftPadNonNeg m 2 ++
    (if ss = 0 then [] else ':' :: leftPadNonNeg ss 2))

end Pyoda.Text
