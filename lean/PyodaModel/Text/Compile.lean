/-
  PyodaModel.Text.Compile — the `parse_pattern` entry points of the LocalTime, LocalDate (ISO template) and
  Offset pattern parsers: empty text, standard single-letter patterns (built-in ones are created with the
  invariant culture, culture-dependent ones expand the culture's pattern text), the Offset `Z` prefix and the
  composite `g`/`G`/`i`/`I` patterns.
-/
import PyodaModel.Text.Stepped

namespace Pyoda.Text

def invariantCulture : Culture where
  timeSep := [':']
  dateSep := ['/']
  am := "AM".toList
  pm := "PM".toList
  longMonths := ["", "January", "February", "March", "April", "May", "June", "July", "August", "September",
    "October", "November", "December", ""].map String.toList
  shortMonths := ["", "Jan", "Feb", "Mar", "Apr", "May", "Jun", "Jul", "Aug", "Sep", "Oct", "Nov", "Dec", ""].map String.toList
  longMonthsGen := ["", "January", "February", "March", "April", "May", "June", "July", "August", "September",
    "October", "November", "December", ""].map String.toList
  shortMonthsGen := ["", "Jan", "Feb", "Mar", "Apr", "May", "Jun", "Jul", "Aug", "Sep", "Oct", "Nov", "Dec", ""].map String.toList
  longDays := ["", "Monday", "Tuesday", "Wednesday", "Thursday", "Friday", "Saturday", "Sunday"].map String.toList
  shortDays := ["", "Mon", "Tue", "Wed", "Thu", "Fri", "Sat", "Sun"].map String.toList
  shortDate := "MM/dd/yyyy".toList
  longDate := "dddd, dd MMMM yyyy".toList
  monthDay := "MMMM dd".toList
  shortTime := "HH:mm".toList
  longTime := "HH:mm:ss".toList
  offLong := "+HH:mm:ss".toList
  offMedium := "+HH:mm".toList
  offShort := "+HH".toList
  offLongNP := "+HHmmss".toList
  offMediumNP := "+HHmm".toList
  offShortNP := "+HH".toList
  fullDateTime := "dddd, dd MMMM yyyy HH:mm:ss".toList
  eraNamesBCE := ["B.C.E.", "B.C.", "BCE", "BC"].map String.toList
  eraNamesCE := ["A.D.", "C.E.", "AD", "CE"].map String.toList
  eraPrimaryBCE := "B.C.".toList
  eraPrimaryCE := "A.D.".toList
  eraNamesX := [["A.M.", "AM"], ["A.M.", "AM"], ["A.P.", "AP"], ["A.H.", "AH"], ["B.E.", "BE"]].map (·.map String.toList)
  eraPrimaryX := ["A.M.", "A.M.", "A.P.", "A.H.", "B.E."].map String.toList

/-- a segment of a LocalDateTime pattern with embedded patterns: plain steps of the outer builder, an embedded
    LocalDate pattern `ld<…>`, an embedded LocalTime pattern `lt<…>` (one format/parse action pair each) -/
inductive Seg where
  | plain (steps : List Step)
  | date (c : Compiled)
  | time (c : Compiled)
  deriving Repr

/-- a pattern object: a stepped pattern, (Offset only) the `Z`-prefix wrapper / a composite, or (LocalDateTime only)
    a stepped pattern some of whose actions are embedded date / time patterns -/
inductive Pat where
  | stepped (c : Compiled)
  | zprefix (p : Pat)
  | composite (ps : List Pat)
  | segmented (cu : Culture) (used : Nat) (segs : List Seg)
  deriving Repr

def steppedOf (r : R Compiled) : R Pat :=
  match r with
  | .error e => .error e
  | .ok c => .ok (.stepped c)

/-- `_LocalTimePatternParser.parse_pattern` -/
def compileTime (cu : Culture) (text : Text) : R Pat :=
  match text with
  | [] => .error .invalidPattern                            -- FORMAT_STRING_EMPTY
  | [c] =>
    if c = 'o' then steppedOf (compileCustom .time invariantCulture "HH':'mm':'ss;FFFFFFFFF".toList)
    else if c = 'O' then steppedOf (compileCustom .time invariantCulture "HH':'mm':'ss;fffffffff".toList)
    else if c = 't' then steppedOf (compileCustom .time cu cu.shortTime)
    else if c = 'T' then steppedOf (compileCustom .time cu cu.longTime)
    else if c = 'r' then steppedOf (compileCustom .time cu "HH:mm:ss.FFFFFFFFF".toList)
    else .error .invalidPattern                             -- UNKNOWN_STANDARD_FORMAT
  | _ => steppedOf (compileCustom .time cu text)

/-- `_LocalDatePatternParser.parse_pattern` (template value in the ISO calendar) -/
def compileDate (cu : Culture) (text : Text) : R Pat :=
  match text with
  | [] => .error .invalidPattern
  | [c] =>
    if c = 'R' then steppedOf (compileCustom .date invariantCulture "uuuu'-'MM'-'dd".toList)
    else if c = 'r' then steppedOf (compileCustom .date invariantCulture "uuuu'-'MM'-'dd '('c')'".toList)
    else if c = 'd' then steppedOf (compileCustom .date cu cu.shortDate)
    else if c = 'D' then steppedOf (compileCustom .date cu cu.longDate)
    else if c = 'M' then steppedOf (compileCustom .date cu cu.monthDay)
    else .error .invalidPattern
  | _ => steppedOf (compileCustom .date cu text)

/-! ### LocalDateTime patterns with embedded date / time patterns -/

/-- builder state of a LocalDateTime pattern with embedded patterns: finished segments and the plain steps since -/
structure DSt where
  used : Nat
  segs : List Seg
  cur : List Step
  deriving Repr

/-- `_add_embedded_local_partial` for a LocalDateTime builder, cursor on `l`: `ld<…>` / `lt<…>`; `l<…>` is rejected
    (no date-time extractor), anything else fails in `get_embedded_pattern`.  The embedded text is compiled as a
    LocalDate / LocalTime pattern of its own (standard letters included). -/
def handleEmbedded (cu : Culture) (rest : Text) (st : DSt) : R (DSt × Nat) :=
  match rest with
  | 'd' :: r =>
    match embeddedPattern r with
    | .error e => .error e
    | .ok (text, k) =>
      match addField ⟨st.used, []⟩ F.embeddedDate with
      | .error e => .error e
      | .ok u =>
        match compileDate cu text with
        | .ok (.stepped c) => .ok ({ used := u.used, segs := st.segs ++ [.plain st.cur, .date c], cur := [] }, k + 1)
        | .ok _ => .error .other
        | .error e => .error e
  | 't' :: r =>
    match embeddedPattern r with
    | .error e => .error e
    | .ok (text, k) =>
      match addField ⟨st.used, []⟩ F.embeddedTime with
      | .error e => .error e
      | .ok u =>
        match compileTime cu text with
        | .ok (.stepped c) => .ok ({ used := u.used, segs := st.segs ++ [.plain st.cur, .time c], cur := [] }, k + 1)
        | .ok _ => .error .other
        | .error e => .error e
  | _ => .error .invalidPattern

/-- one character of a LocalDateTime pattern text: `l` starts an embedded pattern, the rest is the plain table -/
def handleDT (cu : Culture) (c : Char) (rest : Text) (st : DSt) : R (DSt × Nat) :=
  if c = 'l' then handleEmbedded cu rest st
  else
    match handleDateTime cu c rest ⟨st.used, st.cur⟩ with
    | .error e => .error e
    | .ok (st', k) => .ok ({ st with used := st'.used, cur := st'.steps }, k)

def compileLoopDT (cu : Culture) : Nat → Text → DSt → R DSt
  | _, [], st => .ok st
  | 0, _ :: _, _ => .error .other
  | f + 1, c :: rest, st =>
    match handleDT cu c rest st with
    | .error e => .error e
    | .ok (st', k) => compileLoopDT cu f (rest.drop k) st'

def F.allTimeFields : Nat := F.hours12 ||| F.hours24 ||| F.minutes ||| F.seconds ||| F.fraction ||| F.amPm ||| F.embeddedTime
def F.allDateFields : Nat := F.year ||| F.yearTwoDigits ||| F.yearOfEra ||| F.monthNum ||| F.monthText ||| F.dayOfMonth |||
  F.dayOfWeek ||| F.era ||| F.calendar ||| F.embeddedDate

/-- `_SteppedPatternBuilder._build`: an embedded date (time) excludes every other date (time) field -/
def buildCheck (used : Nat) : R Unit :=
  if used &&& F.embeddedDate ≠ 0 ∧ used &&& (F.allDateFields ^^^ F.embeddedDate) ≠ 0 then .error .invalidPattern
  else if used &&& F.embeddedTime ≠ 0 ∧ used &&& (F.allTimeFields ^^^ F.embeddedTime) ≠ 0 then .error .invalidPattern
  else .ok ()

/-- the whole builder run for a LocalDateTime pattern text that uses `l` -/
def compileSegmented (cu : Culture) (text : Text) : R Pat :=
  match compileLoopDT cu text.length text ⟨0, [], []⟩ with
  | .error e => .error e
  | .ok st =>
    match validateUsed st.used with
    | .error e => .error e
    | .ok _ =>
      match buildCheck st.used with
      | .error e => .error e
      | .ok _ => .ok (.segmented cu st.used (st.segs ++ [.plain st.cur]))

/-- `parse_no_standard_expansion` of the LocalDateTime parser: the plain builder; when it meets the letter `l`
    (`!dom` of `handleDateTime`) the builder with embedded patterns -/
def compileDTText (tm : Tmpl) (cu : Culture) (text : Text) : R Pat :=
  match compileCustom (.datetime tm) cu text with
  | .error .decimalDomain => compileSegmented cu text
  | r => steppedOf r

/-- `_LocalDateTimePatternParser.parse_pattern` (template value in the ISO calendar).  The standard letters
    `o O r R s S` resolve to the shared built-in pattern objects, which were created with the invariant culture
    and the DEFAULT template value (see `effTmpl`); `f F g G` expand the culture's pattern texts. -/
def compileDateTime (tm : Tmpl) (cu : Culture) (text : Text) : R Pat :=
  match text with
  | [] => .error .invalidPattern
  | [c] =>
    if c = 'o' ∨ c = 'O' then
      steppedOf (compileCustom (.datetime tm) invariantCulture "uuuu'-'MM'-'dd'T'HH':'mm':'ss'.'fffffff".toList)
    else if c = 'r' then
      steppedOf (compileCustom (.datetime tm) invariantCulture "uuuu'-'MM'-'dd'T'HH':'mm':'ss'.'fffffffff '('c')'".toList)
    else if c = 'R' then
      steppedOf (compileCustom (.datetime tm) invariantCulture "uuuu'-'MM'-'dd'T'HH':'mm':'ss'.'fffffffff".toList)
    else if c = 's' then
      steppedOf (compileCustom (.datetime tm) invariantCulture "uuuu'-'MM'-'dd'T'HH':'mm':'ss".toList)
    else if c = 'S' then
      steppedOf (compileCustom (.datetime tm) invariantCulture "uuuu'-'MM'-'dd'T'HH':'mm':'ss;FFFFFFFFF".toList)
    else if c = 'f' then compileDTText tm cu (cu.longDate ++ [' '] ++ cu.shortTime)
    else if c = 'F' then compileDTText tm cu cu.fullDateTime
    else if c = 'g' then compileDTText tm cu (cu.shortDate ++ [' '] ++ cu.shortTime)
    else if c = 'G' then compileDTText tm cu (cu.shortDate ++ [' '] ++ cu.longTime)
    else .error .invalidPattern
  | _ => compileDTText tm cu text

/-- `_AnnualDatePatternParser.parse_pattern`: `G` is the shared ISO pattern `MM'-'dd` (invariant culture) -/
def compileAnnual (tm td : Int) (cu : Culture) (text : Text) : R Pat :=
  match text with
  | [] => .error .invalidPattern
  | [c] =>
    if c = 'G' then steppedOf (compileCustom (.annual tm td) invariantCulture "MM'-'dd".toList)
    else .error .invalidPattern
  | _ => steppedOf (compileCustom (.annual tm td) cu text)

/-- `_DurationPatternParser.parse_pattern`: `o` = `-D:hh:mm:ss.FFFFFFFFF`, `j` = `-H:mm:ss.FFFFFFFFF` (shared
    patterns of the invariant culture) -/
def compileDuration (cu : Culture) (text : Text) : R Pat :=
  match text with
  | [] => .error .invalidPattern
  | [c] =>
    if c = 'o' then steppedOf (compileCustom .duration invariantCulture "-D:hh:mm:ss.FFFFFFFFF".toList)
    else if c = 'j' then steppedOf (compileCustom .duration invariantCulture "-H:mm:ss.FFFFFFFFF".toList)
    else .error .invalidPattern
  | _ => steppedOf (compileCustom .duration cu text)

/-- `_InstantPatternParser.parse_pattern`: `g` is the general pattern text; any other text is handed to
    `LocalDateTimePattern._create` with the UTC date-time of the Instant template value (the adapter converts
    values with `in_utc()` / `Instant._ctor(days, nano_of_day)`, outside this model) -/
def compileInstant (tm : Tmpl) (cu : Culture) (text : Text) : R Pat :=
  match text with
  | [] => .error .invalidPattern
  | [c] =>
    if c = 'g' then compileDTText tm cu "uuuu'-'MM'-'dd'T'HH':'mm':'ss'Z'".toList
    else .error .invalidPattern
  | _ => compileDTText tm cu text

/-- the template value a LocalDateTime pattern object parses with: the built-in patterns behind the standard
    letters `o O r R s S` keep the default template whatever template was asked for -/
def effTmpl (tm : Tmpl) (text : Text) : Tmpl :=
  match text with
  | [c] => if c = 'o' ∨ c = 'O' ∨ c = 'r' ∨ c = 'R' ∨ c = 's' ∨ c = 'S' then Tmpl.default else tm
  | _ => tm

/-- the non-standard part of `_OffsetPatternParser.__parse_partial_pattern`: `%Z`, the `Z` prefix, the builder -/
def compileOffsetText (cu : Culture) (text : Text) : R Pat :=
  if text = ['%', 'Z'] then .error .invalidPattern          -- EMPTY_ZPREFIXED_OFFSET_PATTERN
  else
    match text with
    | 'Z' :: rest =>
      match compileCustom .offset cu rest with
      | .error e => .error e
      | .ok c => .ok (.zprefix (.stepped c))
    | _ => steppedOf (compileCustom .offset cu text)

def mapR {α β : Type} (f : α → β) (r : R α) : R β :=
  match r with
  | .error e => .error e
  | .ok a => .ok (f a)

def sequenceR {α : Type} : List (R α) → R (List α)
  | [] => .ok []
  | r :: rs =>
    match r with
    | .error e => .error e
    | .ok a =>
      match sequenceR rs with
      | .error e => .error e
      | .ok as => .ok (a :: as)

/-- `__parse_partial_pattern`; `depth` bounds the recursion through standard letters (`G` → `g` → the culture's
    pattern texts); a culture whose offset pattern texts are themselves single standard letters would recurse
    further — excluded by `Culture.offsetTextsCustom`, reported as `.other` -/
def compileOffsetAux (cu : Culture) : Nat → Text → R Pat
  | 0, _ => .error .other
  | d + 1, text =>
    match text with
    | [] => .error .invalidPattern
    | [c] =>
      if c = 'g' then
        mapR Pat.composite (sequenceR [compileOffsetAux cu d cu.offLong, compileOffsetAux cu d cu.offMedium, compileOffsetAux cu d cu.offShort])
      else if c = 'G' then mapR Pat.zprefix (compileOffsetAux cu d ['g'])
      else if c = 'i' then
        mapR Pat.composite (sequenceR [compileOffsetAux cu d cu.offLongNP, compileOffsetAux cu d cu.offMediumNP, compileOffsetAux cu d cu.offShortNP])
      else if c = 'I' then mapR Pat.zprefix (compileOffsetAux cu d ['i'])
      else if c = 'l' then compileOffsetText cu cu.offLong
      else if c = 'm' then compileOffsetText cu cu.offMedium
      else if c = 's' then compileOffsetText cu cu.offShort
      else if c = 'L' then compileOffsetText cu cu.offLongNP
      else if c = 'M' then compileOffsetText cu cu.offMediumNP
      else if c = 'S' then compileOffsetText cu cu.offShortNP
      else .error .invalidPattern
    | _ => compileOffsetText cu text

def compileOffset (cu : Culture) (text : Text) : R Pat := compileOffsetAux cu 3 text

/-- the culture's offset pattern texts are custom patterns (at least two characters) -/
def Culture.offsetTextsCustom (cu : Culture) : Bool :=
  [cu.offLong, cu.offMedium, cu.offShort, cu.offLongNP, cu.offMediumNP, cu.offShortNP].all (fun t => decide (2 ≤ t.length))

/-- the culture's date/time pattern texts that the LocalDateTime standard letters `f F g G` expand do not use the
    letter `l` (embedded patterns, outside the modelled subset) -/
def Culture.dtTextsNoL (cu : Culture) : Bool :=
  [cu.longDate, cu.shortTime, cu.fullDateTime, cu.shortDate, cu.longTime].all (fun t => !t.contains 'l')

/-! ### template values in other calendars -/

/-- the era step of a pattern whose template value is in a single-era calendar reads that calendar's era names -/
def retargetStep (cal : Nat) : Step → Step
  | .era => if 3 ≤ cal then .eraC cal else .era
  | s => s

def retargetCompiled (cal : Nat) (c : Compiled) : Compiled := { c with steps := c.steps.map (retargetStep cal) }

def retargetSeg (cal : Nat) : Seg → Seg
  | .plain ss => .plain (ss.map (retargetStep cal))
  | .date c => .date (retargetCompiled cal c)
  | .time c => .time c

def retargetPat (cal : Nat) : Pat → Pat
  | .stepped c => .stepped (retargetCompiled cal c)
  | .segmented cu used segs => .segmented cu used (segs.map (retargetSeg cal))
  | p => p

/-- `_LocalDatePatternParser.parse_pattern` with a template value in calendar `cal`: `R` resolves to the shared ISO
    pattern only for an ISO template, `r` always (both keep the DEFAULT template value, see `effTmplDateC`) -/
def compileDateC (cal : Nat) (cu : Culture) (text : Text) : R Pat :=
  match text with
  | [c] =>
    if c = 'R' ∧ cal ≠ 0 then mapR (retargetPat cal) (steppedOf (compileCustom .date cu "uuuu'-'MM'-'dd".toList))
    else if c = 'R' ∨ c = 'r' then compileDate cu text
    else mapR (retargetPat cal) (compileDate cu text)
  | _ => mapR (retargetPat cal) (compileDate cu text)

def TmplC.default : TmplC := ⟨0, 2000, 1, 1, 0⟩

/-- the template value a LocalDate pattern object parses with -/
def effTmplDateC (tc : TmplC) (text : Text) : TmplC :=
  match text with
  | [c] => if c = 'r' ∨ (c = 'R' ∧ tc.cal = 0) then TmplC.default else tc
  | _ => tc

/-- `_LocalDateTimePatternParser.parse_pattern` with a template value in calendar `cal`: `o O R s S` resolve to the shared
    built-in patterns only for an ISO template, `r` always -/
def compileDateTimeC (tc : TmplC) (cu : Culture) (text : Text) : R Pat :=
  let tm : Tmpl := ⟨tc.y, tc.m, tc.d, tc.nod⟩
  match text with
  | [c] =>
    if tc.cal ≠ 0 ∧ (c = 'o' ∨ c = 'O') then
      mapR (retargetPat tc.cal) (steppedOf (compileCustom (.datetime tm) cu "uuuu'-'MM'-'dd'T'HH':'mm':'ss'.'fffffff".toList))
    else if tc.cal ≠ 0 ∧ c = 'R' then
      mapR (retargetPat tc.cal) (steppedOf (compileCustom (.datetime tm) cu "uuuu'-'MM'-'dd'T'HH':'mm':'ss'.'fffffffff".toList))
    else if tc.cal ≠ 0 ∧ c = 's' then
      mapR (retargetPat tc.cal) (steppedOf (compileCustom (.datetime tm) cu "uuuu'-'MM'-'dd'T'HH':'mm':'ss".toList))
    else if tc.cal ≠ 0 ∧ c = 'S' then
      mapR (retargetPat tc.cal) (steppedOf (compileCustom (.datetime tm) cu "uuuu'-'MM'-'dd'T'HH':'mm':'ss;FFFFFFFFF".toList))
    else if c = 'o' ∨ c = 'O' ∨ c = 'r' ∨ c = 'R' ∨ c = 's' ∨ c = 'S' then compileDateTime tm cu text
    else mapR (retargetPat tc.cal) (compileDateTime tm cu text)
  | _ => mapR (retargetPat tc.cal) (compileDateTime tm cu text)

/-- the template value a LocalDateTime pattern object parses with -/
def effTmplC (tc : TmplC) (text : Text) : TmplC :=
  match text with
  | [c] =>
    if c = 'r' then TmplC.default
    else if tc.cal = 0 ∧ (c = 'o' ∨ c = 'O' ∨ c = 'R' ∨ c = 's' ∨ c = 'S') then TmplC.default else tc
  | _ => tc

def compile (ty : PType) (cu : Culture) (text : Text) : R Pat :=
  match ty with
  | .time => compileTime cu text
  | .date => compileDate cu text
  | .offset => compileOffset cu text
  | .datetime tm => compileDateTime tm cu text
  | .annual tm td => compileAnnual tm td cu text
  | .duration => compileDuration cu text
  | .dateC tc => compileDateC tc.cal cu text
  | .datetimeC tc => compileDateTimeC tc cu text

end Pyoda.Text
