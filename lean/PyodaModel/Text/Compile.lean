/-
  PyodaModel.Text.Compile — the `parse_pattern` entry points of the LocalTime, LocalDate (ISO template) and
  Offset pattern parsers: empty text, standard single-letter patterns (built-in ones are created with the
  invariant culture, culture-dependent ones expand the culture's pattern text), the Offset `Z` prefix and the
  composite `g`/`G`/`i`/`I` patterns.
-/
import PyodaModel.Text.Stepped

namespace Pyoda.Text

def invariantCulture : Culture where
  timeSep := [':']
  dateSep := ['/']
  am := "AM".toList
  pm := "PM".toList
  longMonths := ["", "January", "February", "March", "April", "May", "June", "July", "August", "September",
    "October", "November", "December", ""].map String.toList
  shortMonths := ["", "Jan", "Feb", "Mar", "Apr", "May", "Jun", "Jul", "Aug", "Sep", "Oct", "Nov", "Dec", ""].map String.toList
  longMonthsGen := ["", "January", "February", "March", "April", "May", "June", "July", "August", "September",
    "October", "November", "December", ""].map String.toList
  shortMonthsGen := ["", "Jan", "Feb", "Mar", "Apr", "May", "Jun", "Jul", "Aug", "Sep", "Oct", "Nov", "Dec", ""].map String.toList
  longDays := ["", "Monday", "Tuesday", "Wednesday", "Thursday", "Friday", "Saturday", "Sunday"].map String.toList
  shortDays := ["", "Mon", "Tue", "Wed", "Thu", "Fri", "Sat", "Sun"].map String.toList
  shortDate := "MM/dd/yyyy".toList
  longDate := "dddd, dd MMMM yyyy".toList
  monthDay := "MMMM dd".toList
  shortTime := "HH:mm".toList
  longTime := "HH:mm:ss".toList
  offLong := "+HH:mm:ss".toList
  offMedium := "+HH:mm".toList
  offShort := "+HH".toList
  offLongNP := "+HHmmss".toList
  offMediumNP := "+HHmm".toList
  offShortNP := "+HH".toList
  fullDateTime := "dddd, dd MMMM yyyy HH:mm:ss".toList
  eraNamesBCE := ["B.C.E.", "B.C.", "BCE", "BC"].map String.toList
  eraNamesCE := ["A.D.", "C.E.", "AD", "CE"].map String.toList
  eraPrimaryBCE := "B.C.".toList
  eraPrimaryCE := "A.D.".toList

/-- a pattern object: a stepped pattern, or (Offset only) the `Z`-prefix wrapper / a composite -/
inductive Pat where
  | stepped (c : Compiled)
  | zprefix (p : Pat)
  | composite (ps : List Pat)
  deriving Repr

def steppedOf (r : R Compiled) : R Pat :=
  match r with
  | .error e => .error e
  | .ok c => .ok (.stepped c)

/-- `_LocalTimePatternParser.parse_pattern` -/
def compileTime (cu : Culture) (text : Text) : R Pat :=
  match text with
  | [] => .error .invalidPattern                            -- FORMAT_STRING_EMPTY
  | [c] =>
    if c = 'o' then steppedOf (compileCustom .time invariantCulture "HH':'mm':'ss;FFFFFFFFF".toList)
    else if c = 'O' then steppedOf (compileCustom .time invariantCulture "HH':'mm':'ss;fffffffff".toList)
    else if c = 't' then steppedOf (compileCustom .time cu cu.shortTime)
    else if c = 'T' then steppedOf (compileCustom .time cu cu.longTime)
    else if c = 'r' then steppedOf (compileCustom .time cu "HH:mm:ss.FFFFFFFFF".toList)
    else .error .invalidPattern                             -- UNKNOWN_STANDARD_FORMAT
  | _ => steppedOf (compileCustom .time cu text)

/-- `_LocalDatePatternParser.parse_pattern` (template value in the ISO calendar) -/
def compileDate (cu : Culture) (text : Text) : R Pat :=
  match text with
  | [] => .error .invalidPattern
  | [c] =>
    if c = 'R' then steppedOf (compileCustom .date invariantCulture "uuuu'-'MM'-'dd".toList)
    else if c = 'r' then steppedOf (compileCustom .date invariantCulture "uuuu'-'MM'-'dd '('c')'".toList)
    else if c = 'd' then steppedOf (compileCustom .date cu cu.shortDate)
    else if c = 'D' then steppedOf (compileCustom .date cu cu.longDate)
    else if c = 'M' then steppedOf (compileCustom .date cu cu.monthDay)
    else .error .invalidPattern
  | _ => steppedOf (compileCustom .date cu text)

/-- `_LocalDateTimePatternParser.parse_pattern` (template value in the ISO calendar).  The standard letters
    `o O r R s S` resolve to the shared built-in pattern objects, which were created with the invariant culture
    and the DEFAULT template value (see `effTmpl`); `f F g G` expand the culture's pattern texts. -/
def compileDateTime (tm : Tmpl) (cu : Culture) (text : Text) : R Pat :=
  match text with
  | [] => .error .invalidPattern
  | [c] =>
    if c = 'o' ∨ c = 'O' then
      steppedOf (compileCustom (.datetime tm) invariantCulture "uuuu'-'MM'-'dd'T'HH':'mm':'ss'.'fffffff".toList)
    else if c = 'r' then
      steppedOf (compileCustom (.datetime tm) invariantCulture "uuuu'-'MM'-'dd'T'HH':'mm':'ss'.'fffffffff '('c')'".toList)
    else if c = 'R' then
      steppedOf (compileCustom (.datetime tm) invariantCulture "uuuu'-'MM'-'dd'T'HH':'mm':'ss'.'fffffffff".toList)
    else if c = 's' then
      steppedOf (compileCustom (.datetime tm) invariantCulture "uuuu'-'MM'-'dd'T'HH':'mm':'ss".toList)
    else if c = 'S' then
      steppedOf (compileCustom (.datetime tm) invariantCulture "uuuu'-'MM'-'dd'T'HH':'mm':'ss;FFFFFFFFF".toList)
    else if c = 'f' then steppedOf (compileCustom (.datetime tm) cu (cu.longDate ++ [' '] ++ cu.shortTime))
    else if c = 'F' then steppedOf (compileCustom (.datetime tm) cu cu.fullDateTime)
    else if c = 'g' then steppedOf (compileCustom (.datetime tm) cu (cu.shortDate ++ [' '] ++ cu.shortTime))
    else if c = 'G' then steppedOf (compileCustom (.datetime tm) cu (cu.shortDate ++ [' '] ++ cu.longTime))
    else .error .invalidPattern
  | _ => steppedOf (compileCustom (.datetime tm) cu text)

/-- `_AnnualDatePatternParser.parse_pattern`: `G` is the shared ISO pattern `MM'-'dd` (invariant culture) -/
def compileAnnual (tm td : Int) (cu : Culture) (text : Text) : R Pat :=
  match text with
  | [] => .error .invalidPattern
  | [c] =>
    if c = 'G' then steppedOf (compileCustom (.annual tm td) invariantCulture "MM'-'dd".toList)
    else .error .invalidPattern
  | _ => steppedOf (compileCustom (.annual tm td) cu text)

/-- `_DurationPatternParser.parse_pattern`: `o` = `-D:hh:mm:ss.FFFFFFFFF`, `j` = `-H:mm:ss.FFFFFFFFF` (shared
    patterns of the invariant culture) -/
def compileDuration (cu : Culture) (text : Text) : R Pat :=
  match text with
  | [] => .error .invalidPattern
  | [c] =>
    if c = 'o' then steppedOf (compileCustom .duration invariantCulture "-D:hh:mm:ss.FFFFFFFFF".toList)
    else if c = 'j' then steppedOf (compileCustom .duration invariantCulture "-H:mm:ss.FFFFFFFFF".toList)
    else .error .invalidPattern
  | _ => steppedOf (compileCustom .duration cu text)

/-- the template value a LocalDateTime pattern object parses with: the built-in patterns behind the standard
    letters `o O r R s S` keep the default template whatever template was asked for -/
def effTmpl (tm : Tmpl) (text : Text) : Tmpl :=
  match text with
  | [c] => if c = 'o' ∨ c = 'O' ∨ c = 'r' ∨ c = 'R' ∨ c = 's' ∨ c = 'S' then Tmpl.default else tm
  | _ => tm

/-- the non-standard part of `_OffsetPatternParser.__parse_partial_pattern`: `%Z`, the `Z` prefix, the builder -/
def compileOffsetText (cu : Culture) (text : Text) : R Pat :=
  if text = ['%', 'Z'] then .error .invalidPattern          -- EMPTY_ZPREFIXED_OFFSET_PATTERN
  else
    match text with
    | 'Z' :: rest =>
      match compileCustom .offset cu rest with
      | .error e => .error e
      | .ok c => .ok (.zprefix (.stepped c))
    | _ => steppedOf (compileCustom .offset cu text)

def mapR {α β : Type} (f : α → β) (r : R α) : R β :=
  match r with
  | .error e => .error e
  | .ok a => .ok (f a)

def sequenceR {α : Type} : List (R α) → R (List α)
  | [] => .ok []
  | r :: rs =>
    match r with
    | .error e => .error e
    | .ok a =>
      match sequenceR rs with
      | .error e => .error e
      | .ok as => .ok (a :: as)

/-- `__parse_partial_pattern`; `depth` bounds the recursion through standard letters (`G` → `g` → the culture's
    pattern texts); a culture whose offset pattern texts are themselves single standard letters would recurse
    further — excluded by `Culture.offsetTextsCustom`, reported as `.other` -/
def compileOffsetAux (cu : Culture) : Nat → Text → R Pat
  | 0, _ => .error .other
  | d + 1, text =>
    match text with
    | [] => .error .invalidPattern
    | [c] =>
      if c = 'g' then
        mapR Pat.composite (sequenceR [compileOffsetAux cu d cu.offLong, compileOffsetAux cu d cu.offMedium, compileOffsetAux cu d cu.offShort])
      else if c = 'G' then mapR Pat.zprefix (compileOffsetAux cu d ['g'])
      else if c = 'i' then
        mapR Pat.composite (sequenceR [compileOffsetAux cu d cu.offLongNP, compileOffsetAux cu d cu.offMediumNP, compileOffsetAux cu d cu.offShortNP])
      else if c = 'I' then mapR Pat.zprefix (compileOffsetAux cu d ['i'])
      else if c = 'l' then compileOffsetText cu cu.offLong
      else if c = 'm' then compileOffsetText cu cu.offMedium
      else if c = 's' then compileOffsetText cu cu.offShort
      else if c = 'L' then compileOffsetText cu cu.offLongNP
      else if c = 'M' then compileOffsetText cu cu.offMediumNP
      else if c = 'S' then compileOffsetText cu cu.offShortNP
      else .error .invalidPattern
    | _ => compileOffsetText cu text

def compileOffset (cu : Culture) (text : Text) : R Pat := compileOffsetAux cu 3 text

/-- the culture's offset pattern texts are custom patterns (at least two characters) -/
def Culture.offsetTextsCustom (cu : Culture) : Bool :=
  [cu.offLong, cu.offMedium, cu.offShort, cu.offLongNP, cu.offMediumNP, cu.offShortNP].all (fun t => decide (2 ≤ t.length))

/-- the culture's date/time pattern texts that the LocalDateTime standard letters `f F g G` expand do not use the
    letter `l` (embedded patterns, outside the modelled subset) -/
def Culture.dtTextsNoL (cu : Culture) : Bool :=
  [cu.longDate, cu.shortTime, cu.fullDateTime, cu.shortDate, cu.longTime].all (fun t => !t.contains 'l')

def compile (ty : PType) (cu : Culture) (text : Text) : R Pat :=
  match ty with
  | .time => compileTime cu text
  | .date => compileDate cu text
  | .offset => compileOffset cu text
  | .datetime tm => compileDateTime tm cu text
  | .annual tm td => compileAnnual tm td cu text
  | .duration => compileDuration cu text

end Pyoda.Text
