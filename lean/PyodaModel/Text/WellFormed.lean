/-
  PyodaModel.Text.WellFormed — decidable well-formedness conditions of compiled date / date-time patterns and of
  culture records: the hypotheses of the success-value theorems (`PyodaProofs/C08DateTime.lean`), kept in the
  model so that the driver can evaluate them on the patterns and cultures of a run.
-/
import PyodaModel.Text.Buckets

namespace Pyoda.Text

/-! ### well-formedness of date / date-time patterns (hypotheses of `C08.date_success_valid`, `datetime_success_valid`) -/

/-- the steps the LocalDate / LocalDateTime handler tables can produce, with their field ranges -/
def dtStepWF : Step → Bool
  | .lit _ => true
  | .semi => true
  | .amPm _ => true
  | .monthText _ => true
  | .dayText _ => true
  | .era => true
  | .calendar => true
  | .frac count scale _ => decide (count ≤ 9) && decide (scale = 9)
  | .dotFrac count scale _ => decide (count ≤ 9) && decide (scale = 9)
  | .num _ st _ _ minV maxV =>
    (decide (st = .hours12) && decide (minV = 1) && decide (maxV = 12)) ||
    (decide (st = .hours24) && decide (minV = 0) && decide (maxV ≤ 24)) ||
    (decide (st = .minutes) && decide (minV = 0) && decide (maxV = 59)) ||
    (decide (st = .seconds) && decide (minV = 0) && decide (maxV = 59)) ||
    (decide (st = .year)) || (decide (st = .yearOfEra)) ||
    (decide (st = .monthNum) && decide (1 ≤ minV)) ||
    (decide (st = .dayOfMonth) && decide (1 ≤ minV))
  | _ => false

/-- does the step's parse action assign the slot? -/
def setsSlot (sl : Slot) : Step → Bool
  | .num _ st _ _ _ _ => decide (st = sl)
  | .monthText _ => decide (sl = .monthText)
  | _ => false

/-- every month / day field recorded in `used` has a step that assigns its slot -/
def fieldsSound (used : Nat) (steps : List Step) : Bool :=
  (!hasAny used F.monthNum || steps.any (setsSlot .monthNum)) &&
  (!hasAny used F.dayOfMonth || steps.any (setsSlot .dayOfMonth)) &&
  (!hasAny used F.monthText || steps.any (setsSlot .monthText))

/-- the month name tables start with the empty entry of index 0 (so a matched name has index ≥ 1) -/
def Culture.monthHeadsEmpty (cu : Culture) : Bool :=
  [cu.longMonths, cu.shortMonths, cu.longMonthsGen, cu.shortMonthsGen].all (fun t => decide (t.headD [] = []))


end Pyoda.Text
