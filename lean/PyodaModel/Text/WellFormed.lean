/-
  PyodaModel.Text.WellFormed — decidable well-formedness conditions of compiled date / date-time patterns and of
  culture records: the hypotheses of the success-value theorems (`PyodaProofs/C08DateTime.lean`), kept in the
  model so that the driver can evaluate them on the patterns and cultures of a run.
-/
import PyodaModel.Text.Buckets

namespace Pyoda.Text

/-! ### well-formedness of date / date-time patterns (hypotheses of `C08.date_success_valid`, `datetime_success_valid`) -/

/-- the steps the LocalDate / LocalDateTime handler tables can produce, with their field ranges -/
def dtStepWF : Step → Bool
  | .lit _ => true
  | .semi => true
  | .amPm _ => true
  | .monthText _ => true
  | .dayText _ => true
  | .era => true
  | .eraC _ => true
  | .calendar => true
  | .frac count scale _ => decide (count ≤ 9) && decide (scale = 9)
  | .dotFrac count scale _ => decide (count ≤ 9) && decide (scale = 9)
  | .num _ st _ _ minV maxV =>
    (decide (st = .hours12) && decide (minV = 1) && decide (maxV = 12)) ||
    (decide (st = .hours24) && decide (minV = 0) && decide (maxV ≤ 24)) ||
    (decide (st = .minutes) && decide (minV = 0) && decide (maxV = 59)) ||
    (decide (st = .seconds) && decide (minV = 0) && decide (maxV = 59)) ||
    (decide (st = .year)) || (decide (st = .yearOfEra)) ||
    (decide (st = .monthNum) && decide (1 ≤ minV)) ||
    (decide (st = .dayOfMonth) && decide (1 ≤ minV))
  | _ => false

/-- does the step's parse action assign the slot? -/
def setsSlot (sl : Slot) : Step → Bool
  | .num _ st _ _ _ _ => decide (st = sl)
  | .monthText _ => decide (sl = .monthText)
  | _ => false

/-- every month / day field recorded in `used` has a step that assigns its slot -/
def fieldsSound (used : Nat) (steps : List Step) : Bool :=
  (!hasAny used F.monthNum || steps.any (setsSlot .monthNum)) &&
  (!hasAny used F.dayOfMonth || steps.any (setsSlot .dayOfMonth)) &&
  (!hasAny used F.monthText || steps.any (setsSlot .monthText))

/-- the month name tables start with the empty entry of index 0 (so a matched name has index ≥ 1) -/
def Culture.monthHeadsEmpty (cu : Culture) : Bool :=
  [cu.longMonths, cu.shortMonths, cu.longMonthsGen, cu.shortMonthsGen].all (fun t => decide (t.headD [] = []))


/-- the steps the LocalTime handler table can produce (field ranges as in `_LocalTimePatternParser`) -/
def timeStepWF : Step → Bool
  | .lit _ => true
  | .semi => true
  | .amPm _ => true
  | .frac count scale _ => decide (count ≤ 9) && decide (scale = 9)
  | .dotFrac count scale _ => decide (count ≤ 9) && decide (scale = 9)
  | .num _ st _ _ minV maxV =>
    (decide (st = .hours12) && decide (minV = 1) && decide (maxV = 12)) ||
    (decide (st = .hours24) && decide (minV = 0) && decide (maxV = 23)) ||
    (decide (st = .minutes) && decide (minV = 0) && decide (maxV = 59)) ||
    (decide (st = .seconds) && decide (minV = 0) && decide (maxV = 59))
  | _ => false

/-- the slot a step's parse action assigns, if any -/
def stepSets : Step → Option Slot
  | .num _ st _ _ _ _ => some st
  | .frac _ _ _ => some .fraction
  | .dotFrac _ _ _ => some .fraction
  | .signRequired => some .sign
  | .signNegativeOnly => some .sign
  | .amPm _ => some .amPm
  | .monthText _ => some .monthText
  | .dayText _ => some .dayOfWeek
  | .era => some .era
  | .eraC _ => some .era
  | .calendar => some .calendar
  | _ => none

def plainSteps : List Seg → List Step
  | [] => []
  | .plain ss :: segs => ss ++ plainSteps segs
  | _ :: segs => plainSteps segs

def isDateSeg : Seg → Bool
  | .date _ => true
  | _ => false

def isTimeSeg : Seg → Bool
  | .time _ => true
  | _ => false

def segInnerWF : Seg → Bool
  | .plain _ => true
  | .date c => c.steps.all dtStepWF && fieldsSound c.used c.steps && c.cu.monthHeadsEmpty
  | .time c => c.steps.all timeStepWF

/-- well-formedness of a LocalDateTime pattern with embedded parts (the hypothesis of
    `C08.parseSegmented_valid`; evaluated by the driver on the patterns of a run): plain steps and embedded patterns
    are well formed and account for the used fields; when the pattern has an embedded date (time), one is there and
    no plain step assigns the year / month / day (hour / minute / second / fraction) slots -/
def segWF (cu : Culture) (used : Nat) (segs : List Seg) : Bool :=
  (plainSteps segs).all dtStepWF && fieldsSound used (plainSteps segs) && cu.monthHeadsEmpty && segs.all segInnerWF &&
  (!hasAny used F.embeddedDate ||
    (segs.any isDateSeg && (plainSteps segs).all (fun s => stepSets s ≠ some .year && stepSets s ≠ some .monthNum &&
      stepSets s ≠ some .dayOfMonth))) &&
  (!hasAny used F.embeddedTime ||
    (segs.any isTimeSeg && (plainSteps segs).all (fun s => stepSets s ≠ some .hours24 && stepSets s ≠ some .minutes &&
      stepSets s ≠ some .seconds && stepSets s ≠ some .fraction))) &&
  -- with an embedded date no plain step assigns the bucket's calendar either (`_build` excludes the calendar field)
  (!hasAny used F.embeddedDate || (plainSteps segs).all (fun s => stepSets s ≠ some .calendar))

/-! ### name tables: the decidable conditions of the text-step round-trip theorems (`PyodaProofs/C07Text.lean`)

  `_add_parse_longest_text_action` takes the longest candidate (first table, then second) that matches the text
  case-insensitively; a formatted name `a` of index `K` is read back as `K`, consuming exactly `a`, when
  * no other position of either table holds a name of the same length equal to `a` up to case (`nameOK`), and
  * the text that follows does not continue `a` into a longer candidate: its first character (lower-cased) is none
    of `dangerChars` — the characters by which some candidate strictly extends `a` (`tailSafe`). -/

def ciEq (low : Char → Char) (x y : Text) : Bool := decide (x.map low = y.map low)

/-- `c` is strictly longer than `a` and starts with `a` up to ASCII case -/
def strictExt (low : Char → Char) (c a : Text) : Bool := decide (a.length < c.length) && ciEq low (c.take a.length) a

/-- does a position other than `K` (positions counted from `i`) hold a name of `a`'s length equal to `a` up to case? -/
def clashAt (low : Char → Char) (a : Text) (K : Nat) : List Text → Nat → Bool
  | [], _ => false
  | c :: cs, i => (decide (i ≠ K) && decide (c.length = a.length) && ciEq low c a) || clashAt low a K cs (i + 1)

/-- the (lower-cased) characters by which candidates strictly extend `a` -/
def dangerOf (low : Char → Char) (a : Text) : List Text → List Char
  | [] => []
  | c :: cs => if strictExt low c a then low (c.getD a.length ' ') :: dangerOf low a cs else dangerOf low a cs

def nameOK (low : Char → Char) (t1 : List Text) (t2 : Option (List Text)) (K : Nat) (a : Text) : Bool :=
  decide (a ≠ []) && !clashAt low a K t1 0 && !clashAt low a K (t2.getD []) 0

def dangerChars (low : Char → Char) (t1 : List Text) (t2 : Option (List Text)) (a : Text) : List Char :=
  dangerOf low a t1 ++ dangerOf low a (t2.getD [])

/-- the following text does not start (up to case) with one of the characters `ds` -/
def tailSafe (low : Char → Char) (ds : List Char) : Text → Bool
  | [] => true
  | x :: _ => !ds.contains (low x)

/-- the second table of the month parse action (`None` when genitive and plain names coincide) -/
def monthSecond (cu : Culture) (count : Nat) : Option (List Text) :=
  if monthTable cu count false = monthTable cu count true then none else some (monthTable cu count false)

/-- **NamesOK** for month names: every month 1 … 12 of the table used on format (`genitive` = the pattern has a
    day-of-month field) has a non-empty name that no other position of the parse tables repeats up to case -/
def monthNamesOK (cu : Culture) (count : Nat) (genitive : Bool) : Bool :=
  (List.range 12).all fun k =>
    match (monthTable cu count genitive)[k + 1]? with
    | some a => nameOK (lowC cu) (monthTable cu count true) (monthSecond cu count) (k + 1) a
    | none => false

def monthDanger (cu : Culture) (count : Nat) (genitive : Bool) : List Char :=
  (List.range 12).flatMap fun k =>
    dangerChars (lowC cu) (monthTable cu count true) (monthSecond cu count) ((monthTable cu count genitive).getD (k + 1) [])

/-- **NamesOK** for day names (Monday = 1 … Sunday = 7) -/
def dayNamesOK (cu : Culture) (count : Nat) : Bool :=
  (List.range 7).all fun k =>
    match (dayTable cu count)[k + 1]? with
    | some a => nameOK (lowC cu) (dayTable cu count) none (k + 1) a
    | none => false

def dayDanger (cu : Culture) (count : Nat) : List Char :=
  (List.range 7).flatMap fun k => dangerChars (lowC cu) (dayTable cu count) none ((dayTable cu count).getD (k + 1) [])

/-- am/pm designators can be told apart by the parse action: `t` compares first characters (am first), `tt` tries
    the longer designator first, so the shorter must not be a prefix of it up to case.  With an empty designator
    nothing is required here (`amPmDanger`). -/
def amPmOK (cu : Culture) (count : Nat) : Bool :=
  if cu.am = [] ∨ cu.pm = [] then true
  else if count = 1 then !ciEq (lowC cu) (cu.am.take 1) (cu.pm.take 1)
  else
    let pmLonger := decide (cu.pm.length > cu.am.length)
    let longer := if pmLonger then cu.pm else cu.am
    let shorter := if pmLonger then cu.am else cu.pm
    !ciEq (lowC cu) (longer.take shorter.length) shorter

/-- one designator empty: the other half-day writes nothing, and the text that follows must then not start with the
    specified designator's first character -/
def amPmDanger (cu : Culture) (_count : Nat) : List Char :=
  if cu.am = [] ∧ cu.pm = [] then []
  else if cu.am = [] then (cu.pm.take 1).map (lowC cu)
  else if cu.pm = [] then (cu.am.take 1).map (lowC cu)
  else []

/-- scan of the era names in parse order for the primary name `P` of era `e`: `some ds` = the first name that
    matches `P` itself is a name of era `e` of `P`'s length, `ds` the characters by which earlier names extend `P` -/
def eraScan (low : Char → Char) (P : Text) (e : Int) : List (Int × Text) → Option (List Char)
  | [] => none
  | (e', n) :: ns =>
    if decide (n.length ≤ P.length) && ciEq low (P.take n.length) n then
      (if n.length = P.length ∧ e' = e then some [] else none)
    else if strictExt low n P then (eraScan low P e ns).map (fun ds => low (n.getD P.length ' ') :: ds)
    else eraScan low P e ns

def eraCands (cu : Culture) : List (Int × Text) :=
  cu.eraNamesBCE.map (fun n => ((0 : Int), n)) ++ cu.eraNamesCE.map (fun n => ((1 : Int), n))

def eraPrimary (cu : Culture) (e : Int) : Text := if e = 1 then cu.eraPrimaryCE else cu.eraPrimaryBCE

/-- the primary era names are read back as their era -/
def eraOK (cu : Culture) : Bool :=
  (eraScan (lowC cu) cu.eraPrimaryBCE 0 (eraCands cu)).isSome && (eraScan (lowC cu) cu.eraPrimaryCE 1 (eraCands cu)).isSome &&
    decide (cu.eraPrimaryBCE ≠ []) && decide (cu.eraPrimaryCE ≠ [])

def eraDanger (cu : Culture) : List Char :=
  (eraScan (lowC cu) cu.eraPrimaryBCE 0 (eraCands cu)).getD [] ++ (eraScan (lowC cu) cu.eraPrimaryCE 1 (eraCands cu)).getD []

/-- the same for the only era of the single-era calendar `cal`: its primary name is read back as that era -/
def eraCandsC (cu : Culture) (cal : Nat) : List (Int × Text) :=
  (eraNamesOf cu (eraIdOfCal cal)).map (fun n => (eraIdOfCal cal, n))

def eraCOK (cu : Culture) (cal : Nat) : Bool :=
  (eraScan (lowC cu) (eraPrimaryOf cu (eraIdOfCal cal)) (eraIdOfCal cal) (eraCandsC cu cal)).isSome &&
    decide (eraPrimaryOf cu (eraIdOfCal cal) ≠ [])

def eraCDanger (cu : Culture) (cal : Nat) : List Char :=
  (eraScan (lowC cu) (eraPrimaryOf cu (eraIdOfCal cal)) (eraIdOfCal cal) (eraCandsC cu cal)).getD []

end Pyoda.Text
