/-
  PyodaModel.Text.Iso — the built-in ISO patterns as straight-line format / parse functions over `List Char`.

  Patterns (invariant culture):
    LocalDatePattern.iso                 uuuu'-'MM'-'dd
    LocalTimePattern.extended_iso        HH':'mm':'ss;FFFFFFFFF
    LocalTimePattern.long_extended_iso   HH':'mm':'ss;fffffffff
    LocalTimePattern.general_iso         HH':'mm':'ss
    LocalDateTimePattern.extended_iso    uuuu'-'MM'-'dd'T'HH':'mm':'ss;FFFFFFFFF
    LocalDateTimePattern.general_iso     uuuu'-'MM'-'dd'T'HH':'mm':'ss
    LocalDateTimePattern.bcl_round_trip  uuuu'-'MM'-'dd'T'HH':'mm':'ss'.'fffffff
    InstantPattern.extended_iso/general  the date-time patterns followed by 'Z' (over the UTC date-time fields;
                                         the Instant <-> date-time conversion is outside this model)
    OffsetPattern g / G                  composite of +HH:mm:ss, +HH:mm, +HH; G adds the `Z` special case

  Each function is the composition of the format / parse actions that `_SteppedPatternBuilder` builds for the
  pattern text (`_handle_padded_field`, `_add_literal`, `_TimePatternHelper` fraction handlers) followed by the
  bucket's `calculate_value` and the end-of-text test of `_SteppedPattern.parse`.

  Results: `R (Option α)` — `.ok (some v)` a success, `.ok none` a failure *result*, `.error e` an exception
  escaping `parse`.  The value-assembly steps that can raise in the code are kept with their raise
  (`offsetFromSeconds`, `plusOneDay`); the parsers carry the REPAIRED guards in front of them
  (DESIGN.md section 7 rows 5, 16, 17, 18): year range check in the ISO fast path, offset range check,
  `OverflowError` of the 24:00 roll-over turned into a failure, end of text decided by position.
  A date is the triple (year, month, day): `_YearMonthDayCalendar` fields; no day numbers are involved.
-/
import PyodaModel.Text.Numeric

namespace Pyoda.Text

/-! ### value accessors used by the format actions -/

/-- `LocalTime.hour` -/
def ltHour (nod : Int) : Int := Int.tdiv (nod >>> 13) 439453125
/-- `LocalTime.minute` -/
def ltMinute (nod : Int) : Int := csharpMod (Int.tdiv (nod >>> 11) 29296875) 60
/-- `LocalTime.second` -/
def ltSecond (nod : Int) : Int := csharpMod (Int.tdiv nod NPS) 60
/-- `LocalTime.nanosecond_of_second` -/
def ltNano (nod : Int) : Int := int32Overflow (csharpMod nod NPS)
/-- `LocalTime._from_hour_minute_second_nanosecond_trusted` (no validation) -/
def ltFromHmsn (h m s n : Int) : Int := h * NPH + m * NPMin + s * NPS + n

/-- `_GregorianYearMonthDayCalculator._is_leap_year` -/
def isLeap (y : Int) : Bool := decide (y % 4 = 0) && (decide (y % 100 ≠ 0) || decide (y % 400 = 0))

/-- `CalendarSystem.iso.get_days_in_month(year, month)` for `1 ≤ month ≤ 12` -/
def daysInMonth (y m : Int) : Int :=
  if m = 2 then (if isLeap y then 29 else 28)
  else if m = 4 ∨ m = 6 ∨ m = 9 ∨ m = 11 then 30 else 31

def ISO_MIN_YEAR : Int := -9998
def ISO_MAX_YEAR : Int := 9999

/-- a valid ISO-calendar `LocalDate` -/
def validDate (y m d : Int) : Prop :=
  ISO_MIN_YEAR ≤ y ∧ y ≤ ISO_MAX_YEAR ∧ 1 ≤ m ∧ m ≤ 12 ∧ 1 ≤ d ∧ d ≤ daysInMonth y m

instance (y m d : Int) : Decidable (validDate y m d) := by unfold validDate; infer_instance

/-! ### format -/

def fmtIsoDate (y m d : Int) : Text :=
  format4 y ++ ['-'] ++ format2 m ++ ['-'] ++ format2 d

def fmtHms (nod : Int) : Text :=
  format2 (ltHour nod) ++ [':'] ++ format2 (ltMinute nod) ++ [':'] ++ format2 (ltSecond nod)

/-- `HH':'mm':'ss;FFFFFFFFF` appended to a buffer (the `;F` handler writes `.` and the truncating fraction
    removes it again when the fraction is zero) -/
def fmtIsoTimeOn (buf : Text) (nod : Int) : Text :=
  appendFractionTruncate (ltNano nod) 9 9 (buf ++ fmtHms nod ++ ['.'])

def fmtIsoTime (nod : Int) : Text := fmtIsoTimeOn [] nod
def fmtIsoTimeLong (nod : Int) : Text := fmtHms nod ++ ['.'] ++ appendFraction (ltNano nod) 9 9
def fmtIsoTimeGeneral (nod : Int) : Text := fmtHms nod

def fmtIsoDateTime (y m d nod : Int) : Text := fmtIsoTimeOn (fmtIsoDate y m d ++ ['T']) nod
def fmtIsoDateTimeGeneral (y m d nod : Int) : Text := fmtIsoDate y m d ++ ['T'] ++ fmtHms nod
def fmtIsoDateTimeBcl (y m d nod : Int) : Text :=
  fmtIsoDate y m d ++ ['T'] ++ fmtHms nod ++ ['.'] ++ appendFraction (ltNano nod) 7 9

def fmtIsoInstant (y m d nod : Int) : Text := fmtIsoDateTime y m d nod ++ ['Z']
def fmtInstantGeneral (y m d nod : Int) : Text := fmtIsoDateTimeGeneral y m d nod ++ ['Z']

/-- `Offset.milliseconds` -/
def offMillis (s : Int) : Int := s * 1000
def offHours (s : Int) : Int := Int.tdiv (offMillis s).natAbs 3600000
def offMinutes (s : Int) : Int := Int.tdiv (csharpMod (offMillis s).natAbs 3600000) 60000
def offSecs (s : Int) : Int := Int.tdiv (csharpMod (offMillis s).natAbs 60000) 1000
def offSign (s : Int) : Char := if offMillis s ≥ 0 then '+' else '-'

def fmtOffShort (s : Int) : Text := offSign s :: format2 (offHours s)
def fmtOffMedium (s : Int) : Text := fmtOffShort s ++ [':'] ++ format2 (offMinutes s)
def fmtOffLong (s : Int) : Text := fmtOffMedium s ++ [':'] ++ format2 (offSecs s)

/-- composite `g`: the last pattern whose predicate holds -/
def fmtOffG (s : Int) : Text :=
  if csharpMod s 3600 = 0 then fmtOffShort s
  else if csharpMod s 60 = 0 then fmtOffMedium s
  else fmtOffLong s

def fmtOffGZ (s : Int) : Text := if s = 0 then ['Z'] else fmtOffG s

/-! ### parse -/

/-- `_SteppedPattern.parse`: empty text is a failure; the pattern's actions and `calculate_value` run (`p`);
    then all text must have been used (repaired: by position). -/
def parseWhole {α : Type} (p : Text → R (Option (α × Text))) (l : Text) : R (Option α) :=
  if l = [] then .ok none else
  match p l with
  | .error e => .error e
  | .ok none => .ok none
  | .ok (some (v, rest)) => if rest = [] then .ok (some v) else .ok none

/-- parse actions of `uuuu'-'MM'-'dd` -/
def dateFields (l : Text) : Option ((Int × Int × Int) × Text) := do
  let (y, l) ← parseField 4 4 (-9999) 9999 l
  let l ← matchChar '-' l
  let (m, l) ← parseField 2 2 1 99 l
  let l ← matchChar '-' l
  let (d, l) ← parseField 2 2 1 99 l
  pure ((y, m, d), l)

/-- `_LocalDateParseBucket.__calculate_simple_iso_value` (repaired: the field range −9999…9999 of `u` is wider
    than the calendar's years, so the year is checked first) -/
def isoDateValue (y m d : Int) : Option (Int × Int × Int) :=
  if y > ISO_MAX_YEAR ∨ y < ISO_MIN_YEAR then none
  else if m > 12 then none
  else if d > 31 ∨ (d > 28 ∧ d > daysInMonth y m) then none
  else some (y, m, d)

def parseIsoDatePartial (l : Text) : R (Option ((Int × Int × Int) × Text)) :=
  match dateFields l with
  | none => .ok none
  | some ((y, m, d), rest) =>
    match isoDateValue y m d with
    | none => .ok none
    | some v => .ok (some (v, rest))

def parseIsoDate (l : Text) : R (Option (Int × Int × Int)) := parseWhole parseIsoDatePartial l

/-- kinds of sub-second part -/
inductive Frac where
  | none      -- nothing after `ss`
  | optF9     -- `;FFFFFFFFF`
  | dotf9     -- `;fffffffff`
  | dotf7     -- `'.'fffffff`
  deriving DecidableEq, Repr

/-- parse actions of the sub-second part; the value is the template's (0) when absent -/
def fracPart (k : Frac) (l : Text) : Option (Int × Text) :=
  match k with
  | .none => some (0, l)
  | .optF9 =>
    match (match matchChar '.' l with | some r => some r | none => matchChar ',' l) with
    | none => some (0, l)
    | some r => match parseFraction 9 9 1 r with
      | none => none
      | some (v, rest) => some ((v : Int), rest)
  | .dotf9 =>
    match (match matchChar '.' l with | some r => some r | none => matchChar ',' l) with
    | none => none
    | some r => match parseFraction 9 9 9 r with
      | none => none
      | some (v, rest) => some ((v : Int), rest)
  | .dotf7 =>
    match matchChar '.' l with
    | none => none
    | some r => match parseFraction 7 9 7 r with
      | none => none
      | some (v, rest) => some ((v : Int), rest)

/-- parse actions of `HH':'mm':'ss` + sub-second part; `maxH` is 23 for `LocalTime` patterns, 24 for
    `LocalDateTime` patterns -/
def timeFields (maxH : Int) (k : Frac) (l : Text) : Option ((Int × Int × Int × Int) × Text) := do
  let (h, l) ← parseField 2 2 0 maxH l
  let l ← matchChar ':' l
  let (m, l) ← parseField 2 2 0 59 l
  let l ← matchChar ':' l
  let (s, l) ← parseField 2 2 0 59 l
  let (n, l) ← fracPart k l
  pure ((h, m, s, n), l)

def parseTimePartial (k : Frac) (l : Text) : R (Option (Int × Text)) :=
  match timeFields 23 k l with
  | none => .ok none
  | some ((h, m, s, n), rest) => .ok (some (ltFromHmsn h m s n, rest))

def parseIsoTime (l : Text) : R (Option Int) := parseWhole (parseTimePartial .optF9) l
def parseIsoTimeLong (l : Text) : R (Option Int) := parseWhole (parseTimePartial .dotf9) l
def parseIsoTimeGeneral (l : Text) : R (Option Int) := parseWhole (parseTimePartial .none) l

/-- `LocalDate.plus_days(1)` on an ISO date: the next calendar day; `OverflowError` past the calendar's last day -/
def plusOneDay (y m d : Int) : R (Int × Int × Int) :=
  if d < daysInMonth y m then .ok (y, m, d + 1)
  else if m < 12 then .ok (y, m + 1, 1)
  else if y < ISO_MAX_YEAR then .ok (y + 1, 1, 1)
  else .error .overflowError

/-- `_LocalDateTimeParseBucket._combine_buckets` for the ISO date + `HH mm ss [fraction]` fields
    (repaired: the `OverflowError` of the 24:00 roll-over is a failure result) -/
def combineDateTime (y m d h mi s n : Int) : R (Option (Int × Int × Int × Int)) :=
  let hour24 := decide (h = 24)
  let h' := if hour24 then 0 else h
  match isoDateValue y m d with
  | none => .ok none
  | some (y, m, d) =>
    let t := ltFromHmsn h' mi s n
    if hour24 then
      if t ≠ 0 then .ok none
      else match plusOneDay y m d with
        | .error .overflowError => .ok none
        | .error e => .error e
        | .ok (y', m', d') => .ok (some (y', m', d', t))
    else .ok (some (y, m, d, t))

def parseDateTimePartial (k : Frac) (l : Text) : R (Option ((Int × Int × Int × Int) × Text)) :=
  match dateFields l with
  | none => .ok none
  | some ((y, m, d), l) =>
    match matchChar 'T' l with
    | none => .ok none
    | some l =>
      match timeFields 24 k l with
      | none => .ok none
      | some ((h, mi, s, n), rest) =>
        match combineDateTime y m d h mi s n with
        | .error e => .error e
        | .ok none => .ok none
        | .ok (some v) => .ok (some (v, rest))

def parseIsoDateTime (l : Text) : R (Option (Int × Int × Int × Int)) := parseWhole (parseDateTimePartial .optF9) l
def parseIsoDateTimeGeneral (l : Text) : R (Option (Int × Int × Int × Int)) := parseWhole (parseDateTimePartial .none) l
def parseIsoDateTimeBcl (l : Text) : R (Option (Int × Int × Int × Int)) := parseWhole (parseDateTimePartial .dotf7) l

/-- date-time pattern followed by the quoted literal `Z` -/
def parseInstantPartial (k : Frac) (l : Text) : R (Option ((Int × Int × Int × Int) × Text)) :=
  match dateFields l with
  | none => .ok none
  | some ((y, m, d), l) =>
    match matchChar 'T' l with
    | none => .ok none
    | some l =>
      match timeFields 24 k l with
      | none => .ok none
      | some ((h, mi, s, n), l) =>
        match matchChar 'Z' l with
        | none => .ok none
        | some rest =>
          match combineDateTime y m d h mi s n with
          | .error e => .error e
          | .ok none => .ok none
          | .ok (some v) => .ok (some (v, rest))

def parseIsoInstant (l : Text) : R (Option (Int × Int × Int × Int)) := parseWhole (parseInstantPartial .optF9) l
def parseInstantGeneral (l : Text) : R (Option (Int × Int × Int × Int)) := parseWhole (parseInstantPartial .none) l

/-- `Offset.from_seconds` -/
def offsetFromSeconds (s : Int) : R Int := do
  checkRange s (-64800) 64800
  pure s

/-- required sign (`+` handler): `-` or `+`, anything else is a failure -/
def signPart (l : Text) : Option (Bool × Text) :=
  match matchChar '-' l with
  | some r => some (true, r)
  | none => match matchChar '+' l with
    | some r => some (false, r)
    | none => none

/-- parse actions of `+HH`, `+HH:mm`, `+HH:mm:ss` (`n` = number of numeric fields) -/
def offFields (n : Nat) (l : Text) : Option ((Bool × Int × Int × Int) × Text) := do
  let (neg, l) ← signPart l
  let (h, l) ← parseField 2 2 0 23 l
  if n = 1 then pure ((neg, h, 0, 0), l) else
  let l ← matchChar ':' l
  let (m, l) ← parseField 2 2 0 59 l
  if n = 2 then pure ((neg, h, m, 0), l) else
  let l ← matchChar ':' l
  let (s, l) ← parseField 2 2 0 59 l
  pure ((neg, h, m, s), l)

/-- `_OffsetParseBucket.calculate_value` (repaired: hours 19…23 pass the `H` field range, so the total is
    checked before `Offset.from_seconds`) -/
def offsetValue (neg : Bool) (h m s : Int) : R (Option Int) :=
  let secs := h * 3600 + m * 60 + s
  let secs := if neg then -secs else secs
  if secs < -64800 ∨ secs > 64800 then .ok none
  else match offsetFromSeconds secs with
    | .error e => .error e
    | .ok v => .ok (some v)

def parseOffPartial (n : Nat) (l : Text) : R (Option (Int × Text)) :=
  match offFields n l with
  | none => .ok none
  | some ((neg, h, m, s), rest) =>
    match offsetValue neg h m s with
    | .error e => .error e
    | .ok none => .ok none
    | .ok (some v) => .ok (some (v, rest))

/-- composite `g` parse: long, medium, short in that order; every failure of a sub-pattern on a non-empty
    text continues with the next pattern -/
def parseOffG (l : Text) : R (Option Int) :=
  if l = [] then .ok none else
  match parseWhole (parseOffPartial 3) l with
  | .error e => .error e
  | .ok (some v) => .ok (some v)
  | .ok none =>
    match parseWhole (parseOffPartial 2) l with
    | .error e => .error e
    | .ok (some v) => .ok (some v)
    | .ok none => parseWhole (parseOffPartial 1) l

/-- `G`: the `Z` prefix wrapper -/
def parseOffGZ (l : Text) : R (Option Int) :=
  if l = ['Z'] then .ok (some 0) else parseOffG l

end Pyoda.Text
