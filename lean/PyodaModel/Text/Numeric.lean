/-
  PyodaModel.Text.Numeric — number rendering and scanning primitives of the text engine.
  Transcribed from pyoda_time/text/_format_helper.py (`_FormatHelper`) and
  pyoda_time/text/_value_cursor.py (`_ValueCursor._parse_digits/_parse_fraction/_parse_int64`).

  Text is `List Char`.  A value cursor positioned at index `i` of `value` is modelled by the remaining
  characters `value[i:]`; "end of text" is the empty list (the repaired end-of-text test compares the index
  with the length; the NUL sentinel of `_TextCursor.current` is not modelled).
  `digit.isdigit() and '0' <= digit <= '9'` is the range test `'0' ≤ c ≤ '9'` (every such character is a digit).
-/
import PyodaModel.Prelude

namespace Pyoda.Text

abbrev Text := List Char

def digitChar (d : Nat) : Char := Char.ofNat (48 + d % 10)
def isDigit (c : Char) : Bool := decide (48 ≤ c.toNat) && decide (c.toNat ≤ 57)
def digitVal (c : Char) : Nat := c.toNat - 48

/-- the `n` least significant decimal digits of `v`, least significant first -/
def digitsLE : Nat → Nat → List Char
  | 0, _ => []
  | n + 1, v => digitChar (v % 10) :: digitsLE n (v / 10)

/-- `v mod 10^n` written with exactly `n` digits, most significant first -/
def padN (n v : Nat) : Text := (digitsLE n v).reverse

def numDigitsAux : Nat → Nat → Nat
  | 0, _ => 1
  | f + 1, n => if n < 10 then 1 else numDigitsAux f (n / 10) + 1

/-- number of decimal digits of `n` (`len(str(n))`) -/
def numDigits (n : Nat) : Nat := numDigitsAux n n

/-- `_left_pad_non_negative`: `f"{value:0>{length}}"` for `value ≥ 0` -/
def leftPadNonNeg (v len : Nat) : Text := padN (max len (numDigits v)) v

/-- number of zeros taken by `"000000"[16 - length:]` when `length > 10` (Python slice semantics) -/
def intMinZeros (len : Nat) : Nat :=
  if len ≤ 10 then 0 else if len ≤ 16 then len - 10 else min 6 (len - 16)

/-- `_FormatHelper._left_pad(value, length)` -/
def leftPad (v : Int) (len : Nat) : Text :=
  if v ≥ 0 then leftPadNonNeg v.toNat len
  else if v = -2147483648 then
    '-' :: (List.replicate (intMinZeros len) '0' ++ ['2', '1', '4', '7', '4', '8', '3', '6', '4', '8'])
  else '-' :: leftPadNonNeg (-v).toNat len

/-- Python `f"{v:0{n}d}"` (sign-aware zero padding to total width `n`) -/
def padSigned (v : Int) (n : Nat) : Text :=
  if v ≥ 0 then leftPadNonNeg v.toNat n else '-' :: leftPadNonNeg (-v).toNat (n - 1)

/-- `_format_2_digits_non_negative`: `f"{value:02}"` -/
def format2 (v : Int) : Text := padSigned v 2

/-- `_format_4_digits_value_fits` -/
def format4 (v : Int) : Text :=
  if v < 0 then '-' :: padSigned (-v) 4 else padSigned v 4

/-- `k` times `value = _towards_zero_division(value, 10)` -/
def iterTdiv10 : Nat → Int → Int
  | 0, v => v
  | k + 1, v => iterTdiv10 k (Int.tdiv v 10)

/-- `_append_fraction(value, length, scale)` (the appended characters) -/
def appendFraction (v : Int) (len scale : Nat) : Text :=
  padSigned (iterTdiv10 (scale - len) v) len

/-- the trailing-zero loop of `_append_fraction_truncate` -/
def stripZeros : Nat → Int → Int × Nat
  | 0, r => (r, 0)
  | n + 1, r => if csharpMod r 10 ≠ 0 then (r, n + 1) else stripZeros n (Int.tdiv r 10)

/-- `_append_fraction_truncate(value, length, scale, output_buffer)`: the new buffer contents -/
def appendFractionTruncate (v : Int) (len scale : Nat) (buf : Text) : Text :=
  let p := stripZeros len (iterTdiv10 (scale - len) v)
  if p.2 > 0 then buf ++ padSigned p.1 p.2
  else if buf.getLast? = some '.' then buf.dropLast else buf

/-- digit scanning loop shared by `_parse_digits` and `_parse_fraction`:
    at most `max` digits; returns value, count and the remaining text -/
def scanDigits : Nat → Nat → Nat → Text → Nat × Nat × Text
  | 0, acc, cnt, l => (acc, cnt, l)
  | _ + 1, acc, cnt, [] => (acc, cnt, [])
  | m + 1, acc, cnt, c :: l =>
    if isDigit c then scanDigits m (acc * 10 + digitVal c) (cnt + 1) l else (acc, cnt, c :: l)

/-- `_parse_digits(minimum_digits, maximum_digits)`: value and remaining text, `none` = `(False, _)` -/
def parseDigits (min max : Nat) (l : Text) : Option (Nat × Text) :=
  let r := scanDigits max 0 0 l
  if r.2.1 < min then none else some (r.1, r.2.2)

/-- `_parse_fraction(maximum_digits, scale, minimum_digits)`.  The float step
    `int(result * math.pow(10.0, scale - count))` is modelled by its exact integer meaning; it is exact
    when `count ≤ scale ≤ 15` (product below 2^53); the handler answers `!dom` elsewhere. -/
def parseFraction (max scale min : Nat) (l : Text) : Option (Nat × Text) :=
  if l.length < min then none else
  let r := scanDigits max 0 0 l
  if r.2.1 < min then none else some (r.1 * 10 ^ (scale - r.2.1), r.2.2)

def INT64_LIM : Nat := 922337203685477580

/-- first loop of `_parse_int64` -/
def int64Loop : Nat → Nat → Nat → Text → Nat × Nat × Text
  | 0, r, c, l => (r, c, l)
  | _ + 1, r, c, [] => (r, c, [])
  | f + 1, r, c, d :: l =>
    if r < INT64_LIM then
      (if isDigit d then int64Loop f (r * 10 + digitVal d) (c + 1) l else (r, c, d :: l))
    else (r, c, d :: l)

def headDigit? (l : Text) : Option Nat :=
  match l with
  | c :: _ => if isDigit c then some (digitVal c) else none
  | [] => none

/-- `_parse_int64()`: value and remaining text; `none` = a failure result (cursor moved back) -/
def parseInt64 (l : Text) : Option (Int × Text) :=
  let neg := l.head? = some '-'
  let l1 := if neg then l.tail else l
  if neg ∧ l1 = [] then none else
  let r := int64Loop l1.length 0 0 l1
  let res := r.1
  let l2 := r.2.2
  if r.2.1 = 0 then none else
  match (if res ≥ INT64_LIM then headDigit? l2 else none) with
  | some d =>
    if res > INT64_LIM then none
    else if neg ∧ d = 8 then some (-9223372036854775808, l2.tail)
    else if d > 7 then none
    else
      let res' := res * 10 + d
      let l3 := l2.tail
      if (headDigit? l3).isSome then none
      else some (if neg then -(res' : Int) else (res' : Int), l3)
  | none => some (if neg then -(res : Int) else (res : Int), l2)

/-- `cursor._match(c)` for a one-character string -/
def matchChar (c : Char) (l : Text) : Option Text :=
  match l with
  | d :: r => if d = c then some r else none
  | [] => none

/-- `cursor._match(s)` -/
def matchText (s l : Text) : Option Text :=
  if l.take s.length = s then some (l.drop s.length) else none

/-- the parse action built by `_add_parse_value_action(min_digits, max_digits, _, min_value, max_value, …)`:
    optional `-` (rejected when the field cannot be negative), digits, range check.
    `none` = a failure result. -/
def parseField (minD maxD : Nat) (minV maxV : Int) (l : Text) : Option (Int × Text) :=
  let neg := (matchChar '-' l).isSome
  let l1 := if neg then l.tail else l
  if neg ∧ minV ≥ 0 then none else
  match parseDigits minD maxD l1 with
  | none => none
  | some (v, rest) =>
    let v' : Int := if neg then -(v : Int) else (v : Int)
    if v' < minV ∨ v' > maxV then none else some (v', rest)

end Pyoda.Text
