/-
  PyodaModel.Text.Engine — the generic format / parse engine of `_SteppedPatternBuilder.__SteppedPattern`:
  `formatSteps` runs the format actions over an output buffer, `parseSteps` runs the parse actions over the
  remaining text and a field bucket.  One `Step` = one format-action/parse-action pair built by the handlers
  (`_add_literal`, `_add_parse_value_action` + `add_format_left_pad`, the fraction handlers of
  `_TimePatternHelper`, `add_required_sign` / `add_negative_only_sign`, the am/pm handler, the month/day text
  handlers of `_DatePatternHelper` with `_add_parse_longest_text_action`).

  Values are seen through accessors `Slot → Int`; buckets are assignments `Slot → Int`.
  `str.lower()` is modelled on ASCII only (`asciiLower`); the protocol handler answers `!dom` when a text step
  meets non-ASCII characters.  Eras are numbered (0 = BCE, 1 = CE, 2 … 6 the single eras of the other calendars); the
  era step `.era` reads the names of BCE and CE (template value in the ISO, Gregorian or Julian calendar), `.eraC cal`
  those of the only era of calendar `cal`; the calendar step writes the id of the value's calendar and assigns the
  bucket's calendar slot from the id it reads (all 19 calendars).
-/
import PyodaModel.Text.Stepped
import PyodaModel.Text.Iso

namespace Pyoda.Text

abbrev Getter := Slot → Int
abbrev Bucket := Slot → Int

def Bucket.set (b : Bucket) (s : Slot) (v : Int) : Bucket := fun t => if t = s then v else b t

/-! ### format -/

/-- decimal digits of a natural number (`str(n)`) -/
def natDigits (n : Nat) : Text := padN (numDigits n) n

/-- `_left_pad_non_negative(value, length)` = `f"{value:0>{length}}"`, literally (also for a negative value,
    where Python right-aligns the signed text: `-5` at width 3 is `0-5`) -/
def leftPadFill (v : Int) (len : Nat) : Text :=
  if v ≥ 0 then leftPadNonNeg v.toNat len
  else
    let s := '-' :: natDigits (-v).toNat
    List.replicate (len - s.length) '0' ++ s

/-- `add_format_left_pad(count, selector, assume_non_negative, assume_fits_in_count)` -/
def formatNum (count maxCount : Nat) (minV : Int) (v : Int) : Text :=
  if count = 2 ∧ minV ≥ 0 ∧ count = maxCount then format2 v
  else if count = 4 ∧ count = maxCount then format4 v
  else if minV ≥ 0 then leftPadFill v count
  else leftPad v count

/-- Python list indexing `table[i]` (negative indices count from the end) -/
def pyIndex (table : List Text) (i : Int) : R Text :=
  let n : Int := table.length
  let j := if i < 0 then i + n else i
  if j < 0 ∨ j ≥ n then .error .indexError
  else match table[j.toNat]? with
    | some t => .ok t
    | none => .error .indexError

def monthTable (cu : Culture) (count : Nat) (genitive : Bool) : List Text :=
  if count = 3 then (if genitive then cu.shortMonthsGen else cu.shortMonths)
  else (if genitive then cu.longMonthsGen else cu.longMonths)

/-- `_MonthFormatActionHandler.build_format_action`: genitive names iff the finished pattern has a day of month -/
def genitiveOf (used : Nat) : Bool := decide (used &&& F.dayOfMonth ≠ 0)

def dayTable (cu : Culture) (count : Nat) : List Text :=
  if count = 3 then cu.shortDays else cu.longDays

/-- the am/pm format action (four cases of `_create_am_pm_handler`) -/
def formatAmPm (cu : Culture) (count : Nat) (hour : Int) : Text :=
  if cu.am = [] ∧ cu.pm = [] then []
  else if cu.am = [] ∨ cu.pm = [] then
    let sv : Int := if cu.am = [] then 1 else 0
    let sd := if sv = 1 then cu.pm else cu.am
    let sd := if count = 1 then sd.take 1 else sd
    if Int.tdiv hour 12 = sv then sd else []
  else if count = 1 then (if hour > 11 then cu.pm.take 1 else cu.am.take 1)
  else (if hour > 11 then cu.pm else cu.am)

/-- `CalendarSystem.ids` (the order the calendar field's parse action tries them in) -/
def calendarIds : List Text :=
  ["Badi", "Coptic", "Gregorian", "Hebrew Civil", "Hebrew Scriptural", "Hijri Civil-Base15", "Hijri Astronomical-Base15",
   "Hijri Civil-Base16", "Hijri Astronomical-Base16", "Hijri Civil-Indian", "Hijri Astronomical-Indian",
   "Hijri Civil-HabashAlHasib", "Hijri Astronomical-HabashAlHasib", "ISO", "Julian", "Persian Simple",
   "Persian Arithmetic", "Persian Algorithmic", "Um Al Qura"].map String.toList

def isoId : Text := ['I', 'S', 'O']

/-- calendar ids by `_CalendarOrdinal` (0 = ISO … 18 = Badi) -/
def calOrdIds : List Text :=
  ["ISO", "Gregorian", "Julian", "Coptic", "Hebrew Civil", "Hebrew Scriptural", "Persian Simple", "Persian Arithmetic",
   "Persian Algorithmic", "Hijri Astronomical-Base15", "Hijri Astronomical-Base16", "Hijri Astronomical-Indian",
   "Hijri Astronomical-HabashAlHasib", "Hijri Civil-Base15", "Hijri Civil-Base16", "Hijri Civil-Indian",
   "Hijri Civil-HabashAlHasib", "Um Al Qura", "Badi"].map String.toList

/-- `calendar.id` of the calendar with ordinal `k` (the ISO id for a number that is no ordinal) -/
def idOfOrd (k : Int) : Text := if k < 0 then isoId else calOrdIds.getD k.toNat isoId

/-- position of `i` in a list (length of the list when absent) -/
def indexOfText (i : Text) : List Text → Nat
  | [] => 0
  | x :: xs => if x = i then 0 else indexOfText i xs + 1

/-- `CalendarSystem.for_id(id)._ordinal` -/
def ordOfId (i : Text) : Int := (indexOfText i calOrdIds : Nat)

/-! eras: ids 0 = BCE, 1 = CE (ISO, Gregorian, Julian), 2 = anno martyrum (Coptic), 3 = anno mundi (Hebrew),
    4 = anno persico, 5 = anno hegirae (Hijri, Um Al Qura), 6 = Bahá'í -/

/-- the only era of the single-era calendar with ordinal `cal` (3 … 18) -/
def eraIdOfCal (cal : Nat) : Int :=
  if cal = 3 then 2 else if cal = 4 ∨ cal = 5 then 3 else if 6 ≤ cal ∧ cal ≤ 8 then 4
  else if 9 ≤ cal ∧ cal ≤ 17 then 5 else 6

/-- `format_info.get_era_primary_name(era)` by era id -/
def eraPrimaryOf (cu : Culture) (e : Int) : Text :=
  if 2 ≤ e then cu.eraPrimaryX.getD (e - 2).toNat []
  else if e = 1 then cu.eraPrimaryCE else cu.eraPrimaryBCE

/-- `format_info.get_era_names(era)` by era id -/
def eraNamesOf (cu : Culture) (e : Int) : List Text :=
  if 2 ≤ e then cu.eraNamesX.getD (e - 2).toNat []
  else if e = 1 then cu.eraNamesCE else cu.eraNamesBCE

/-- one format action; `used` is the pattern's final field set (month text is genitive iff a day of month is present) -/
def formatStep (cu : Culture) (used : Nat) (get : Getter) (buf : Text) : Step → R Text
  | .lit s => .ok (buf ++ s)
  | .num g _ count maxCount minV _ => .ok (buf ++ formatNum count maxCount minV (get g))
  | .frac count scale fixed =>
    if fixed then .ok (buf ++ appendFraction (get .fraction) count scale)
    else .ok (appendFractionTruncate (get .fraction) count scale buf)
  | .dotFrac count scale _ => .ok (appendFractionTruncate (get .fraction) count scale (buf ++ ['.']))
  | .semi => .ok (buf ++ ['.'])
  | .signRequired => .ok (buf ++ [if get .sign = 0 then '+' else '-'])
  | .signNegativeOnly => .ok (if get .sign = 0 then buf else buf ++ ['-'])
  | .amPm count => .ok (buf ++ formatAmPm cu count (get .hours24))
  | .monthText count =>
    -- (as repaired) a month the culture's table has no entry for — months 14 … 19 of the Badi calendar — has no name
    if get .monthNum ≥ (monthTable cu count (genitiveOf used)).length then .ok buf
    else
    match pyIndex (monthTable cu count (genitiveOf used)) (get .monthNum) with
    | .error e => .error e
    | .ok t => .ok (buf ++ t)
  | .dayText count =>
    match pyIndex (dayTable cu count) (get .dayOfWeek) with
    | .error e => .error e
    | .ok t => .ok (buf ++ t)
  | .era => .ok (buf ++ eraPrimaryOf cu (get .era))
  | .eraC _ => .ok (buf ++ eraPrimaryOf cu (get .era))
  | .calendar => .ok (buf ++ idOfOrd (get .calendar))

def formatSteps (cu : Culture) (used : Nat) (get : Getter) : List Step → Text → R Text
  | [], buf => .ok buf
  | s :: ss, buf =>
    match formatStep cu used get buf s with
    | .error e => .error e
    | .ok buf' => formatSteps cu used get ss buf'

/-! ### parse -/

def asciiLower (c : Char) : Char :=
  if 65 ≤ c.toNat ∧ c.toNat ≤ 90 then Char.ofNat (c.toNat + 32) else c

def lookupFold (c : Char) : List (Char × Char) → Option Char
  | [] => none
  | (a, b) :: t => if a = c then some b else lookupFold c t

/-- `str.lower()` on one character: ASCII by `asciiLower`, other characters by the run's table (a character the table
    does not list is left alone; the protocol handler answers `!dom` for texts with such characters) -/
def lowC (cu : Culture) (c : Char) : Char :=
  if c.toNat < 128 then asciiLower c else (lookupFold c cu.fold).getD c

/-- `_match_case_insensitive(match, move_on_success)` (`substring.lower() == match.lower()`, character by character
    with the folding `low`): the remaining text when it matches -/
def matchCI (low : Char → Char) (s l : Text) : Option Text :=
  if s.length > l.length then none
  else if (l.take s.length).map low = s.map low then some (l.drop s.length) else none

/-- `__find_longest_match`: candidates no longer than the best so far are skipped -/
def findLongest (low : Char → Char) (l : Text) : List Text → Nat → Int → Nat → Int × Nat
  | [], _, best, longest => (best, longest)
  | cand :: cs, i, best, longest =>
    if cand.length ≤ longest then findLongest low l cs (i + 1) best longest
    else if (matchCI low cand l).isSome then findLongest low l cs (i + 1) i cand.length
    else findLongest low l cs (i + 1) best longest

/-- `_add_parse_longest_text_action(field, setter, values1, values2)` -/
def parseLongest (low : Char → Char) (l : Text) (t1 : List Text) (t2 : Option (List Text)) : Option (Int × Text) :=
  let r1 := findLongest low l t1 0 (-1) 0
  let r2 := match t2 with
    | some t => findLongest low l t 0 r1.1 r1.2
    | none => r1
  if r2.1 ≠ -1 then some (r2.1, l.drop r2.2) else none

/-- the am/pm parse action -/
def parseAmPm (cu : Culture) (count : Nat) (l : Text) : Option (Int × Text) :=
  if cu.am = [] ∧ cu.pm = [] then some (2, l)
  else if cu.am = [] ∨ cu.pm = [] then
    let sv : Int := if cu.am = [] then 1 else 0
    let sd := if sv = 1 then cu.pm else cu.am
    let sd := if count = 1 then sd.take 1 else sd
    match matchCI (lowC cu) sd l with
    | some r => some (sv, r)
    | none => some (1 - sv, l)
  else if count = 1 then
    match matchCI (lowC cu) (cu.am.take 1) l with
    | some r => some (0, r)
    | none => match matchCI (lowC cu) (cu.pm.take 1) l with
      | some r => some (1, r)
      | none => none
  else
    let pmLonger := decide (cu.pm.length > cu.am.length)
    let longer := if pmLonger then cu.pm else cu.am
    let shorter := if pmLonger then cu.am else cu.pm
    let lv : Int := if pmLonger then 1 else 0
    match matchCI (lowC cu) longer l with
    | some r => some (lv, r)
    | none => match matchCI (lowC cu) shorter l with
      | some r => some (1 - lv, r)
      | none => none

/-- the first entry of `names` that matches case-insensitively: the remaining text -/
def firstMatchCI (low : Char → Char) (l : Text) : List Text → Option Text
  | [] => none
  | n :: ns =>
    match matchCI low n l with
    | some r => some r
    | none => firstMatchCI low l ns

/-- `_LocalDateParseBucket._parse_era` for the ISO calendar: the eras in `eras()` order, the culture's names of
    each in the order `get_era_names` lists them; the value is the era's index -/
def parseEra (cu : Culture) (l : Text) : Option (Int × Text) :=
  match firstMatchCI (lowC cu) l cu.eraNamesBCE with
  | some r => some (0, r)
  | none =>
    match firstMatchCI (lowC cu) l cu.eraNamesCE with
    | some r => some (1, r)
    | none => none

/-- the calendar field's parse action: the first id (in `CalendarSystem.ids` order) the text starts with -/
def parseCalendarId (l : Text) : List Text → Option (Text × Text)
  | [] => none
  | i :: is =>
    match matchText i l with
    | some r => some (i, r)
    | none => parseCalendarId l is

def matchDotOrComma (comma : Bool) (l : Text) : Option Text :=
  match matchChar '.' l with
  | some r => some r
  | none => if comma then matchChar ',' l else none

/-- one parse action: `none` = a failure result; `.error` only for steps outside the modelled subset -/
def parseStep (cu : Culture) (l : Text) (b : Bucket) : Step → R (Option (Bucket × Text))
  | .lit s =>
    match matchText s l with
    | some r => .ok (some (b, r))
    | none => .ok none
  | .num _ setS count maxCount minV maxV =>
    match parseField count maxCount minV maxV l with
    | some (v, r) => .ok (some (b.set setS v, r))
    | none => .ok none
  | .frac count scale fixed =>
    match parseFraction count scale (if fixed then count else 0) l with
    | some (v, r) => .ok (some (b.set .fraction (v : Int), r))
    | none => .ok none
  | .dotFrac count scale comma =>
    match matchDotOrComma comma l with
    | none => .ok (some (b, l))
    | some r =>
      match parseFraction count scale 1 r with
      | some (v, r') => .ok (some (b.set .fraction (v : Int), r'))
      | none => .ok none
  | .semi =>
    match matchDotOrComma true l with
    | some r => .ok (some (b, r))
    | none => .ok none
  | .signRequired =>
    match matchChar '-' l with
    | some r => .ok (some (b.set .sign 1, r))
    | none => match matchChar '+' l with
      | some r => .ok (some (b.set .sign 0, r))
      | none => .ok none
  | .signNegativeOnly =>
    match matchChar '-' l with
    | some r => .ok (some (b.set .sign 1, r))
    | none => match matchChar '+' l with
      | some _ => .ok none
      | none => .ok (some (b.set .sign 0, l))
  | .amPm count =>
    match parseAmPm cu count l with
    | some (v, r) => .ok (some (b.set .amPm v, r))
    | none => .ok none
  | .monthText count =>
    let g := monthTable cu count true
    let n := monthTable cu count false
    match parseLongest (lowC cu) l g (if n = g then none else some n) with
    | some (i, r) => .ok (some (b.set .monthText i, r))
    | none => .ok none
  | .dayText count =>
    match parseLongest (lowC cu) l (dayTable cu count) none with
    | some (i, r) => .ok (some (b.set .dayOfWeek i, r))
    | none => .ok none
  | .era =>
    match parseEra cu l with
    | some (v, r) => .ok (some (b.set .era v, r))
    | none => .ok none
  | .eraC cal =>
    match firstMatchCI (lowC cu) l (eraNamesOf cu (eraIdOfCal cal)) with
    | some r => .ok (some (b.set .era (eraIdOfCal cal), r))
    | none => .ok none
  | .calendar =>
    match parseCalendarId l calendarIds with
    | none => .ok none
    | some (i, r) => .ok (some (b.set .calendar (ordOfId i), r))

/-- `parse_partial`: the parse actions in order; the first failure result ends the parse -/
def parseSteps (cu : Culture) : List Step → Text → Bucket → R (Option (Bucket × Text))
  | [], l, b => .ok (some (b, l))
  | s :: ss, l, b =>
    match parseStep cu l b s with
    | .error e => .error e
    | .ok none => .ok none
    | .ok (some (b', l')) => parseSteps cu ss l' b'

end Pyoda.Text
