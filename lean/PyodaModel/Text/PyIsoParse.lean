/-
  PyodaModel.Text.PyIsoParse — what the Python standard library READS: the pure-Python reference implementation of the
  ISO readers in `Lib/_pydatetime.py` (CPython 3.12):
    `_parse_isoformat_date`, `_parse_hh_mm_ss_ff`, `_parse_isoformat_time`, `_find_isoformat_datetime_separator`,
    `date.fromisoformat`, `time.fromisoformat`, `datetime.fromisoformat`
  followed by the range checks of the `date` / `time` / `timezone` constructors.

  Text is `List Char` (code points, as a Python `str`).  A position `pos` in a string is modelled, as in
  `Numeric.lean`, by the remaining characters `s[pos:]`; `s[pos:pos+n]` is `take n` of it, `len(s) - pos` its length.

  Outside the model (`.error .decimalDomain`, reply `!dom`):
    * the ISO week forms (`YYYY-Www[-D]`, `YYYYWww[D]`);
    * `int(slice)` where the slice is not all ASCII digits but Python's `int()` might still accept it (white space,
      `_`, a sign, non-ASCII characters such as other Unicode decimal digits).  A slice that contains an ASCII
      character `int()` never accepts is a `ValueError`, as in the code.
  `AssertionError` (`assert len(dtstr) in (7, 8, 10)` reached through `datetime.fromisoformat` with a 9-character date
  part) is `.error .other`, reply `!other:AssertionError`.

  Tied to `_pydatetime` itself (suite `text.pyparse.ref`) and to the C implementation that `fromisoformat` really
  runs (suite `text.pyparse.c`) by `harness/c17_pyparse.py`.
-/
import PyodaModel.Text.Numeric
import PyodaModel.Text.Iso

namespace Pyoda.Text

/-! ### `int()` on a short slice -/

/-- characters that Python's `int()` may accept besides ASCII digits (white space as `str.isspace`, `_`, signs), and
    everything beyond ASCII (other decimal digits, other white space): the model does not decide those -/
def pyIntLenient (c : Char) : Bool :=
  decide (128 ≤ c.toNat) || decide (c = ' ') || decide (c = '_') || decide (c = '+') || decide (c = '-') ||
  (decide (9 ≤ c.toNat) && decide (c.toNat ≤ 13)) || (decide (28 ≤ c.toNat) && decide (c.toNat ≤ 31))

/-- value of a string of ASCII digits -/
def digitsVal (l : Text) : Nat := l.foldl (fun a c => a * 10 + digitVal c) 0

/-- `int(s)` for a slice `s` of at most six characters -/
def pyInt (l : Text) : R Int :=
  if l = [] then .error .valueError
  else if l.all isDigit then .ok (digitsVal l : Nat)
  else if l.any (fun c => !isDigit c && !pyIntLenient c) then .error .valueError
  else .error .decimalDomain

/-! ### `_parse_isoformat_date` -/

/-- `_parse_isoformat_date(dtstr)`: `[year, month, day]` (not yet range-checked) -/
def pyParseIsoformatDate (l : Text) : R (Int × Int × Int) :=
  -- assert len(dtstr) in (7, 8, 10)
  if l.length ≠ 7 ∧ l.length ≠ 8 ∧ l.length ≠ 10 then .error .other else do
  let year ← pyInt (l.take 4)
  let r := l.drop 4
  let hasSep := decide (r.head? = some '-')
  let r := if hasSep then r.drop 1 else r                 -- pos = 4 + has_sep
  if r.take 1 = ['W'] then .error .decimalDomain          -- YYYY-?Www-?D?: outside the model
  else do
    let month ← pyInt (r.take 2)
    let r := r.drop 2
    if decide (r.take 1 = ['-']) != hasSep then .error .valueError   -- "Inconsistent use of dash separator"
    else do
      let r := if hasSep then r.drop 1 else r
      let day ← pyInt (r.take 2)
      pure (year, month, day)

/-- `_check_date_fields` -/
def pyCheckDate (y m d : Int) : R Unit :=
  if 1 ≤ y ∧ y ≤ 9999 ∧ 1 ≤ m ∧ m ≤ 12 ∧ 1 ≤ d ∧ d ≤ daysInMonth y m then .ok () else .error .valueError

/-- `except Exception: raise ValueError(...)`: every exception becomes `ValueError`; "outside the model" stays -/
def allToValueError {α} (r : R α) : R α :=
  match r with
  | .ok v => .ok v
  | .error .decimalDomain => .error .decimalDomain
  | .error _ => .error .valueError

/-- `date.fromisoformat(s)` → (year, month, day) -/
def pyParseDate (l : Text) : R (Int × Int × Int) :=
  if l.length ≠ 7 ∧ l.length ≠ 8 ∧ l.length ≠ 10 then .error .valueError else
  allToValueError (do
    let (y, m, d) ← pyParseIsoformatDate l
    pyCheckDate y m d
    pure (y, m, d))

/-! ### `_parse_hh_mm_ss_ff` -/

/-- the `for comp in range(0, 3)` loop; `r` = `tstr[pos:]`, `acc` = the components read so far -/
def pyHmsLoop (comp : Nat) (hasSep : Bool) (acc : List Int) (r : Text) : Nat → R (List Int × Text)
  | 0 => .ok (acc, r)
  | fuel + 1 =>
    if r.length < 2 then .error .valueError               -- "Incomplete time component"
    else
      match pyInt (r.take 2) with
      | .error e => .error e
      | .ok v =>
        let acc := acc ++ [v]
        let r := r.drop 2
        let next := r.take 1
        let hasSep := if comp = 0 then decide (next = [':']) else hasSep
        if next = [] ∨ comp ≥ 2 then .ok (acc, r)
        else if hasSep ∧ next ≠ [':'] then .error .valueError   -- "Invalid time separator"
        else pyHmsLoop (comp + 1) hasSep acc (if hasSep then r.drop 1 else r) fuel

/-- the fraction after the loop: `r` = `tstr[pos:]`; value in microseconds -/
def pyFraction (r : Text) : R Int :=
  match r with
  | [] => .ok 0
  | c :: r =>
    if c ≠ '.' ∧ c ≠ ',' then .error .valueError          -- "Invalid microsecond component"
    else
      let lenRemainder := r.length
      let toParse := if lenRemainder ≥ 6 then 6 else lenRemainder
      match pyInt (r.take toParse) with
      | .error e => .error e
      | .ok f =>
        let f := if toParse < 6 then f * (10 ^ (6 - toParse) : Nat) else f     -- _FRACTION_CORRECTION[to_parse-1]
        if lenRemainder > toParse ∧ ¬ (r.drop toParse).all isDigit then .error .valueError
        else .ok f

/-- `_parse_hh_mm_ss_ff(tstr)` → (hour, minute, second, microsecond) -/
def pyHhMmSsFf (l : Text) : R (Int × Int × Int × Int) :=
  match pyHmsLoop 0 false [] l 3 with
  | .error e => .error e
  | .ok (acc, r) =>
    match pyFraction r with
    | .error e => .error e
    | .ok f => .ok (acc.getD 0 0, acc.getD 1 0, acc.getD 2 0, f)

/-! ### `_parse_isoformat_time` -/

/-- `s.find(c) + 1` (0 when absent) -/
def findPlus1 (c : Char) : Text → Nat
  | [] => 0
  | d :: r => if d = c then 1 else (match findPlus1 c r with | 0 => 0 | n + 1 => n + 2)

def US_PER_DAY : Int := 86400000000

/-- `_parse_isoformat_time(tstr)` → (hour, minute, second, microsecond, utcoffset in microseconds or none) -/
def pyParseIsoformatTime (l : Text) : R (Int × Int × Int × Int × Option Int) :=
  if l.length < 2 then .error .valueError else             -- "Isoformat time too short"
  let tzPos := if findPlus1 '-' l ≠ 0 then findPlus1 '-' l
               else if findPlus1 '+' l ≠ 0 then findPlus1 '+' l else findPlus1 'Z' l
  let timestr := if tzPos > 0 then l.take (tzPos - 1) else l
  match pyHhMmSsFf timestr with
  | .error e => .error e
  | .ok (h, m, s, us) =>
    if tzPos = l.length ∧ l.getLast? = some 'Z' then .ok (h, m, s, us, some 0)
    else if tzPos > 0 then
      let tzstr := l.drop tzPos
      if tzstr.length = 0 ∨ tzstr.length = 1 ∨ tzstr.length = 3 then .error .valueError   -- "Malformed time zone string"
      else
        match pyHhMmSsFf tzstr with
        | .error e => .error e
        | .ok (th, tm, ts, tus) =>
          if th = 0 ∧ tm = 0 ∧ ts = 0 ∧ tus = 0 then .ok (h, m, s, us, some 0)
          else
            let td : Int := th * 3600000000 + tm * 60000000 + ts * 1000000 + tus
            let off := if (l.drop (tzPos - 1)).head? = some '-' then -td else td
            -- timezone(offset): strictly between -24 h and 24 h
            if off ≤ -US_PER_DAY ∨ off ≥ US_PER_DAY then .error .valueError
            else .ok (h, m, s, us, some off)
    else .ok (h, m, s, us, none)

/-- `_check_time_fields` -/
def pyCheckTime (h m s us : Int) : R Unit :=
  if 0 ≤ h ∧ h ≤ 23 ∧ 0 ≤ m ∧ m ≤ 59 ∧ 0 ≤ s ∧ s ≤ 59 ∧ 0 ≤ us ∧ us ≤ 999999 then .ok () else .error .valueError

/-- `s.removeprefix('T')` -/
def removePrefixT (l : Text) : Text :=
  match l with
  | [] => []
  | c :: r => if c = 'T' then r else c :: r

/-- `time.fromisoformat(s)` -/
def pyParseTime (l : Text) : R (Int × Int × Int × Int × Option Int) :=
  let l := removePrefixT l
  allToValueError (do
    let (h, m, s, us, tz) ← pyParseIsoformatTime l
    pyCheckTime h m s us
    pure (h, m, s, us, tz))

/-! ### `datetime.fromisoformat` -/

/-- `_find_isoformat_datetime_separator(dtstr)` for `len(dtstr) ≥ 7` -/
def pyFindSeparator (l : Text) : R Nat :=
  if l.length = 7 then .ok 7
  else if (l.drop 4).head? = some '-' then
    (if (l.drop 5).head? = some 'W' then .error .decimalDomain else .ok 10)
  else if (l.drop 4).head? = some 'W' then .error .decimalDomain
  else .ok 8

/-- `datetime.fromisoformat(s)` → (year, month, day, hour, minute, second, microsecond, utcoffset µs or none) -/
def pyParseDateTime (l : Text) : R (Int × Int × Int × Int × Int × Int × Int × Option Int) :=
  if l.length < 7 then .error .valueError else do
  let sep ← pyFindSeparator l
  let dstr := l.take sep
  let tstr := l.drop (sep + 1)
  let (y, mo, d) ← pyParseIsoformatDate dstr
  let (h, mi, s, us, tz) ← (if tstr ≠ [] then pyParseIsoformatTime tstr else pure (0, 0, 0, 0, none))
  pyCheckDate y mo d
  pyCheckTime h mi s us
  pure (y, mo, d, h, mi, s, us, tz)

/-! ### line protocol -/

namespace PyIsoParse

def decodeText' (h : String) : Option Text := do
  let bs ← parseHex? h
  let s ← String.fromUTF8? (ByteArray.mk (bs.map UInt8.ofNat).toArray)
  pure s.toList

def showErr : PyExc → String
  | .other => "!other:AssertionError"
  | e => "!" ++ e.name

def showTz : Option Int → String
  | none => "none"
  | some v => toString v

def colon (l : List Int) : String := ":".intercalate (l.map toString)

/-- ops: `pyiso.parse.date <hex>` → `y:m:d`; `pyiso.parse.time <hex>` → `h:m:s:us:off`;
    `pyiso.parse.datetime <hex>` → `y:m:d:h:m:s:us:off` (`off` = `none` or microseconds); `!valueError` = rejected -/
def handle (toks : List String) : Option String :=
  match toks with
  | ["pyiso.parse.date", t] => do
      let t ← decodeText' t
      match pyParseDate t with
      | .error e => some (showErr e)
      | .ok (y, m, d) => some (colon [y, m, d])
  | ["pyiso.parse.time", t] => do
      let t ← decodeText' t
      match pyParseTime t with
      | .error e => some (showErr e)
      | .ok (h, m, s, us, tz) => some (colon [h, m, s, us] ++ ":" ++ showTz tz)
  | ["pyiso.parse.datetime", t] => do
      let t ← decodeText' t
      match pyParseDateTime t with
      | .error e => some (showErr e)
      | .ok (y, mo, d, h, mi, s, us, tz) => some (colon [y, mo, d, h, mi, s, us] ++ ":" ++ showTz tz)
  | _ => none

end PyIsoParse

end Pyoda.Text
