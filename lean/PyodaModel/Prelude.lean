/-
  PyodaModel.Prelude — shared conventions of the hand-written model of pyoda_time.

  * Python `int`  ↦ Lean `Int` (unbounded).
  * Python exceptions ↦ `Except PyExc α` (abbreviated `R α`).
  * `//`, `%` ↦ `Int.fdiv`, `Int.fmod` (floor);  `_towards_zero_division` ↦ `pyTdiv`
    (exact truncation inside the Decimal-exact domain, `.error decimalDomain` outside it:
    the model says nothing there and the correspondence skips such replies);
    `_csharp_modulo` ↦ `csharpMod` (literal transcription).
  No Mathlib import anywhere under PyodaModel: the driver is a compiled executable.
-/

namespace Pyoda

inductive PyExc where
  | valueError | overflowError | zeroDivision | decimalDomain | invalidData
  | invalidPattern | indexError | keyError | runtimeError | typeError
  | skippedTime | ambiguousTime | unicodeError | structError | notImplemented | other
  deriving DecidableEq, Repr, Inhabited

abbrev R := Except PyExc

instance instDecEqExcept {ε α} [DecidableEq ε] [DecidableEq α] : DecidableEq (Except ε α)
  | .ok a, .ok b => if h : a = b then isTrue (by rw [h]) else isFalse (by intro h'; cases h'; exact h rfl)
  | .error a, .error b => if h : a = b then isTrue (by rw [h]) else isFalse (by intro h'; cases h'; exact h rfl)
  | .ok _, .error _ => isFalse (by intro h; cases h)
  | .error _, .ok _ => isFalse (by intro h; cases h)

def PyExc.name : PyExc → String
  | .valueError => "valueError" | .overflowError => "overflowError"
  | .zeroDivision => "zeroDivision" | .decimalDomain => "dom"
  | .invalidData => "invalidData" | .invalidPattern => "invalidPattern"
  | .indexError => "indexError" | .keyError => "keyError"
  | .runtimeError => "runtimeError" | .typeError => "typeError"
  | .skippedTime => "skippedTime" | .ambiguousTime => "ambiguousTime"
  | .unicodeError => "unicodeError" | .structError => "structError"
  | .notImplemented => "notImplemented" | .other => "other"

/-- `_Preconditions._check_argument_range`: raises `ValueError` outside `[lo, hi]`. -/
def checkRange (v lo hi : Int) : R Unit :=
  if v < lo ∨ v > hi then .error .valueError else .ok ()

/-- Operand bound inside which `int((Decimal(x)/Decimal(y)).quantize(0, ROUND_DOWN))`
    (28-digit context) is exact truncation: both operands below 10^27 in magnitude. -/
def decBound : Int := 1000000000000000000000000000

def inDecDomain (x y : Int) : Bool :=
  decide (-decBound < x) && decide (x < decBound) && decide (-decBound < y) && decide (y < decBound)

/-- `_towards_zero_division(x, y)` for integer operands. -/
def pyTdiv (x y : Int) : R Int :=
  if y = 0 then (if x = 0 then .error .decimalDomain else .error .zeroDivision)
  else if inDecDomain x y then .ok (Int.tdiv x y)
  else .error .decimalDomain

/-- `_csharp_modulo(dividend, divisor)` — literal transcription (Python `%` is floor-mod). -/
def csharpMod (a b : Int) : Int :=
  let r := Int.fmod a b
  if a < 0 ∧ 0 < r then r - b.natAbs else r

/-- `_int32_overflow` -/
def int32Overflow (v : Int) : Int := Int.fmod (v + 2147483648) 4294967296 - 2147483648
/-- `_int64_overflow` -/
def int64Overflow (v : Int) : Int :=
  Int.fmod (v + 9223372036854775808) 18446744073709551616 - 9223372036854775808

/-! Constants of `PyodaConstants`. -/
def NPD : Int := 86400000000000      -- NANOSECONDS_PER_DAY
def NPH : Int := 3600000000000
def NPMin : Int := 60000000000
def NPS : Int := 1000000000
def NPMs : Int := 1000000
def NPUs : Int := 1000
def NPT : Int := 100                 -- NANOSECONDS_PER_TICK
def TPD : Int := 864000000000        -- TICKS_PER_DAY
def TPS : Int := 10000000
def TPH : Int := 36000000000
def SPD : Int := 86400
def MsPD : Int := 86400000
def UsPD : Int := 86400000000
def MinPD : Int := 1440
def HPD : Int := 24

/-! Line-protocol helpers (used by every `handle` function and the driver). -/

def showR {α} (f : α → String) : R α → String
  | .ok a => f a
  | .error e => "!" ++ e.name

def showInts (l : List Int) : String := " ".intercalate (l.map toString)

def showBool (b : Bool) : String := if b then "1" else "0"

def parseInt? (s : String) : Option Int := s.toInt?

def parseInts? (l : List String) : Option (List Int) := l.mapM parseInt?

/-- hex string (lower-case, two chars per byte) → bytes -/
def hexVal (c : Char) : Option Nat :=
  if '0' ≤ c ∧ c ≤ '9' then some (c.toNat - '0'.toNat)
  else if 'a' ≤ c ∧ c ≤ 'f' then some (c.toNat - 'a'.toNat + 10)
  else if 'A' ≤ c ∧ c ≤ 'F' then some (c.toNat - 'A'.toNat + 10)
  else none

def parseHexAux : List Char → List Nat → Option (List Nat)
  | [], acc => some acc.reverse
  | [_], _ => none
  | a :: b :: rest, acc =>
    match hexVal a, hexVal b with
    | some x, some y => parseHexAux rest ((x * 16 + y) :: acc)
    | _, _ => none

/-- `-` denotes the empty byte string. -/
def parseHex? (s : String) : Option (List Nat) :=
  if s = "-" then some [] else parseHexAux s.toList []

def hexDigit (n : Nat) : Char :=
  if n < 10 then Char.ofNat (n + '0'.toNat) else Char.ofNat (n - 10 + 'a'.toNat)

def showHex (bs : List Nat) : String :=
  if bs.isEmpty then "-" else
  String.ofList (bs.foldr (fun b acc => hexDigit (b / 16 % 16) :: hexDigit (b % 16) :: acc) [])

end Pyoda
