/- PyodaModel.Calendar — placeholder until the area is modelled. -/
import PyodaModel.Prelude

namespace Pyoda.Calendar

def handle (_toks : List String) : Option String := none

end Pyoda.Calendar
