/-
  PyodaModel.Calendar — executable model of the calendar systems of pyoda_time (area "Calendar", properties
  C01/C02) and its line-protocol handler.

    Calendar/Core.lean       generic layer: `Calc`, year search, day ↔ (y, m, d), validation, packing, eras
    Calendar/Systems.lean    one transcription per calculator, `calcOf : ordinal → Calc`
    Calendar/Tables.lean     the three data tables (Um Al Qura, Badi, Persian astronomical), see the note there
    Calendar/Reference.lean  independently written textbook formulas (C02)

  Ops (c = calendar ordinal 0…18):
    cal.range c                     → minYear maxYear minDays maxDays
    cal.year c y                    → start len months leap dim(1..n) daysBeforeMonth(1..n)   (!valueError outside [minYear, maxYear])
    cal.month c y m                 → daysBeforeMonth daysInMonth
    cal.ymd c d                     → y m dd dayOfYear dayOfWeek era yearOfEra   (!valueError outside the range)
    cal.days c y m dd               → day number                     (!valueError when (y, m, dd) is rejected)
    cal.cmp c y1 m1 d1 y2 m2 d2     → sign of the calendar's own comparison
    cal.era c y                     → era yearOfEra ;  cal.abs c era yoe → y ;  cal.eras c ;  cal.erarange c era
    cal.conv c1 y m dd c2           → y' m' dd'   (with_calendar)
    cal.isofast d                   → y m dd      (the calendar-less ISO constructor with its 1900–2100 tables)
    cal.pack y m d ord              → packed value and the four fields read back
    cal.tbl name i                  → table entry (uaq | badi | pastro)
    cal.wf c                        → 1 when `wfCheck` (Calendar/WfCheck.lean) holds for the calendar: every conjunct of `WF`, every year
    cal.dens c                      → 1 when the Persian leap-year density bound holds (c = 6, 7, 8)
    ref.agree k                     → 1 when `refAgree` (Calendar/RefAgree.lean) holds: model = reference, every year and month
    ref.* ops of Calendar/Reference.lean
-/
import PyodaModel.Calendar.Core
import PyodaModel.Calendar.Tables
import PyodaModel.Calendar.Systems
import PyodaModel.Calendar.Reference
import PyodaModel.Calendar.WfCheck
import PyodaModel.Calendar.RefAgree

namespace Pyoda.Calendar
open Reference (refOf)

/-- `calendar._validate_year_month_day` with the Gregorian override -/
def validateOrd (ord : Nat) (c : Calc) (y m d : Int) : R Unit :=
  if ord ≤ 1 then Greg.validate y m d else validate c y m d

/-- `LocalDate(y, m, d, calendar)._days_since_epoch` with the Gregorian table path -/
def daysOrd (ord : Nat) (c : Calc) (y m d : Int) : R Int := do
  validateOrd ord c y m d
  if ord ≤ 1 then Greg.daysOfYmdFast y m d else daysOfYmdRaw c y m d

def withCalc (tok : String) (k : Nat → Calc → Option String) : Option String := do
  let n ← tok.toNat?
  let c ← calcOf n
  k n c

def ymdReply (ord : Nat) (c : Calc) (d : Int) : R String := do
  let r ← fromDays c d
  let (y, m, dd) := viaPacked ord r
  pure (showInts [y, m, dd, dayOfYear c y m dd, dayOfWeek d] ++ " " ++ eraOf c y ++ " " ++ toString (yearOfEra c y))

def handle (toks : List String) : Option String :=
  match toks with
  | ["cal.range", c] => withCalc c fun _ c =>
      some (showR id (do
        let lo ← minDays c
        let hi ← maxDays c
        pure (showInts [c.minYear, c.maxYear, lo, hi])))
  | ["cal.year", c, y] => withCalc c fun _ c => do
      let y ← parseInt? y
      some (showR id (do
        checkRange y c.minYear c.maxYear
        let s ← c.startR y
        let l ← c.lenR y
        let ms := (List.range (c.months y).toNat).map (fun (i : Nat) => (i : Int) + 1)
        pure (showInts [s, l, c.months y] ++ " " ++ showBool (c.leap y) ++ " "
              ++ showInts (ms.map (c.dim y)) ++ " " ++ showInts (ms.map (c.toMonth y)))))
  | ["cal.month", c, y, m] => withCalc c fun n c => do
      let y ← parseInt? y
      let m ← parseInt? m
      some (showR id (do
        validateOrd n c y m 1
        pure (showInts [c.toMonth y m, c.dim y m])))
  | ["cal.ymd", c, d] => withCalc c fun n c => do
      let d ← parseInt? d
      some (showR id (ymdReply n c d))
  | ["cal.days", c, y, m, d] => withCalc c fun n c => do
      let y ← parseInt? y
      let m ← parseInt? m
      let d ← parseInt? d
      some (showR toString (daysOrd n c y m d))
  | ["cal.cmp", c, y1, m1, d1, y2, m2, d2] => withCalc c fun n c => do
      let v ← parseInts? [y1, m1, d1, y2, m2, d2]
      match v with
      | [y1, m1, d1, y2, m2, d2] =>
        some (showR toString (do
          validateOrd n c y1 m1 d1
          validateOrd n c y2 m2 d2
          pure (sgn (cmpYmd c (viaPacked n (y1, m1, d1)) (viaPacked n (y2, m2, d2))))))
      | _ => none
  | ["cal.era", c, y] => withCalc c fun _ c => do
      let y ← parseInt? y
      some (showR id (do
        checkRange y c.minYear c.maxYear
        pure (eraOf c y ++ " " ++ toString (yearOfEra c y))))
  | ["cal.abs", c, era, yoe] => withCalc c fun _ c => do
      let yoe ← parseInt? yoe
      some (showR toString (absoluteYear c yoe era))
  | ["cal.eras", c] => withCalc c fun _ c => some (" ".intercalate (eras c))
  | ["cal.erarange", c, era] => withCalc c fun _ c =>
      some (showR id (do
        let lo ← minYearOfEra c era
        let hi ← maxYearOfEra c era
        pure (showInts [lo, hi])))
  | ["cal.conv", c1, y, m, d, c2] => withCalc c1 fun n1 k1 => withCalc c2 fun n2 k2 => do
      let y ← parseInt? y
      let m ← parseInt? m
      let d ← parseInt? d
      some (showR id (do
        let days ← daysOrd n1 k1 y m d
        let r ← fromDays k2 days
        let (y', m', d') := viaPacked n2 r
        pure (showInts [y', m', d'])))
  | ["cal.isofast", d] => do
      let d ← parseInt? d
      some (showR id (do
        let r ← Greg.ymdOfDaysFast d
        let (y, m, dd) := viaPacked 0 r
        pure (showInts [y, m, dd])))
  | ["cal.pack", y, m, d, o] => do
      let v ← parseInts? [y, m, d, o]
      match v with
      | [y, m, d, o] =>
        let p := packYmdc y m d o
        some (showInts [p, unpackYear p, unpackMonth p, unpackDay p, unpackOrd p])
      | _ => none
  | ["ref.agree", k] => do
      let n ← k.toNat?
      let _ ← refOf n
      some (showBool (refAgree n))
  | ["cal.wf", c] => withCalc c fun _ c => some (showBool (wfCheck c))
  | ["cal.dens", c] => do
      -- leap-year density pass of the Persian calendars (evaluated natively; see C01Persian.lean)
      let n ← c.toNat?
      if n = 6 then some (showBool (Pers.densOk Pers.leapSimple))
      else if n = 7 then some (showBool (Pers.densOk Pers.leapArithmetic))
      else if n = 8 then some (showBool (Pers.densOk Pers.leapAstronomical))
      else none
  | ["cal.tbl", name, i] => do
      let i ← i.toNat?
      let t ← (if name = "uaq" then some Tables.umAlQuraMonthBits
               else if name = "badi" then some Tables.badiYearInfo
               else if name = "pastro" then some Tables.persianAstroLeapBits else none)
      match t[i]? with
      | some v => some (toString v)
      | none => some "!indexError"
  | _ => Reference.handle toks

end Pyoda.Calendar
