/-
  PyodaModel.Calendar.RefAgree — executable agreement check between the model of the code (`Systems.lean`) and the
  independently written reference formulas (`Reference.lean`) for property C02.

  `refAgree n` tests, for every year of calendar ordinal `n` from the first year the reference speaks about
  (`Ref.fromYear`: 475 for Persian arithmetic) to `maxYear`: the year start, the leap flag, the number of months,
  every month length and every month start; and the start of `maxYear + 1` (so that the last year length is covered).
  `PyodaProofs/C02.lean` proves `refAgree_sound`: together with `WF` this implies that every accepted date denotes the
  day the published algorithm prescribes.  For Hebrew civil/scriptural, Persian simple and Persian arithmetic the
  check evaluates `refAgree` on the compiled driver (`ref.agree <ordinal>`); the other arithmetic calendars have
  symbolic theorems and are evaluated as well.
-/
import PyodaModel.Calendar.Systems
import PyodaModel.Calendar.Reference
import PyodaModel.Calendar.WfCheck

namespace Pyoda.Calendar
open Reference

def refAgreeYear (c : Calc) (r : Ref) (y : Int) : Bool :=
  decide (c.start y = r.yearStart y) && (c.leap y == r.leap y) && decide (c.months y = r.months y) &&
  allInts 1 (c.months y) (fun m =>
    decide (c.dim y m = r.monthLength y m) && decide (c.start y + c.toMonth y m = r.days y m 1))

/-- first year on which model and reference are compared -/
def agreeFrom (c : Calc) (r : Ref) : Int := if r.fromYear ≤ c.minYear then c.minYear else r.fromYear

def refAgreeWith (c : Calc) (r : Ref) : Bool :=
  allInts (agreeFrom c r) c.maxYear (refAgreeYear c r) &&
  decide (c.start (c.maxYear + 1) = r.yearStart (c.maxYear + 1))

def refAgree (n : Nat) : Bool :=
  match calcOf n, refOf n with
  | some c, some r => refAgreeWith c r
  | _, _ => false

end Pyoda.Calendar
