/-
  PyodaModel.Calendar.WfCheck — executable well-formedness checker for a calendar description.

  `wfCheck c` tests, year by year over `[minYear, maxYear]` (year starts are consulted up to `maxYear + 1`), every
  conjunct of the predicate `WF c` of PyodaProofs/C01Lemmas.lean from which property C01 follows:
  year-start recurrence and positive year lengths; the year estimate of `_get_year` at the first and the last day of
  every year (inside `[minYear, maxYear + 1]` and within 60 years of the true year — the estimate is monotone in the
  day, which `PyodaProofs/C01WfCheck.lean` uses to lift the two end points to every day of the year); the
  day-of-year ↦ (month, day) routine for every day of the year and its inverse for every (month, day) of the tables;
  the ranges of the bit-packed representation; the month order.  `wfCheck_sound : wfCheck c = true → WF c` is proved
  once, generically.  The compiled driver evaluates the checker (`cal.wf <ordinal>`); for the calendars without a
  symbolic `WF` instance that evaluation (Lean compiler trusted) discharges the hypothesis of the C01 theorems.
-/
import PyodaModel.Calendar.Core

namespace Pyoda.Calendar

/-- `p` holds for every integer of `[lo, hi]` -/
def allInts (lo hi : Int) (p : Int → Bool) : Bool :=
  (List.range (hi - lo + 1).toNat).all (fun i => p (lo + (i : Int)))

/-- the year estimate of `_get_year` as a pure function of the day -/
def estOf (c : Calc) (d : Int) : Int := Int.tdiv ((d - c.daysAtYear1) * 10) (c.avg10 + 1) + 1

/-- every day of year `y` splits into a (month, day) of the tables that adds back up to the day of year -/
def splitCheck (c : Calc) (y : Int) : Bool :=
  allInts 1 (c.len y) (fun doy =>
    decide (1 ≤ (c.split y doy).1) && decide ((c.split y doy).1 ≤ c.months y) && decide (1 ≤ (c.split y doy).2) &&
    decide ((c.split y doy).2 ≤ c.dim y (c.split y doy).1) &&
    decide (c.toMonth y (c.split y doy).1 + (c.split y doy).2 = doy))

/-- month `m` of year `y`: packing range, plain month key, inverse of `split` for each of its days, order against
    every other month -/
def monthCheck (c : Calc) (y m : Int) : Bool :=
  decide (1 ≤ c.dim y m) && decide (c.dim y m ≤ 64) &&
  decide (c.ownCompare = false → c.monthKey y m = m) &&
  allInts 1 (c.dim y m) (fun dd =>
    decide (1 ≤ c.toMonth y m + dd) && decide (c.toMonth y m + dd ≤ c.len y) &&
    decide (c.split y (c.toMonth y m + dd) = (m, dd))) &&
  allInts 1 (c.months y) (fun m2 =>
    decide (c.monthKey y m < c.monthKey y m2 → c.toMonth y m + c.dim y m ≤ c.toMonth y m2) &&
    decide (c.monthKey y m = c.monthKey y m2 → m = m2))

/-- year-start recurrence and positive length (checked from `searchLo`) -/
def recCheck (c : Calc) (y : Int) : Bool :=
  decide (c.start (y + 1) = c.start y + c.len y) && decide (0 < c.len y)

def yearCheck (c : Calc) (y : Int) : Bool :=
  decide (c.searchLo ≤ estOf c (c.start y)) && decide (y ≤ estOf c (c.start y) + 60) &&
  decide (estOf c (c.start (y + 1) - 1) ≤ c.maxYear + 1) && decide (estOf c (c.start (y + 1) - 1) ≤ y + 60) &&
  decide (1 ≤ c.months y) && decide (c.months y ≤ 32) &&
  splitCheck c y &&
  allInts 1 (c.months y) (monthCheck c y)

def headCheck (c : Calc) : Bool :=
  decide (c.domLo ≤ c.searchLo) && decide (c.searchLo ≤ c.minYear) && decide (c.maxYear + 1 ≤ c.domHi) && decide (c.minYear ≤ c.maxYear) &&
  decide (0 < c.avg10 + 1) && decide (c.avg10 + 1 < 1000000000) &&
  decide (-1000000000 < c.start c.minYear) && decide (c.start (c.maxYear + 1) < 1000000000) &&
  decide (-1000000000 < c.daysAtYear1) && decide (c.daysAtYear1 < 1000000000) &&
  decide (-16383 ≤ c.minYear) && decide (c.maxYear ≤ 16384)

def wfCheck (c : Calc) : Bool :=
  headCheck c && allInts c.searchLo c.maxYear (recCheck c) && allInts c.minYear c.maxYear (yearCheck c)

end Pyoda.Calendar
