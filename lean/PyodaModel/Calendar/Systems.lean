/-
  PyodaModel.Calendar.Systems — one transcription per calculator of `pyoda_time/calendars/*_calculator.py`
  and the table `calcOf` (calendar ordinal ↦ `Calc`) mirroring `CalendarSystem._for_ordinal_uncached`.

  Conventions: Python `%`, `&` with a mask on possibly negative ints ↦ `Int.fmod`/`%` (floor for positive
  divisors), `>>` ↦ `>>>` (floor), `_towards_zero_division` ↦ `Int.tdiv` (all operands are far inside the
  Decimal-exact domain: |x| < 10^9), `_csharp_modulo` ↦ `csharpMod`.
  Where the pinned code has a defect the *intended* behaviour is modelled (the check then reports the defect):
    * Um Al Qura: the static-init loop stops before the padding row (DESIGN §7 row 1),
    * Badi: five intercalary days iff the table value is `≥ 10` (row 2),
    * Badi: the validator uses `[min_year, max_year]` = [1, 999] (row 3).
  Small fixed lists indexed by an already validated month are read with `tableAt` (0 outside the list): the
  generic layer validates the month before any such lookup, exactly as every public entry point of the code does.
-/
import PyodaModel.Calendar.Core
import PyodaModel.Calendar.Tables

namespace Pyoda.Calendar

def tableAt (l : List Int) (i : Int) : Int :=
  if i < 0 then 0 else match l[i.toNat]? with | some v => v | none => 0

def natTableAt (t : Array Nat) (i : Int) : Int :=
  if i < 0 then 0 else match t[i.toNat]? with | some v => (v : Int) | none => 0

/-- `Σ_{k < n} f (from + k)` -/
def sumFrom (f : Int → Int) : Nat → Int → Int
  | 0, _ => 0
  | n+1, i => f i + sumFrom f n (i + 1)

/-- the "no exception" year domain of the closed-form calculators -/
def bigDom : Int := 1000000000

/-! ## Gregorian / Julian (`_GJYearMonthDayCalculator`) -/
namespace GJ

def totalDays (leap : Bool) (m : Int) : Int :=
  if leap then tableAt [0, 0, 31, 60, 91, 121, 152, 182, 213, 244, 274, 305, 335, 366] m
  else tableAt [0, 0, 31, 59, 90, 120, 151, 181, 212, 243, 273, 304, 334, 365] m

def dim (leap : Bool) (m : Int) : Int :=
  if m = 2 then (if leap then 29 else 28) else 30 + Int.fmod (m + (m >>> 3)) 2

/-- `_get_year_month_day_from_year_and_day_of_year` -/
def split (leap : Bool) (d : Int) : Int × Int :=
  let som : Int :=
    if leap then
      if d < 92 then (if d < 32 then 0 else if d < 61 then 31 else 60)
      else if d < 183 then (if d < 122 then 91 else if d < 153 then 121 else 152)
      else if d < 275 then (if d < 214 then 182 else if d < 245 then 213 else 244)
      else if d < 306 then 274 else if d < 336 then 305 else 335
    else
      if d < 91 then (if d < 32 then 0 else if d < 60 then 31 else 59)
      else if d < 182 then (if d < 121 then 90 else if d < 152 then 120 else 151)
      else if d < 274 then (if d < 213 then 181 else if d < 244 then 212 else 243)
      else if d < 305 then 273 else if d < 335 then 304 else 334
  (Int.tdiv som 29 + 1, d - som)

end GJ

namespace Greg

def isLeap (y : Int) : Bool := (y % 4 == 0) && (y % 100 != 0 || y % 400 == 0)

/-- `_calculate_start_of_year_days` -/
def start (y : Int) : Int :=
  let c := Int.tdiv y 100
  let leapYears :=
    if y < 0 then ((y + 3) >>> 2) - c + ((c + 3) >>> 2) - 1
    else
      let l := (y >>> 2) - c + (c >>> 2)
      if isLeap y then l - 1 else l
  y * 365 + (leapYears - 719527)

def len (y : Int) : Int := if isLeap y then 366 else 365

/-- `_validate_gregorian_year_month_day`, literally (with the `1 ≤ day ≤ 20` shortcut) -/
def validate (y m d : Int) : R Unit :=
  if y < -9998 ∨ y > 9999 ∨ m < 1 ∨ m > 12 then do
    checkRange y (-9998) 9999
    checkRange m 1 12
    -- unreachable: one of the two checks above has raised
    .error .valueError
  else if 1 ≤ d ∧ d ≤ 20 then .ok ()
  else
    let dimv := if m = 2 ∧ isLeap y then tableAt [0, 31, 29, 31, 30, 31, 30, 31, 31, 30, 31, 30, 31] m
                else tableAt [0, 31, 28, 31, 30, 31, 30, 31, 31, 30, 31, 30, 31] m
    if d < 1 ∨ d > dimv then checkRange d 1 dimv else .ok ()

def cal : Calc where
  minYear := -9998
  maxYear := 9999
  avg10 := 3652
  daysAtYear1 := -719162
  domLo := -bigDom
  domHi := bigDom
  domErr := .other
  start := start
  len := len
  leap := isLeap
  months := fun _ => 12
  dim := fun y m => GJ.dim (isLeap y) m
  toMonth := fun y m => GJ.totalDays (isLeap y) m
  split := fun y d => GJ.split (isLeap y) d
  splitGuard := false
  monthKey := fun _ m => m
  ownCompare := false
  twoEras := true
  eraName := "CE"
  firstMonth := 1

/-! the two 1900–2100 table paths -/

/-- `__MONTH_START_DAYS[(y-1900)*12 + m]` as filled by `__init__`: day before the first of the month -/
def monthStartDay (y m : Int) : Int :=
  start y - 1 + sumFrom (fun k => GJ.dim (isLeap y) k) (m - 1).toNat 1

/-- `_GregorianYearMonthDayCalculator._get_days_since_epoch` (table path inside 1900…2100) -/
def daysOfYmdFast (y m d : Int) : R Int :=
  if y < 1900 ∨ y > 2100 then daysOfYmdRaw cal y m d
  else .ok (monthStartDay y m + d)

/-- the zero-based "start of month" lookup of the fast path (`-1` for January … ) -/
def fastSom (leap : Bool) (z : Int) : Int :=
  if leap then
    if z < 31 then -1 else if z < 60 then 30 else if z < 91 then 59 else if z < 121 then 90
    else if z < 152 then 120 else if z < 182 then 151 else if z < 213 then 181 else if z < 244 then 212
    else if z < 274 then 243 else if z < 305 then 273 else if z < 335 then 304 else 334
  else
    if z < 31 then -1 else if z < 59 then 30 else if z < 90 then 58 else if z < 120 then 89
    else if z < 151 then 119 else if z < 181 then 150 else if z < 212 then 180 else if z < 243 then 211
    else if z < 273 then 242 else if z < 304 then 272 else if z < 334 then 303 else 333

/-- `_get_gregorian_year_month_day_calendar_from_days_since_epoch` (used when no calendar is passed):
    `__YEAR_START_DAYS[year_index]` is `start (1900 + year_index)` as filled by `__init__` -/
def ymdOfDaysFast (d : Int) : R (Int × Int × Int) :=
  if d < -25567 ∨ d > 47846 then fromDays cal d
  else
    let yi := Int.tdiv (d + 25567) 366
    let y0 := yi + 1900
    let d1 := d - start y0
    let y := if d1 ≥ len y0 then y0 + 1 else y0
    let z := if d1 ≥ len y0 then d1 - len y0 else d1
    let som := fastSom (isLeap y) z
    .ok (y, Int.tdiv som 29 + 1, z - som)

end Greg

namespace Jul

def isLeap (y : Int) : Bool := y % 4 == 0

def start (y : Int) : Int :=
  let r := y - 1968
  let leapYears := if r ≤ 0 then (r + 3) >>> 2 else (if isLeap y then r >>> 2 else (r >>> 2) + 1)
  r * 365 + leapYears - (366 + 352)

def len (y : Int) : Int := if isLeap y then 366 else 365

def cal : Calc where
  minYear := -9997
  maxYear := 9998
  avg10 := 3653
  daysAtYear1 := -719164
  domLo := -bigDom
  domHi := bigDom
  domErr := .other
  start := start
  len := len
  leap := isLeap
  months := fun _ => 12
  dim := fun y m => GJ.dim (isLeap y) m
  toMonth := fun y m => GJ.totalDays (isLeap y) m
  split := fun y d => GJ.split (isLeap y) d
  splitGuard := false
  monthKey := fun _ m => m
  ownCompare := false
  twoEras := true
  eraName := "CE"
  firstMonth := 1

end Jul

/-! ## Coptic (`_FixedMonthYearMonthDayCalculator`) -/
namespace Copt

def isLeap (y : Int) : Bool := y % 4 == 3

def start (y : Int) : Int :=
  let r := y - 1687
  let leapYears := if r ≤ 0 then (r + 3) >>> 2 else (if isLeap y then r >>> 2 else (r >>> 2) + 1)
  r * 365 + leapYears + (365 - 112)

def len (y : Int) : Int := if isLeap y then 366 else 365
def dim (y m : Int) : Int := if m ≠ 13 then 30 else if isLeap y then 6 else 5
def split (_y doy : Int) : Int × Int :=
  let z := doy - 1
  (Int.tdiv z 30 + 1, Int.fmod z 30 + 1)

def cal : Calc where
  minYear := 1
  maxYear := 9715
  avg10 := 3653
  daysAtYear1 := -615558
  domLo := -bigDom
  domHi := bigDom
  domErr := .other
  start := start
  len := len
  leap := isLeap
  months := fun _ => 13
  dim := dim
  toMonth := fun _ m => (m - 1) * 30
  split := split
  splitGuard := false
  monthKey := fun _ m => m
  ownCompare := false
  twoEras := false
  eraName := "AM"
  firstMonth := 1

end Copt

/-! ## tabular Islamic (`_IslamicYearMonthDayCalculator`) -/
namespace Isl

def bitsBase15 : Nat := 623158436
def bitsBase16 : Nat := 623191204
def bitsIndian : Nat := 690562340
def bitsHabash : Nat := 153692453
def civilEpoch : Int := -492148
def astronomicalEpoch : Int := -492149

def isLeap (bits : Nat) (y : Int) : Bool :=
  let yc := if y ≥ 0 then csharpMod y 30 else csharpMod y 30 + 30
  bits.testBit yc.toNat

def len (bits : Nat) (y : Int) : Int := if isLeap bits y then 355 else 354

/-- `_calculate_start_of_year_days`: whole 30-year cycles, then a loop over the years of the last cycle -/
def start (bits : Nat) (epoch : Int) (y : Int) : Int :=
  let cycle := if y > 0 then Int.tdiv (y - 1) 30 else Int.tdiv (y - 30) 30
  let y0 := cycle * 30 + 1
  epoch + cycle * 10631 + sumFrom (len bits) (y - y0).toNat y0

def dim (bits : Nat) (y m : Int) : Int :=
  if m = 12 ∧ isLeap bits y then 30 else if Int.fmod m 2 = 0 then 29 else 30

def toMonth (m : Int) : Int := tableAt [0, 0, 30, 59, 89, 118, 148, 177, 207, 236, 266, 295, 325] m

def split (_y doy : Int) : Int × Int :=
  if doy = 355 then (12, 30)
  else
    let z := doy - 1
    (Int.tdiv (z * 2) 59 + 1, Int.fmod (Int.fmod z 59) 30 + 1)

def cal (bits : Nat) (epoch : Int) : Calc where
  minYear := 1
  maxYear := 9665
  avg10 := 3544
  daysAtYear1 := epoch
  domLo := -bigDom
  domHi := bigDom
  domErr := .other
  start := start bits epoch
  len := len bits
  leap := isLeap bits
  months := fun _ => 12
  dim := dim bits
  toMonth := fun _ m => toMonth m
  split := split
  splitGuard := false
  monthKey := fun _ m => m
  ownCompare := false
  twoEras := false
  eraName := "EH"
  firstMonth := 1

end Isl

/-! ## Persian (`_PersianYearMonthDayCalculator` and its three leap rules) -/
namespace Pers

def maxYear : Int := 9377

def simpleBits : Nat := 2^1 + 2^5 + 2^9 + 2^13 + 2^17 + 2^22 + 2^26 + 2^30

def leapSimple (y : Int) : Bool :=
  let yc := if y ≥ 0 then csharpMod y 33 else csharpMod y 33 + 33
  simpleBits.testBit yc.toNat

def leapArithmetic (y : Int) : Bool :=
  let off := if y > 0 then y - 474 else y - 473
  let cy := csharpMod off 2820 + 474
  decide (Int.fmod ((cy + 38) * 31) 128 < 31)

/-- `bits[year >> 3] & (1 << (year & 7)) != 0` -/
def leapAstronomical (y : Int) : Bool :=
  (natTableAt Tables.persianAstroLeapBits (y >>> 3)).toNat.testBit (Int.fmod y 8).toNat

def lenOf (leap : Int → Bool) (y : Int) : Int := if leap y then 366 else 365

/-- the list built by `__init__`: entry `i` is the start of year `i`, for `i = 0 … max_year + 1` -/
def accum (len : Int → Int) : Nat → Int → Int → List Int
  | 0, _, _ => []
  | n+1, s, y => s :: accum len n (s + len y) (y + 1)

def startList (leap : Int → Bool) (e : Int) : List Int :=
  accum (lenOf leap) 9379 (e - lenOf leap 0) 0

/-- start of year by the defining recursion (what entry `y` of the list is) -/
def startRec (leap : Int → Bool) (e : Int) : Nat → Int
  | 0 => e - lenOf leap 0
  | n+1 => startRec leap e n + lenOf leap n

def simpleStarts : Array Int := (startList leapSimple (-492268)).toArray
def arithmeticStarts : Array Int := (startList leapArithmetic (-492267)).toArray
def astronomicalStarts : Array Int := (startList leapAstronomical (-492267)).toArray

/-- `__start_of_year_in_days_cache[year]` for `0 ≤ year ≤ 9378` (guarded by `domLo/domHi`; Python would wrap
    a negative index and raise `IndexError` above — neither is reachable for days inside the range) -/
def startAt (tbl : Array Int) (leap : Int → Bool) (e : Int) (y : Int) : Int :=
  match tbl[y.toNat]? with
  | some v => v
  | none => startRec leap e y.toNat

def dim (leap : Int → Bool) (y m : Int) : Int :=
  if m < 7 then 31 else if m < 12 ∨ leap y then 30 else 29

def toMonth (m : Int) : Int := tableAt [0, 0, 31, 62, 93, 124, 155, 186, 216, 246, 276, 306, 336] m

def split (_y doy : Int) : Int × Int :=
  let z := doy - 1
  if doy = 366 then (12, 30)
  else if z < 186 then (Int.tdiv z 31 + 1, csharpMod z 31 + 1)
  else
    let h := z - 186
    (Int.tdiv h 30 + 7, csharpMod h 30 + 1)

def cal (tbl : Array Int) (leap : Int → Bool) (e : Int) : Calc where
  minYear := 1
  maxYear := maxYear
  avg10 := 3652      -- tdiv((365*25 + 366*8)*10, 33)
  daysAtYear1 := e
  domLo := 0
  domHi := maxYear + 1
  domErr := .indexError
  start := startAt tbl leap e
  len := lenOf leap
  leap := leap
  months := fun _ => 12
  dim := dim leap
  toMonth := fun _ m => toMonth m
  split := split
  splitGuard := false
  monthKey := fun _ m => m
  ownCompare := false
  twoEras := false
  eraName := "AP"
  firstMonth := 1

/-! Leap-year density check used by the well-formedness proofs (C01Persian.lean): one linear pass over the years
    0 … 9378 verifying `4·G(n) ≤ n + 60`, where `G(n)` is the number of days beyond 365 per year accumulated up to
    the start of year `n` relative to the start of year 1.  It is what keeps the year estimate inside the list. -/
def persG (leap : Int → Bool) : Nat → Int
  | 0 => -(if leap 0 then 1 else 0)
  | n+1 => persG leap n + (if leap n then 1 else 0)

def densChk (leap : Int → Bool) : Nat → Nat → Int → Bool
  | 0, _, _ => true
  | f+1, n, g => decide (4 * g ≤ (n : Int) + 60) && densChk leap f (n + 1) (g + (if leap n then 1 else 0))

def densOk (leap : Int → Bool) : Bool := densChk leap 9379 0 (persG leap 0)

def simple : Calc := cal simpleStarts leapSimple (-492268)
def arithmetic : Calc := cal arithmeticStarts leapArithmetic (-492267)
def astronomical : Calc := cal astronomicalStarts leapAstronomical (-492267)

end Pers

/-! ## Hebrew (`_HebrewScripturalCalculator`, `_HebrewYearMonthDayCalculator`, `_HebrewMonthConverter`) -/
namespace Heb

def isLeap (y : Int) : Bool := decide (Int.fmod (y * 7 + 1) 19 < 7)

/-- `__elapsed_days_no_cache` -/
def elapsed (y : Int) : Int :=
  let y1 := y - 1
  let monthsElapsed := 235 * Int.tdiv y1 19 + 12 * csharpMod y1 19 + Int.tdiv (csharpMod y1 19 * 7 + 1) 19
  let partsElapsed := 204 + 793 * csharpMod monthsElapsed 1080
  let hoursElapsed := 5 + 12 * monthsElapsed + 793 * Int.tdiv monthsElapsed 1080 + Int.tdiv partsElapsed 1080
  let day := 1 + 29 * monthsElapsed + Int.tdiv hoursElapsed 24
  let parts := csharpMod hoursElapsed 24 * 1080 + csharpMod partsElapsed 1080
  let postpone : Bool :=
    decide (parts ≥ 19440)
    || (csharpMod day 7 == 2 && decide (parts ≥ 9924) && !isLeap y)
    || (csharpMod day 7 == 1 && decide (parts ≥ 16789) && isLeap (y - 1))
  let alt := if postpone then 1 + day else day
  let am := csharpMod alt 7
  if am == 0 || am == 3 || am == 5 then alt + 1 else alt

def len (y : Int) : Int := elapsed (y + 1) - elapsed y
def heshvanLong (y : Int) : Bool := csharpMod (len y) 10 == 5
def kislevShort (y : Int) : Bool := csharpMod (len y) 10 == 3
def heshvan (y : Int) : Int := if heshvanLong y then 30 else 29
def kislev (y : Int) : Int := if kislevShort y then 29 else 30

def start (y : Int) : Int := elapsed y - 1 + (-2092590)

/-- `_days_in_month` (scriptural month number) -/
def dimS (y m : Int) : Int :=
  if m = 2 ∨ m = 4 ∨ m = 6 ∨ m = 10 ∨ m = 13 then 29
  else if m = 8 then heshvan y
  else if m = 9 then kislev y
  else if m = 12 then (if isLeap y then 30 else 29)
  else 30

/-- `_get_days_from_start_of_year_to_start_of_month` (scriptural month number; the code raises for other months,
    which validation excludes) -/
def toMonthS (y m : Int) : Int :=
  let h := heshvan y
  let k := kislev y
  let a1 : Int := if isLeap y then 30 else 29
  let a2 : Int := if isLeap y then 29 else 0
  if m = 1 then 30 + h + k + (29 + 30) + a1 + a2
  else if m = 2 then 30 + h + k + (29 + 30) + a1 + a2 + 30
  else if m = 3 then 30 + h + k + 29 + 30 + a1 + a2 + (30 + 29)
  else if m = 4 then 30 + h + k + 29 + 30 + a1 + a2 + (30 + 29 + 30)
  else if m = 5 then 30 + h + k + 29 + 30 + a1 + a2 + (30 + 29 + 30 + 29)
  else if m = 6 then 30 + h + k + 29 + 30 + a1 + a2 + (30 + 29 + 30 + 29 + 30)
  else if m = 7 then 0
  else if m = 8 then 30
  else if m = 9 then 30 + h
  else if m = 10 then 30 + h + k
  else if m = 11 then 30 + h + k + 29
  else if m = 12 then 30 + h + k + 29 + 30
  else if m = 13 then 30 + h + k + 29 + 30 + a1
  else 0

/-- `_HebrewScripturalCalculator._get_year_month_day` ↦ (scriptural month, day) -/
def splitS (y doy : Int) : Int × Int :=
  let h := heshvan y
  let k := kislev y
  let lp := isLeap y
  let a1 : Int := if lp then 30 else 29
  if doy < 31 then (7, doy)
  else if doy < 31 + h then (8, doy - 30)
  else
    let d1 := doy - h
    if d1 < 31 + k then (9, d1 - 30)
    else
      let d2 := d1 - k
      if d2 < 31 + 29 then (10, d2 - 30)
      else if d2 < 31 + 29 + 30 then (11, d2 - (30 + 29))
      else if d2 < 31 + 29 + 30 + a1 then (12, d2 - (30 + 29 + 30))
      else
        let d3 := d2 - a1
        if lp ∧ d3 < 31 + 29 + 30 + 29 then (13, d3 - (30 + 29 + 30))
        else
          let d4 := if lp then d3 - 29 else d3
          if d4 < 31 + 29 + 30 + 30 then (1, d4 - (30 + 29 + 30))
          else if d4 < 31 + 29 + 30 + 30 + 29 then (2, d4 - (30 + 29 + 30 + 30))
          else if d4 < 31 + 29 + 30 + 30 + 29 + 30 then (3, d4 - (30 + 29 + 30 + 30 + 29))
          else if d4 < 31 + 29 + 30 + 30 + 29 + 30 + 29 then (4, d4 - (30 + 29 + 30 + 30 + 29 + 30))
          else if d4 < 31 + 29 + 30 + 30 + 29 + 30 + 29 + 30 then (5, d4 - (30 + 29 + 30 + 30 + 29 + 30 + 29))
          else (6, d4 - (30 + 29 + 30 + 30 + 29 + 30 + 29 + 30))

def civilToScriptural (y m : Int) : Int :=
  if m < 7 then m + 6
  else if m = 7 then (if isLeap y then 13 else 1)
  else if isLeap y then m - 7 else m - 6

def scripturalToCivil (y m : Int) : Int :=
  if m ≥ 7 then m - 6 else if isLeap y then m + 7 else m + 6

def cal (scriptural : Bool) : Calc where
  minYear := 1
  maxYear := 9999
  avg10 := 3654
  daysAtYear1 := -2092590
  domLo := -bigDom
  domHi := bigDom
  domErr := .other
  start := start
  len := len
  leap := isLeap
  months := fun y => if isLeap y then 13 else 12
  dim := fun y m => dimS y (if scriptural then m else civilToScriptural y m)
  toMonth := fun y m => toMonthS y (if scriptural then m else civilToScriptural y m)
  split := fun y doy =>
    let r := splitS y doy
    if scriptural then r else (scripturalToCivil y r.1, r.2)
  splitGuard := false
  monthKey := fun y m => if scriptural then scripturalToCivil y m else m
  ownCompare := scriptural
  twoEras := false
  eraName := "AM"
  firstMonth := if scriptural then 7 else 1

end Heb

/-! ## Um Al Qura (table-driven; intended static initialisation) -/
namespace UAQ

def minYear : Int := 1318
def maxYear : Int := 1500
def startOfMinYear : Int := -25448

def bitsOf (y : Int) : Nat := (natTableAt Tables.umAlQuraMonthBits (y - 1317)).toNat
def bit (y m : Int) : Int := if (bitsOf y).testBit m.toNat then 1 else 0

/-- `year_lengths[y - 1317]`: the real years 1318…1500 from the month bits, the two sentinel years 354 -/
def len (y : Int) : Int :=
  if y < minYear ∨ y > maxYear then 354 else 348 + sumFrom (bit y) 12 1

/-- the `year_start_days` entries for rows 1…184 in order (row 184 = first day after the table) -/
def startList : List Int := Pers.accum len 184 startOfMinYear minYear
def starts : Array Int := startList.toArray

def startRec : Nat → Int
  | 0 => startOfMinYear
  | n+1 => startRec n + len (minYear + n)

/-- `year_start_days[y - 1317]` -/
def start (y : Int) : Int :=
  if y < minYear then startOfMinYear - 354
  else match starts[(y - minYear).toNat]? with
    | some v => v
    | none => startRec (y - minYear).toNat

def dim (y m : Int) : Int := 29 + bit y m
def toMonth (y m : Int) : Int := (m - 1) * 29 + sumFrom (bit y) (m - 1).toNat 1

def splitLoop (y : Int) : Nat → Int → Int → Int × Int
  | 0, m, left => (m, left)          -- not reached when 1 ≤ doy ≤ len y
  | f+1, m, left =>
    let ml := 29 + bit y m
    if left ≤ ml then (m, left) else splitLoop y f (m + 1) (left - ml)

def split (y doy : Int) : Int × Int := splitLoop y 12 1 doy

def cal : Calc where
  minYear := minYear
  maxYear := maxYear
  avg10 := 3544
  daysAtYear1 := -492192     -- -25448 + int((1 - 1318) / 10.0 * 3544)
  domLo := minYear - 1
  domHi := maxYear + 1
  domErr := .keyError
  start := start
  len := len
  leap := fun y => len y == 355
  months := fun _ => 12
  dim := dim
  toMonth := toMonth
  split := split
  splitGuard := true
  monthKey := fun _ m => m
  ownCompare := false
  twoEras := false
  eraName := "EH"
  firstMonth := 1
  searchLo := minYear - 1

end UAQ

/-! ## Badi (table-driven from year 172; intended decoding and validation) -/
namespace Badi

def info (y : Int) : Int := natTableAt Tables.badiYearInfo (y - 172)

def ayyamiHa (y : Int) : Int :=
  if y < 172 then (if Greg.isLeap (y + 1844) then 5 else 4)
  else if info y ≥ 10 then 5 else 4

def nawRuz (y : Int) : Int := if y < 172 then 21 else 19 + Int.fmod (info y) 10

/-- `LocalDate(year + 1843, 3, naw_ruz)._days_since_epoch` (ISO; always a valid date) -/
def start (y : Int) : Int :=
  let gy := y + 1843
  Greg.start gy + GJ.totalDays (Greg.isLeap gy) 3 + nawRuz y - 1

def len (y : Int) : Int := 361 + ayyamiHa y
def dim (y m : Int) : Int := if m = 18 then 19 + ayyamiHa y else 19
def toMonth (y m : Int) : Int := 19 * (m - 1) + (if m = 19 then ayyamiHa y else 0)

def split (y doy : Int) : Int × Int :=
  let fol := 1 + 19 * 18 + ayyamiHa y
  if doy ≥ fol then (19, doy - fol + 1)
  else
    let m0 := 1 + (doy - 1) / 19          -- `int(1 + (doy - 1) / 19)`, doy ≥ 1 by the guard
    let m := if m0 < 18 then m0 else 18
    (m, doy - (m - 1) * 19)

def cal : Calc where
  minYear := 1
  maxYear := 999
  avg10 := 3652
  daysAtYear1 := -45941
  domLo := 0            -- year 0 = min_year - 1 is available to internal callers (week-year rules), as in every calendar
  domHi := 1000
  domErr := .valueError
  start := start
  len := len
  leap := fun y => ayyamiHa y ≠ 4
  months := fun _ => 19
  dim := dim
  toMonth := toMonth
  split := split
  splitGuard := true
  monthKey := fun _ m => m
  ownCompare := false
  twoEras := false
  eraName := "BE"
  firstMonth := 1

end Badi

/-- `_CalendarOrdinal` ↦ calculator, as in `CalendarSystem._for_ordinal_uncached` -/
def calcOf : Nat → Option Calc
  | 0 => some Greg.cal
  | 1 => some Greg.cal
  | 2 => some Jul.cal
  | 3 => some Copt.cal
  | 4 => some (Heb.cal false)
  | 5 => some (Heb.cal true)
  | 6 => some Pers.simple
  | 7 => some Pers.arithmetic
  | 8 => some Pers.astronomical
  | 9 => some (Isl.cal Isl.bitsBase15 Isl.astronomicalEpoch)
  | 10 => some (Isl.cal Isl.bitsBase16 Isl.astronomicalEpoch)
  | 11 => some (Isl.cal Isl.bitsIndian Isl.astronomicalEpoch)
  | 12 => some (Isl.cal Isl.bitsHabash Isl.astronomicalEpoch)
  | 13 => some (Isl.cal Isl.bitsBase15 Isl.civilEpoch)
  | 14 => some (Isl.cal Isl.bitsBase16 Isl.civilEpoch)
  | 15 => some (Isl.cal Isl.bitsIndian Isl.civilEpoch)
  | 16 => some (Isl.cal Isl.bitsHabash Isl.civilEpoch)
  | 17 => some UAQ.cal
  | 18 => some Badi.cal
  | _ => none

def calendarId : Nat → String
  | 0 => "ISO" | 1 => "Gregorian" | 2 => "Julian" | 3 => "Coptic" | 4 => "Hebrew Civil" | 5 => "Hebrew Scriptural"
  | 6 => "Persian Simple" | 7 => "Persian Arithmetic" | 8 => "Persian Algorithmic"
  | 9 => "Hijri Astronomical-Base15" | 10 => "Hijri Astronomical-Base16" | 11 => "Hijri Astronomical-Indian"
  | 12 => "Hijri Astronomical-HabashAlHasib" | 13 => "Hijri Civil-Base15" | 14 => "Hijri Civil-Base16"
  | 15 => "Hijri Civil-Indian" | 16 => "Hijri Civil-HabashAlHasib" | 17 => "Um Al Qura" | 18 => "Badi"
  | _ => "?"

end Pyoda.Calendar
