/-
  PyodaModel.Calendar.Reference — reference formulas for property C02, written from the literature and NOT from
  the repository (this file deliberately imports nothing of `Systems.lean`):

    * Reingold & Dershowitz, "Calendrical Calculations" (3rd ed.): fixed-from-gregorian, fixed-from-julian
      (astronomical year numbering: year 0 = 1 BCE), fixed-from-coptic, fixed-from-islamic (generalised to the four
      published leap-year residue sets and the two epochs, Thursday 15 / Friday 16 July 622 Julian),
      hebrew-calendar-elapsed-days / hebrew-year-length-correction / hebrew-new-year / last-day-of-hebrew-month,
      fixed-from-arithmetic-persian (Birashk's 2820-year cycle);
    * the 33-year rule of the "simple" Persian calendar (leap when year mod 33 ∈ {1,5,9,13,17,22,26,30}), year 1
      beginning on 21 March 622 of the proleptic Gregorian calendar;
    * CPython `Lib/_pydatetime.py`: `_ymd2ord`, `_ord2ymd`, `isoweekday`.

  R.D. day numbers ("fixed" dates, R.D. 1 = 1 January 1 CE Gregorian) are converted to the library's day line
  (day 0 = 1 January 1970) by subtracting 719163.
  Families are addressed by the calendar ordinal 0…16 (0/1 ISO/Gregorian, 2 Julian, 3 Coptic, 4/5 Hebrew civil/
  scriptural, 6 Persian simple, 7 Persian arithmetic, 9…16 Islamic).
-/
import PyodaModel.Prelude

namespace Pyoda.Calendar.Reference

def unixEpochRD : Int := 719163

/-- `Σ_{k=a}^{b} f k` (empty when b < a) -/
def sumRange (f : Int → Int) (a b : Int) : Int :=
  let rec go : Nat → Int → Int
    | 0, _ => 0
    | n+1, k => f k + go n (k + 1)
  go (b + 1 - a).toNat a

/-! ### Gregorian and Julian -/

def gregorianLeap (y : Int) : Bool :=
  y % 4 == 0 && !(y % 400 == 100 || y % 400 == 200 || y % 400 == 300)

def fixedFromGregorian (y m d : Int) : Int :=
  365 * (y - 1) + (y - 1) / 4 - (y - 1) / 100 + (y - 1) / 400 + (367 * m - 362) / 12
    + (if m ≤ 2 then 0 else if gregorianLeap y then -1 else -2) + d

def julianLeap (y : Int) : Bool := y % 4 == 0

/-- R.D. of the Julian epoch (30 December 0 Gregorian = R.D. -1) -/
def julianEpoch : Int := -1

def fixedFromJulian (y m d : Int) : Int :=
  julianEpoch - 1 + 365 * (y - 1) + (y - 1) / 4 + (367 * m - 362) / 12
    + (if m ≤ 2 then 0 else if julianLeap y then -1 else -2) + d

def gjMonthLength (leap : Bool) (m : Int) : Int :=
  if m = 2 then (if leap then 29 else 28)
  else if m = 4 ∨ m = 6 ∨ m = 9 ∨ m = 11 then 30 else 31

/-! ### Coptic -/

/-- 29 August 284 CE (Julian) -/
def copticEpoch : Int := 103605
def copticLeap (y : Int) : Bool := y % 4 == 3
def fixedFromCoptic (y m d : Int) : Int :=
  copticEpoch - 1 + 365 * (y - 1) + y / 4 + 30 * (m - 1) + d
def copticMonthLength (y m : Int) : Int := if m ≤ 12 then 30 else if copticLeap y then 6 else 5

/-! ### tabular Islamic -/

/-- leap years of the 30-year cycle; pattern 1 = base 15, 2 = base 16, 3 = Indian, 4 = Habash al-Hasib -/
def islamicLeapResidues : Nat → List Int
  | 1 => [2, 5, 7, 10, 13, 15, 18, 21, 24, 26, 29]
  | 2 => [2, 5, 7, 10, 13, 16, 18, 21, 24, 26, 29]
  | 3 => [2, 5, 8, 10, 13, 16, 19, 21, 24, 27, 29]
  | _ => [2, 5, 8, 11, 13, 16, 19, 21, 24, 27, 30]

/-- position of year `y` in its 30-year cycle, 1…30 -/
def cycleYear30 (y : Int) : Int := (y - 1) % 30 + 1

def islamicLeap (p : Nat) (y : Int) : Bool := (islamicLeapResidues p).contains (cycleYear30 y)

/-- number of leap years among years 1 … y-1 (y ≥ 1) -/
def islamicLeapsBefore (p : Nat) (y : Int) : Int :=
  11 * ((y - 1) / 30) + ((islamicLeapResidues p).filter (fun r => decide (r ≤ (y - 1) % 30))).length

/-- Friday 16 July 622 (Julian) = R.D. 227015 (civil); the astronomical (Thursday) epoch is one day earlier -/
def islamicEpoch (civil : Bool) : Int := if civil then 227015 else 227014

def islamicMonthLength (p : Nat) (y m : Int) : Int :=
  if m % 2 = 1 then 30 else if m = 12 ∧ islamicLeap p y then 30 else 29

def fixedFromIslamic (p : Nat) (civil : Bool) (y m d : Int) : Int :=
  islamicEpoch civil - 1 + 354 * (y - 1) + islamicLeapsBefore p y + 29 * (m - 1) + m / 2 + d

/-! ### Hebrew (months in scriptural numbering: Nisan = 1, Tishri = 7) -/

def hebrewEpoch : Int := -1373427
def hebrewLeap (y : Int) : Bool := decide ((7 * y + 1) % 19 < 7)
def lastMonthOfHebrewYear (y : Int) : Int := if hebrewLeap y then 13 else 12

def hebrewCalendarElapsedDays (y : Int) : Int :=
  let monthsElapsed := (235 * y - 234) / 19
  let partsElapsed := 12084 + 13753 * monthsElapsed
  let days := 29 * monthsElapsed + partsElapsed / 25920
  if (3 * (days + 1)) % 7 < 3 then days + 1 else days

def hebrewYearLengthCorrection (y : Int) : Int :=
  let ny0 := hebrewCalendarElapsedDays (y - 1)
  let ny1 := hebrewCalendarElapsedDays y
  let ny2 := hebrewCalendarElapsedDays (y + 1)
  if ny2 - ny1 = 356 then 2 else if ny1 - ny0 = 382 then 1 else 0

def hebrewNewYear (y : Int) : Int :=
  hebrewEpoch + hebrewCalendarElapsedDays y + hebrewYearLengthCorrection y

def daysInHebrewYear (y : Int) : Int := hebrewNewYear (y + 1) - hebrewNewYear y
def longMarheshvan (y : Int) : Bool := daysInHebrewYear y == 355 || daysInHebrewYear y == 385
def shortKislev (y : Int) : Bool := daysInHebrewYear y == 353 || daysInHebrewYear y == 383

def lastDayOfHebrewMonth (y m : Int) : Int :=
  if m = 2 ∨ m = 4 ∨ m = 6 ∨ m = 10 ∨ m = 13 then 29
  else if m = 12 ∧ !hebrewLeap y then 29
  else if m = 8 ∧ !longMarheshvan y then 29
  else if m = 9 ∧ shortKislev y then 29
  else 30

/-- days of the year before scriptural month `m` -/
def hebrewDaysBeforeMonth (y m : Int) : Int :=
  if m < 7 then
    sumRange (lastDayOfHebrewMonth y) 7 (lastMonthOfHebrewYear y) + sumRange (lastDayOfHebrewMonth y) 1 (m - 1)
  else sumRange (lastDayOfHebrewMonth y) 7 (m - 1)

def fixedFromHebrew (y m d : Int) : Int := hebrewNewYear y + d - 1 + hebrewDaysBeforeMonth y m

/-- the k-th month counting from Tishri (civil numbering) in scriptural numbering -/
def hebrewCivilToScriptural (y k : Int) : Int :=
  let afterTishri := lastMonthOfHebrewYear y - 6      -- months Tishri … last month of the year
  if k ≤ afterTishri then k + 6 else k - afterTishri

/-! ### Persian -/

/-- 21 March 622, proleptic Gregorian -/
def persianSimpleEpoch : Int := fixedFromGregorian 622 3 21
def persianSimpleLeap (y : Int) : Bool := [1, 5, 9, 13, 17, 22, 26, 30].contains (y % 33)
/-- leap years among 1 … y-1 under the 33-year rule -/
def persianSimpleLeapsBefore (y : Int) : Int :=
  8 * ((y - 1) / 33) + (([1, 5, 9, 13, 17, 22, 26, 30] : List Int).filter (fun r => decide (r ≤ (y - 1) % 33))).length

def persianDaysBeforeMonth (m : Int) : Int := if m ≤ 7 then 31 * (m - 1) else 30 * (m - 1) + 6
def persianMonthLength (leap : Bool) (m : Int) : Int := if m ≤ 6 then 31 else if m ≤ 11 then 30 else if leap then 30 else 29

def fixedFromPersianSimple (y m d : Int) : Int :=
  persianSimpleEpoch - 1 + 365 * (y - 1) + persianSimpleLeapsBefore y + persianDaysBeforeMonth m + d

/-- 19 March 622 (Julian) -/
def persianArithmeticEpoch : Int := 226896

def persianArithmeticLeap (y : Int) : Bool :=
  let y' := if 0 < y then y - 474 else y - 473
  let year := y' % 2820 + 474
  decide (((year + 38) * 31) % 128 < 31)

def fixedFromPersianArithmetic (y m d : Int) : Int :=
  let y' := if 0 < y then y - 474 else y - 473
  let year := y' % 2820 + 474
  persianArithmeticEpoch - 1 + 1029983 * (y' / 2820) + 365 * (year - 1) + (31 * year - 5) / 128
    + persianDaysBeforeMonth m + d

/-! ### CPython `_pydatetime` -/

def pyIsLeap (y : Int) : Bool := y % 4 == 0 && (y % 100 != 0 || y % 400 == 0)
def pyDaysBeforeYear (y : Int) : Int := let y1 := y - 1; y1 * 365 + y1 / 4 - y1 / 100 + y1 / 400
def pyDaysInMonthTbl : List Int := [31, 28, 31, 30, 31, 30, 31, 31, 30, 31, 30, 31]
def pyDaysInMonth (y m : Int) : Int :=
  if m = 2 ∧ pyIsLeap y then 29 else match pyDaysInMonthTbl[(m - 1).toNat]? with | some v => v | none => 0
def pyDaysBeforeMonth (y m : Int) : Int :=
  sumRange (fun k => match pyDaysInMonthTbl[(k - 1).toNat]? with | some v => v | none => 0) 1 (m - 1)
    + (if m > 2 ∧ pyIsLeap y then 1 else 0)
def pyYmd2ord (y m d : Int) : Int := pyDaysBeforeYear y + pyDaysBeforeMonth y m + d

/-- `_ord2ymd` -/
def pyOrd2ymd (n0 : Int) : Int × Int × Int :=
  let n := n0 - 1
  let n400 := n / 146097
  let n := n % 146097
  let year := n400 * 400 + 1
  let n100 := n / 36524
  let n := n % 36524
  let n4 := n / 1461
  let n := n % 1461
  let n1 := n / 365
  let n := n % 365
  let year := year + n100 * 100 + n4 * 4 + n1
  if n1 = 4 ∨ n100 = 4 then (year - 1, 12, 31)
  else
    let leapyear := n1 = 3 ∧ (n4 ≠ 24 ∨ n100 = 3)
    let month := (n + 50) / 32        -- `(n + 50) >> 5`
    let preceding := pyDaysBeforeMonth 1 month + (if month > 2 ∧ leapyear then 1 else 0)
    let (month, preceding) :=
      if preceding > n then
        (month - 1, preceding - ((match pyDaysInMonthTbl[(month - 2).toNat]? with | some v => v | none => 0)
                                  + (if month - 1 = 2 ∧ leapyear then 1 else 0)))
      else (month, preceding)
    (year, month, n - preceding + 1)

/-- `date.isoweekday()` of ordinal `n` -/
def pyIsoWeekday (n : Int) : Int := if n % 7 = 0 then 7 else n % 7

/-! ### uniform access by family -/

structure Ref where
  leap : Int → Bool
  /-- R.D. of (y, m, d), month in the calendar's own numbering -/
  fixed : Int → Int → Int → Int
  monthLength : Int → Int → Int
  months : Int → Int
  firstMonth : Int
  /-- least year the reference speaks about -/
  fromYear : Int

def islamicRef (p : Nat) (civil : Bool) : Ref :=
  { leap := islamicLeap p, fixed := fixedFromIslamic p civil, monthLength := islamicMonthLength p,
    months := fun _ => 12, firstMonth := 1, fromYear := 1 }

def hebrewCivilRef : Ref :=
  { leap := hebrewLeap, fixed := fun y k d => fixedFromHebrew y (hebrewCivilToScriptural y k) d,
    monthLength := fun y k => lastDayOfHebrewMonth y (hebrewCivilToScriptural y k),
    months := lastMonthOfHebrewYear, firstMonth := 1, fromYear := 1 }

def hebrewScripturalRef : Ref :=
  { leap := hebrewLeap, fixed := fixedFromHebrew, monthLength := lastDayOfHebrewMonth,
    months := lastMonthOfHebrewYear, firstMonth := 7, fromYear := 1 }

def persianSimpleRef : Ref :=
  { leap := persianSimpleLeap, fixed := fixedFromPersianSimple,
    monthLength := fun y m => persianMonthLength (persianSimpleLeap y) m,
    months := fun _ => 12, firstMonth := 1, fromYear := 1 }

/-- stated from year 475, the anchor of the 2820-year cycle -/
def persianArithmeticRef : Ref :=
  { leap := persianArithmeticLeap, fixed := fixedFromPersianArithmetic,
    monthLength := fun y m => persianMonthLength (persianArithmeticLeap y) m,
    months := fun _ => 12, firstMonth := 1, fromYear := 475 }

def refOf : Nat → Option Ref
  | 0 | 1 => some { leap := gregorianLeap, fixed := fixedFromGregorian, monthLength := fun y m => gjMonthLength (gregorianLeap y) m,
                    months := fun _ => 12, firstMonth := 1, fromYear := -9998 }
  | 2 => some { leap := julianLeap, fixed := fixedFromJulian, monthLength := fun y m => gjMonthLength (julianLeap y) m,
                months := fun _ => 12, firstMonth := 1, fromYear := -9997 }
  | 3 => some { leap := copticLeap, fixed := fixedFromCoptic, monthLength := copticMonthLength,
                months := fun _ => 13, firstMonth := 1, fromYear := 1 }
  | 4 => some hebrewCivilRef
  | 5 => some hebrewScripturalRef
  | 6 => some persianSimpleRef
  | 7 => some persianArithmeticRef
  | 9 => some (islamicRef 1 false) | 10 => some (islamicRef 2 false)
  | 11 => some (islamicRef 3 false) | 12 => some (islamicRef 4 false)
  | 13 => some (islamicRef 1 true) | 14 => some (islamicRef 2 true)
  | 15 => some (islamicRef 3 true) | 16 => some (islamicRef 4 true)
  | _ => none

def Ref.days (r : Ref) (y m d : Int) : Int := r.fixed y m d - unixEpochRD
def Ref.yearStart (r : Ref) (y : Int) : Int := r.days y r.firstMonth 1
def Ref.yearLength (r : Ref) (y : Int) : Int := r.yearStart (y + 1) - r.yearStart y

/-- ops: `ref.year k y → start len months leap monthLength(1..n) daysBeforeMonth(1..n)`, `ref.month k y m → daysBefore len`, `ref.days k y m d → day`,
    `ref.pyord y m d → ordinal`, `ref.pyymd n → y m d isoweekday` -/
def handle (toks : List String) : Option String :=
  match toks with
  | ["ref.year", k, y] => do
      let k ← k.toNat?
      let r ← refOf k
      let y ← parseInt? y
      if y < r.fromYear then some "!dom" else
      let ms := (List.range (r.months y).toNat).map (fun (i : Nat) => (i : Int) + 1)
      some (showInts [r.yearStart y, r.yearLength y, r.months y] ++ " " ++ showBool (r.leap y) ++ " "
            ++ showInts (ms.map (r.monthLength y)) ++ " " ++ showInts (ms.map (fun m => r.days y m 1 - r.yearStart y)))
  | ["ref.month", k, y, m] => do
      let k ← k.toNat?
      let r ← refOf k
      let y ← parseInt? y
      let m ← parseInt? m
      if y < r.fromYear then some "!dom" else
      some (showInts [r.days y m 1 - r.yearStart y, r.monthLength y m])
  | ["ref.days", k, y, m, d] => do
      let k ← k.toNat?
      let r ← refOf k
      let y ← parseInt? y
      let m ← parseInt? m
      let d ← parseInt? d
      if y < r.fromYear then some "!dom" else
      some (toString (r.days y m d))
  | ["ref.pyord", y, m, d] => do
      let y ← parseInt? y
      let m ← parseInt? m
      let d ← parseInt? d
      -- `_check_date_fields`
      if y < 1 ∨ y > 9999 ∨ m < 1 ∨ m > 12 ∨ d < 1 ∨ d > pyDaysInMonth y m then some "!valueError" else
      some (toString (pyYmd2ord y m d))
  | ["ref.pyymd", n] => do
      let n ← parseInt? n
      let (y, m, d) := pyOrd2ymd n
      some (showInts [y, m, d, pyIsoWeekday n])
  | _ => none

end Pyoda.Calendar.Reference
