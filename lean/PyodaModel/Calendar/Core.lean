/-
  PyodaModel.Calendar.Core — the calendar-independent part of `pyoda_time/calendars/_year_month_day_calculator.py`,
  `_calendar_system.py`, `_year_month_day.py`, `_year_month_day_calendar.py` and the two era calculators.

  A calendar is a `Calc`: pure arithmetic functions (transcribed per calculator in `Systems.lean`) plus the year
  interval `[domLo, domHi]` on which the code's year-indexed lookups are defined and the exception it raises
  outside it (`KeyError` for the Um Al Qura dicts, `IndexError` for the Persian list, `ValueError` for the Badi
  range checks; the closed-form calculators are total and get a huge interval).  Every R-valued wrapper below first
  checks that interval, so the pure functions are never consulted where the code would have raised.
  The year-start cache (`_YearStartCacheEntry`) is transparent here; it is modelled in the Cache area (C13).
-/
import PyodaModel.Prelude

namespace Pyoda.Calendar

structure Calc where
  minYear : Int
  maxYear : Int
  /-- `average_days_per_10_years` as passed to the constructor (the code adds 1) -/
  avg10 : Int
  daysAtYear1 : Int
  domLo : Int
  domHi : Int
  domErr : PyExc
  /-- `_get_start_of_year_in_days` -/
  start : Int → Int
  /-- `_get_days_in_year` -/
  len : Int → Int
  leap : Int → Bool
  months : Int → Int
  /-- `_get_days_in_month year month` -/
  dim : Int → Int → Int
  /-- `_get_days_from_start_of_year_to_start_of_month year month` -/
  toMonth : Int → Int → Int
  /-- `_get_year_month_day_from_year_and_day_of_year year doy` ↦ (month, day) -/
  split : Int → Int → Int × Int
  /-- does the split routine range-check the day of year first (Badi, Um Al Qura)? -/
  splitGuard : Bool
  /-- month number used by the calendar's own ordering (civil month for Hebrew scriptural, identity otherwise) -/
  monthKey : Int → Int → Int
  /-- `compare` is overridden (Hebrew scriptural) instead of comparing packed values -/
  ownCompare : Bool
  /-- Gregorian/Julian era calculator (BCE/CE) instead of a single era -/
  twoEras : Bool
  /-- name of the single era -/
  eraName : String
  /-- first month of the year in calendar numbering (7 for Hebrew scriptural) -/
  firstMonth : Int
  /-- least year the year search of `_get_year` may visit: `min_year`, except where the tables carry a sentinel row
      below `min_year` that the estimate can land on (Um Al Qura: the estimate for the first days of 1318 is 1317) -/
  searchLo : Int := minYear

/-- fuel of the two correction loops of `_get_year` (the theorems show ≤ 9 steps are ever needed) -/
def yearFuel : Nat := 64

def Calc.yearOk (c : Calc) (y : Int) : R Unit :=
  if y < c.domLo ∨ y > c.domHi then .error c.domErr else .ok ()

def Calc.startR (c : Calc) (y : Int) : R Int := do c.yearOk y; pure (c.start y)
def Calc.lenR (c : Calc) (y : Int) : R Int := do c.yearOk y; pure (c.len y)

/-- `while days < 0: candidate -= 1; days += days_in_year(candidate)` -/
def backLoop (c : Calc) : Nat → Int → Int → R (Int × Int)
  | 0, _, _ => .error .decimalDomain
  | f+1, cand, rem =>
    if rem < 0 then do
      let l ← c.lenR (cand - 1)
      backLoop c f (cand - 1) (rem + l)
    else .ok (cand, rem)

/-- `length = days_in_year(candidate); while days >= length: candidate += 1; days -= length; length = …` -/
def fwdLoop (c : Calc) : Nat → Int → Int → R (Int × Int)
  | 0, _, _ => .error .decimalDomain
  | f+1, cand, rem => do
    let l ← c.lenR cand
    if rem ≥ l then fwdLoop c f (cand + 1) (rem - l) else .ok (cand, rem)

/-- the year estimate of `_get_year` -/
def estimate (c : Calc) (d : Int) : R Int := do
  let q ← pyTdiv ((d - c.daysAtYear1) * 10) (c.avg10 + 1)
  pure (q + 1)

/-- `_get_year`: (year, zero-based day of year) -/
def getYear (c : Calc) (d : Int) : R (Int × Int) := do
  let cand ← estimate c d
  let s ← c.startR cand
  let rem := d - s
  if rem < 0 then backLoop c yearFuel cand rem else fwdLoop c yearFuel cand rem

def Calc.splitR (c : Calc) (y doy : Int) : R (Int × Int) := do
  c.yearOk y
  if c.splitGuard then checkRange doy 1 (c.len y)
  pure (c.split y doy)

/-- `_get_year_month_day_from_days_since_epoch` -/
def ymdOfDays (c : Calc) (d : Int) : R (Int × Int × Int) := do
  let (y, z) ← getYear c d
  let (m, dd) ← c.splitR y (z + 1)
  pure (y, m, dd)

def minDays (c : Calc) : R Int := c.startR c.minYear
def maxDays (c : Calc) : R Int := do let s ← c.startR (c.maxYear + 1); pure (s - 1)

/-- `CalendarSystem._get_year_month_day_calendar_from_days_since_epoch` -/
def fromDays (c : Calc) (d : Int) : R (Int × Int × Int) := do
  let lo ← minDays c
  let hi ← maxDays c
  checkRange d lo hi
  ymdOfDays c d

/-- `_YearMonthDayCalculator._validate_year_month_day` (Gregorian and Badi override it with the same meaning,
    see `Systems.lean`) -/
def validate (c : Calc) (y m d : Int) : R Unit := do
  checkRange y c.minYear c.maxYear
  checkRange m 1 (c.months y)
  checkRange d 1 (c.dim y m)

/-- `_get_days_since_epoch` (no validation, as in the code) -/
def daysOfYmdRaw (c : Calc) (y m d : Int) : R Int := do
  let s ← c.startR y
  pure (s + c.toMonth y m + d - 1)

/-- `LocalDate(y, m, d, calendar)._days_since_epoch` -/
def daysOfYmd (c : Calc) (y m d : Int) : R Int := do
  validate c y m d
  daysOfYmdRaw c y m d

def dayOfYear (c : Calc) (y m d : Int) : Int := c.toMonth y m + d

/-- `CalendarSystem._get_day_of_week` -/
def dayOfWeek (d : Int) : Int :=
  if d ≥ -3 then 1 + csharpMod (d + 3) 7 else 7 + csharpMod (d + 4) 7

/-! ### bit-packed values -/

/-- `_YearMonthDayCalendar._ctor(year, month, day, ordinal)` (fields disjoint, so `|` is `+`) -/
def packYmdc (y m d ord : Int) : Int := (y - 1) * 131072 + (m - 1) * 4096 + (d - 1) * 64 + ord

def unpackYear (v : Int) : Int :=
  Int.fdiv (int32Overflow (Int.fmod (Int.fdiv v 131072) 32768 * 131072)) 131072 + 1
def unpackMonth (v : Int) : Int := Int.fmod (Int.fdiv v 4096) 32 + 1
def unpackDay (v : Int) : Int := Int.fmod (Int.fdiv v 64) 64 + 1
def unpackOrd (v : Int) : Int := Int.fmod v 64

/-- `_YearMonthDay._ctor(year, month, day)` raw value -/
def packYmd (y m d : Int) : Int := (y - 1) * 2048 + (m - 1) * 64 + (d - 1)

/-- the (y, m, d) a `LocalDate` reports after the value went through the packed representation -/
def viaPacked (ord : Int) (ymd : Int × Int × Int) : Int × Int × Int :=
  let v := packYmdc ymd.1 ymd.2.1 ymd.2.2 ord
  (unpackYear v, unpackMonth v, unpackDay v)

/-- the calendar's own ordering: `_YearMonthDay.compare_to` (difference of packed values), or the Hebrew
    scriptural override (year, civil month, day) -/
def cmpYmd (c : Calc) (a b : Int × Int × Int) : Int :=
  if c.ownCompare then
    if a.1 - b.1 ≠ 0 then a.1 - b.1
    else
      let ma := c.monthKey a.1 a.2.1
      let mb := c.monthKey b.1 b.2.1
      if ma - mb ≠ 0 then ma - mb else a.2.2 - b.2.2
  else packYmd a.1 a.2.1 a.2.2 - packYmd b.1 b.2.1 b.2.2

def sgn (x : Int) : Int := if x < 0 then -1 else if x > 0 then 1 else 0

/-! ### eras -/

def eras (c : Calc) : List String := if c.twoEras then ["BCE", "CE"] else [c.eraName]

def eraOf (c : Calc) (y : Int) : String := if c.twoEras then (if y > 0 then "CE" else "BCE") else c.eraName
def yearOfEra (c : Calc) (y : Int) : Int := if c.twoEras then (if y > 0 then y else 1 - y) else y

/-- `_get_absolute_year(year_of_era, era)`; an unsupported era is a `ValueError` -/
def absoluteYear (c : Calc) (yoe : Int) (era : String) : R Int :=
  if c.twoEras then
    if era = "CE" then do checkRange yoe 1 c.maxYear; pure yoe
    else if era = "BCE" then do checkRange yoe 1 (1 - c.minYear); pure (1 - yoe)
    else .error .valueError
  else if era = c.eraName then do checkRange yoe c.minYear c.maxYear; pure yoe
  else .error .valueError

def minYearOfEra (c : Calc) (era : String) : R Int :=
  if c.twoEras then (if era = "CE" ∨ era = "BCE" then .ok 1 else .error .valueError)
  else if era = c.eraName then .ok c.minYear else .error .valueError

def maxYearOfEra (c : Calc) (era : String) : R Int :=
  if c.twoEras then
    (if era = "CE" then .ok c.maxYear else if era = "BCE" then .ok (1 - c.minYear) else .error .valueError)
  else if era = c.eraName then .ok c.maxYear else .error .valueError

end Pyoda.Calendar
