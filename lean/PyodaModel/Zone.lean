/-
  PyodaModel.Zone — the time-zone engine on a single integer timeline (nanoseconds since the Unix epoch).

  Instants and local instants are `Int` nanoseconds; the code's (days, nano-of-day) pairs compare
  lexicographically, i.e. exactly like `days * NPD + nod`, and the two sentinel values
  `Instant._before_min_value()` / `_after_max_value()` (days = ∓2^30, nod = 0) become `BMIN` / `AMAX`.

  Transcribed from pyoda_time/_date_time_zone.py (map_local, at_start_of_day, get_zone_intervals),
  time_zones/_zone_interval.py, _zone_year_offset.py, _zone_recurrence.py,
  _standard_daylight_alternating_map.py, _precalculated_date_time_zone.py, _fixed_date_time_zone.py,
  _zone_local_mapping.py, _resolvers.py.
-/
import PyodaModel.Prelude
import PyodaModel.Calendar.Systems

namespace Pyoda.Zone

def MIN_DAYS : Int := -4371222
def MAX_DAYS : Int := 2932896
def MINI : Int := MIN_DAYS * NPD                 -- Instant.min_value
def MAXI : Int := (MAX_DAYS + 1) * NPD - 1       -- Instant.max_value
def BMIN : Int := -1073741824 * NPD              -- Instant._before_min_value()
def AMAX : Int := 1073741823 * NPD               -- Instant._after_max_value()

def dayOf (t : Int) : Int := t / NPD
def isValid (t : Int) : Bool := decide (MIN_DAYS ≤ dayOf t) && decide (dayOf t ≤ MAX_DAYS)

/-- `Instant._safe_plus(offset)` / result as local-instant nanoseconds (offset in nanoseconds). -/
def safePlus (t off : Int) : Int :=
  let d := dayOf t
  if MIN_DAYS < d ∧ d < MAX_DAYS then t + off
  else if d < MIN_DAYS then BMIN
  else if d > MAX_DAYS then AMAX
  else
    let r := t + off
    if dayOf r < MIN_DAYS then BMIN else if dayOf r > MAX_DAYS then AMAX else r

/-- `_LocalInstant._safe_minus(offset)` -/
def safeMinus (l off : Int) : Int :=
  let d := dayOf l
  if MIN_DAYS < d ∧ d < MAX_DAYS then l - off
  else if d < MIN_DAYS then BMIN
  else if d > MAX_DAYS then AMAX
  else
    let r := l - off
    if dayOf r < MIN_DAYS then BMIN else if dayOf r > MAX_DAYS then AMAX else r

/-- `Instant._from_untrusted_duration` -/
def untrusted (t : Int) : R Int :=
  if dayOf t < MIN_DAYS ∨ dayOf t > MAX_DAYS then .error .overflowError else .ok t

/-- `Offset + Offset` (seconds), range-checked -/
def offAdd (a b : Int) : R Int :=
  if a + b < -64800 ∨ a + b > 64800 then .error .valueError else .ok (a + b)

structure ZI where
  s : Int
  e : Int
  name : String
  wall : Int      -- seconds
  savings : Int   -- seconds
  deriving DecidableEq, Repr, Inhabited

namespace ZI
def localStart (z : ZI) : Int := safePlus z.s (z.wall * NPS)
def localEnd (z : ZI) : Int := safePlus z.e (z.wall * NPS)
def contains (z : ZI) (t : Int) : Bool := decide (z.s ≤ t) && decide (t < z.e)
def containsLocal (z : ZI) (l : Int) : Bool := decide (z.localStart ≤ l) && decide (l < z.localEnd)
def hasStart (z : ZI) : Bool := isValid z.s
def hasEnd (z : ZI) : Bool := isValid z.e
/-- `ZoneInterval(...)`: rejects `start >= end` -/
def mk' (name : String) (s e wall savings : Int) : R ZI :=
  if s ≥ e then .error .valueError else .ok ⟨s, e, name, wall, savings⟩
def withStart (z : ZI) (s : Int) : R ZI := mk' z.name s z.e z.wall z.savings
end ZI

/-! ## ISO calendar arithmetic used by the yearly rules — the Gregorian calculator of the Calendar area
    (`CalendarSystem.iso`): leap years, month lengths, `LocalDate(y, m, d)` day numbers, `_get_year` -/

def isLeap (y : Int) : Bool := Calendar.Greg.isLeap y

def daysInMonth (y m : Int) : Int := Calendar.GJ.dim (Calendar.Greg.isLeap y) m

/-- days since 1970-01-01 of the ISO date (y, m, d): year start + days to the month + day − 1 -/
def daysFromCivil (y m d : Int) : Int :=
  Calendar.Greg.start y + Calendar.GJ.totalDays (Calendar.Greg.isLeap y) m + d - 1

/-- `CalendarSystem.iso._year_month_day_calculator._get_year(days)[0]` -/
def yearOfDays (z : Int) : R Int := do
  let (y, _) ← Calendar.getYear Calendar.Greg.cal z
  pure y

/-- ISO day of week, Monday = 1 … Sunday = 7 -/
def dayOfWeek (days : Int) : Int := (days + 3) % 7 + 1

def MIN_GREG_YEAR : Int := -9998
def MAX_GREG_YEAR : Int := 9999
def minDaysIso : Int := daysFromCivil (-9998) 1 1
def maxDaysIso : Int := daysFromCivil 9999 12 31

/-! ## yearly rules -/

structure YearOffset where
  mode : Int          -- 0 UTC, 1 wall, 2 standard
  month : Int
  dom : Int           -- day of month, negative = from the end
  dow : Int           -- 0 = none
  advance : Bool
  tod : Int           -- nanosecond of day
  addDay : Bool
  deriving DecidableEq, Repr, Inhabited

/-- `_ZoneYearOffset._get_occurrence_for_year` → local instant in nanoseconds (or the after-max sentinel) -/
def YearOffset.occurrence (yo : YearOffset) (year : Int) : R Int := do
  if year < MIN_GREG_YEAR ∨ year > MAX_GREG_YEAR then .error .valueError else
  let actual0 := if yo.dom > 0 then yo.dom else daysInMonth year yo.month + yo.dom + 1
  let actual := if yo.month = 2 ∧ yo.dom = 29 ∧ !isLeap year then 28 else actual0
  if actual < 1 ∨ actual > daysInMonth year yo.month then .error .valueError else
  let d0 := daysFromCivil year yo.month actual
  let d1 ←
    if yo.dow ≠ 0 then
      let cur := dayOfWeek d0
      if cur ≠ yo.dow then
        let diff0 := yo.dow - cur
        let diff := if diff0 > 0 then (if !yo.advance then diff0 - 7 else diff0)
                    else (if yo.advance then diff0 + 7 else diff0)
        let d := d0 + diff
        if d < minDaysIso ∨ d > maxDaysIso then .error .overflowError else pure d
      else pure d0
    else pure d0
  if yo.addDay then
    if d1 = maxDaysIso ∧ year = 9999 then .ok AMAX
    else
      let d := d1 + 1
      if d > maxDaysIso then .error .overflowError else .ok (d * NPD + yo.tod)
  else .ok (d1 * NPD + yo.tod)

def YearOffset.ruleOffset (yo : YearOffset) (std savings : Int) : R Int :=
  if yo.mode = 1 then offAdd std savings
  else if yo.mode = 2 then .ok std
  else .ok 0

structure Recurrence where
  name : String
  savings : Int
  yo : YearOffset
  fromYear : Int
  toYear : Int
  deriving DecidableEq, Repr, Inhabited

def INT_MIN : Int := -2147483648
def INT_MAX : Int := 2147483647

namespace Recurrence

def minLocal (r : Recurrence) : R Int :=
  if r.fromYear = INT_MIN then .ok BMIN else r.yo.occurrence r.fromYear
def maxLocal (r : Recurrence) : R Int :=
  if r.toYear = INT_MAX then .ok AMAX else r.yo.occurrence r.toYear

/-- `_ZoneRecurrence._next` : instant of the next transition strictly after `t`, `none` if there is none -/
def next (r : Recurrence) (t std prevSavings : Int) : R (Option Int) := do
  let ro ← r.yo.ruleOffset std prevSavings
  let _ ← offAdd std r.savings
  let safeLocal := safePlus t (ro * NPS)
  let mn ← r.minLocal
  let mx ← r.maxLocal
  let target ←
    if safeLocal < mn then pure (some r.fromYear)
    else if safeLocal ≥ mx then pure none
    else if safeLocal = BMIN then pure (some MIN_GREG_YEAR)
    else do let y ← yearOfDays (dayOf safeLocal); pure (some y)
  match target with
  | none => if mx = AMAX then .ok (some AMAX) else .ok none
  | some y =>
    let tr ← r.yo.occurrence y
    let st := safeMinus tr (ro * NPS)
    if st > t then .ok (some st)
    else
      let y2 := y + 1
      if y2 > MAX_GREG_YEAR then .ok (some AMAX)
      else
        let tr2 ← r.yo.occurrence y2
        .ok (some (safeMinus tr2 (ro * NPS)))

/-- `_ZoneRecurrence._previous_or_same` -/
def previousOrSame (r : Recurrence) (t std prevSavings : Int) : R (Option Int) := do
  let ro ← r.yo.ruleOffset std prevSavings
  let _ ← offAdd std r.savings
  let safeLocal := safePlus t (ro * NPS)
  let mn ← r.minLocal
  let mx ← r.maxLocal
  if safeLocal > mx then go r t ro r.toYear
  else if safeLocal < mn then .ok none
  else if !(isValid safeLocal) then
    if safeLocal = BMIN then .ok (some BMIN) else go r t ro MAX_GREG_YEAR
  else do
    let y ← yearOfDays (dayOf safeLocal)
    go r t ro y
where
  go (r : Recurrence) (t ro y : Int) : R (Option Int) := do
    let tr ← r.yo.occurrence y
    let st := safeMinus tr (ro * NPS)
    if st ≤ t then .ok (some st)
    else
      let y2 := y - 1
      if y2 < MIN_GREG_YEAR then .ok (some BMIN)
      else
        let tr2 ← r.yo.occurrence y2
        .ok (some (safeMinus tr2 (ro * NPS)))

def nextOrFail (r : Recurrence) (t std ps : Int) : R Int := do
  match ← r.next t std ps with
  | some x => .ok x
  | none => .error .runtimeError

def prevOrFail (r : Recurrence) (t std ps : Int) : R Int := do
  match ← r.previousOrSame t std ps with
  | some x => .ok x
  | none => .error .runtimeError

end Recurrence

/-- `_StandardDaylightAlternatingMap` -/
structure AltMap where
  std : Int              -- standard offset, seconds
  stdRec : Recurrence
  dstRec : Recurrence
  deriving DecidableEq, Repr, Inhabited

namespace AltMap

/-- returns (instant of next transition, `true` if the *current* recurrence is the daylight one) -/
def nextTransition (m : AltMap) (t : Int) : R (Int × Bool) := do
  let d ← m.dstRec.nextOrFail t m.std 0
  let s ← m.stdRec.nextOrFail t m.std m.dstRec.savings
  if s < d then .ok (s, true)
  else if s > d then .ok (d, false)
  else if isValid s then .error .runtimeError
  else
    let pd ← m.dstRec.prevOrFail t m.std 0
    let ps ← m.stdRec.prevOrFail t m.std m.dstRec.savings
    if pd > ps then .ok (s, true) else .ok (d, false)

def get (m : AltMap) (t : Int) : R ZI := do
  let (nx, curIsDst) ← m.nextTransition t
  let rec_ := if curIsDst then m.dstRec else m.stdRec
  let prevSavings := if curIsDst then 0 else m.dstRec.savings
  let pv ← rec_.prevOrFail t m.std prevSavings
  let wall ← offAdd m.std rec_.savings
  ZI.mk' rec_.name pv nx wall rec_.savings

def minOffset (m : AltMap) : Int := min m.std (m.std + m.dstRec.savings)
def maxOffset (m : AltMap) : Int := max m.std (m.std + m.dstRec.savings)

end AltMap

/-- `_PrecalculatedDateTimeZone` -/
structure Precalc where
  periods : Array ZI
  tail : Option AltMap
  deriving Repr, Inhabited

namespace Precalc

def tailStart (p : Precalc) : Int := match p.periods.back? with | some z => z.e | none => AMAX

/-- the binary search over the periods, with explicit fuel -/
def search (ps : Array ZI) (t : Int) : Nat → Nat → Nat → R ZI
  | 0, _, _ => .error .runtimeError
  | fuel + 1, lower, upper =>
    if lower < upper then
      let cur := (lower + upper) / 2
      match ps[cur]? with
      | none => .error .indexError
      | some c =>
        if c.s > t then search ps t fuel lower cur
        else if c.e ≤ t then search ps t fuel (cur + 1) upper
        else .ok c
    else .error .runtimeError

def get (p : Precalc) (t : Int) : R ZI :=
  match p.tail with
  | some tz =>
    if t ≥ p.tailStart then do
      let iv ← tz.get t
      if iv.s < p.tailStart then do
        let first ← tz.get p.tailStart
        first.withStart p.tailStart
      else .ok iv
    else search p.periods t (p.periods.size + 1) 0 p.periods.size
  | none => search p.periods t (p.periods.size + 1) 0 p.periods.size

/-- `_validate_periods` -/
def validate (p : Precalc) : Bool :=
  p.periods.size > 0 &&
  (match p.periods[0]? with | some z => !z.hasStart | none => false) &&
  (List.range (p.periods.size - 1)).all (fun i =>
    match p.periods[i]?, p.periods[i+1]? with
    | some a, some b => a.hasEnd && b.hasStart && a.e == b.s
    | _, _ => false) &&
  (p.tail.isSome || p.tailStart == AMAX)

def minOffset (p : Precalc) : Int :=
  let m := p.periods.foldl (fun acc z => min acc z.wall) (match p.periods[0]? with | some z => z.wall | none => 0)
  match p.tail with | some t => min m (min t.minOffset t.maxOffset) | none => m
def maxOffset (p : Precalc) : Int :=
  let m := p.periods.foldl (fun acc z => max acc z.wall) (match p.periods[0]? with | some z => z.wall | none => 0)
  match p.tail with | some t => max m (max t.minOffset t.maxOffset) | none => m

end Precalc

inductive ZoneDef where
  | fixed (z : ZI)
  | precalc (p : Precalc)
  deriving Repr, Inhabited

def ZoneDef.get : ZoneDef → Int → R ZI
  | .fixed z, _ => .ok z
  | .precalc p, t => p.get t

/-! ## local → instant mapping -/

structure Mapping where
  count : Nat
  early : ZI
  late : ZI
  deriving Repr, Inhabited

section MapLocal
variable (get : Int → R ZI)

def earlierMatching (iv : ZI) (l : Int) : R (Option ZI) :=
  if dayOf l ≤ dayOf iv.s + 1 then do
    let t ← untrusted (iv.s - 1)
    let c ← get t
    if c.containsLocal l then .ok (some c) else .ok none
  else .ok none

def laterMatching (iv : ZI) (l : Int) : R (Option ZI) :=
  if dayOf l ≥ dayOf iv.e - 1 then do
    let c ← get iv.e
    if c.containsLocal l then .ok (some c) else .ok none
  else .ok none

def intervalBeforeGap (l : Int) : R ZI := do
  let g ← get l
  let t ← untrusted (l - g.wall * NPS)
  if t < g.s then
    if !g.hasStart then .error .runtimeError else do
      let u ← untrusted (g.s - 1)
      get u
  else .ok g

def intervalAfterGap (l : Int) : R ZI := do
  let g ← get l
  let t ← untrusted (l - g.wall * NPS)
  if t < g.s then .ok g
  else
    if !g.hasEnd then .error .runtimeError else get g.e

/-- `DateTimeZone.map_local` on a valid local instant `l` -/
def mapLocal (l : Int) : R Mapping := do
  let iv ← get l
  if iv.containsLocal l then
    match ← earlierMatching get iv l with
    | some e => .ok ⟨2, e, iv⟩
    | none =>
      match ← laterMatching get iv l with
      | some la => .ok ⟨2, iv, la⟩
      | none => .ok ⟨1, iv, iv⟩
  else
    match ← earlierMatching get iv l with
    | some e => .ok ⟨1, e, e⟩
    | none =>
      match ← laterMatching get iv l with
      | some la => .ok ⟨1, la, la⟩
      | none => do
        let b ← intervalBeforeGap get l
        let a ← intervalAfterGap get l
        .ok ⟨0, b, a⟩

/-- instant of `local.with_offset(wall)` as used by first()/last(): `l - wall`, must be a valid instant
    for the resulting ZonedDateTime to be usable (`to_instant` raises otherwise). -/
def buildInstant (l : Int) (z : ZI) : R Int := untrusted (l - z.wall * NPS)

/-- results of the mapping as instants, earlier first -/
def Mapping.instants (m : Mapping) (l : Int) : R (List Int) :=
  match m.count with
  | 0 => .ok []
  | 1 => do let a ← buildInstant l m.early; .ok [a]
  | _ => do let a ← buildInstant l m.early; let b ← buildInstant l m.late; .ok [a, b]

/-- strict resolver -/
def atStrictly (l : Int) : R Int := do
  let m ← mapLocal get l
  match m.count with
  | 0 => .error .skippedTime
  | 1 => buildInstant l m.early
  | _ => .error .ambiguousTime

/-- lenient resolver: earlier of two; a skipped time is shifted forward by the length of the gap -/
def atLeniently (l : Int) : R Int := do
  let m ← mapLocal get l
  match m.count with
  | 0 =>
    -- OffsetDateTime(local, before.wall).with_offset(after.wall): same instant l - before.wall
    untrusted (l - m.early.wall * NPS)
  | _ => buildInstant l m.early

/-- `at_start_of_day` for the local midnight `l` (a multiple of one day) of a date -/
def atStartOfDay (l : Int) : R Int := do
  let m ← mapLocal get l
  match m.count with
  | 0 =>
    let iv := m.late
    if !iv.hasStart then .error .runtimeError else
    -- OffsetDateTime(instant=iv.start, offset=iv.wall): its local date must be the requested date
    let loc := iv.s + iv.wall * NPS
    if dayOf loc ≠ dayOf l then .error .skippedTime else .ok iv.s
  | _ => buildInstant l m.early

/-! ### `ZoneLocalMapping.single/first/last` and the stock resolvers (`Resolvers.*`, `create_mapping_resolver`)
    Results are the instants of the returned `ZonedDateTime`s (`to_instant()`), as everywhere in this model. -/

/-- `ZoneLocalMapping.single()` -/
def Mapping.single (m : Mapping) (l : Int) : R Int :=
  match m.count with
  | 0 => .error .skippedTime
  | 1 => buildInstant l m.early
  | _ => .error .ambiguousTime

/-- `ZoneLocalMapping.first()` -/
def Mapping.first (m : Mapping) (l : Int) : R Int :=
  match m.count with
  | 0 => .error .skippedTime
  | _ => buildInstant l m.early

/-- `ZoneLocalMapping.last()` -/
def Mapping.last (m : Mapping) (l : Int) : R Int :=
  match m.count with
  | 0 => .error .skippedTime
  | 1 => buildInstant l m.early
  | _ => buildInstant l m.late

/-- the three stock `AmbiguousTimeResolver`s -/
inductive AmbRes | earlier | later | throw
  deriving DecidableEq, Repr

/-- the four stock `SkippedTimeResolver`s -/
inductive SkipRes | endOfBefore | startOfAfter | forwardShifted | throw
  deriving DecidableEq, Repr

/-- a stock skipped-time resolver applied to the mapping of a skipped local instant `l`:
    `return_end_of_interval_before` = `ZonedDateTime(instant = before.end - 1ns)`,
    `return_start_of_interval_after` = `ZonedDateTime(instant = after.start)`,
    `return_forward_shifted` = `OffsetDateTime(l, before.wall).with_offset(after.wall)` (instant `l - before.wall`) -/
def SkipRes.apply (s : SkipRes) (m : Mapping) (l : Int) : R Int :=
  match s with
  | .endOfBefore => if !m.early.hasEnd then .error .runtimeError else untrusted (m.early.e - 1)
  | .startOfAfter => if !m.late.hasStart then .error .runtimeError else untrusted m.late.s
  | .forwardShifted => untrusted (l - m.early.wall * NPS)
  | .throw => .error .skippedTime

/-- a stock ambiguous-time resolver applied to `(mapping.first(), mapping.last())` -/
def AmbRes.apply (a : AmbRes) (m : Mapping) (l : Int) : R Int :=
  match a with
  | .earlier => buildInstant l m.early
  | .later => buildInstant l m.late
  | .throw => .error .ambiguousTime

/-- `zone.resolve_local(ldt, Resolvers.create_mapping_resolver(a, s))` -/
def resolveLocal (a : AmbRes) (s : SkipRes) (l : Int) : R Int := do
  let m ← mapLocal get l
  match m.count with
  | 0 => s.apply m l
  | 1 => buildInstant l m.early
  | _ => a.apply m l

end MapLocal

/-! ## walking a zone (get_zone_intervals) -/

def walk (get : Int → R ZI) : Nat → Int → Int → List ZI → R (List ZI)
  | 0, _, _, acc => .ok acc.reverse
  | fuel + 1, cur, stop, acc =>
    if cur < stop then do
      let z ← get cur
      walk get fuel z.e stop (z :: acc)
    else .ok acc.reverse

end Pyoda.Zone
