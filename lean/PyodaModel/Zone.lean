/- PyodaModel.Zone — placeholder until the area is modelled. -/
import PyodaModel.Prelude

namespace Pyoda.Zone

def handle (_toks : List String) : Option String := none

end Pyoda.Zone
