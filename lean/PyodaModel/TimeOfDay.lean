/-
  PyodaModel.TimeOfDay — LocalTime, _TimePeriodField and the time part of LocalDateTime.
  Transcribed from pyoda_time/_local_time.py, fields/_time_period_field.py and the
  plus_hours … plus_nanoseconds / plus(Period) / minus(Period) members of _local_date_time.py.

  The date of a LocalDateTime is represented by its day number on the shared day line; the only
  date operations needed here are `plus_days` / `plus_weeks` (`_FixedLengthDatePeriodField.add`),
  abstracted to a range check against the calendar's `[min_days, max_days]` (a `DayRange`, passed
  in by the caller).  The error kind follows the code: the "small" path (|days| < 300) raises
  OverflowError, the day-number constructor raises ValueError.  `plus_years`/`plus_months` belong
  to the calendar model (C09); `plusPeriod` here takes the day number reached after them as an input.
  The same operations with the date as (calendar, year, month, day) and all four date steps inside
  the model (`LocalDateTime.plusPeriodFull`, `LocalDate.plusPeriod`, `LocalTime.plusPeriodChecked`,
  `Period` algebra) are in PyodaModel/TimeOfDay/Full.lean, over PyodaModel.DateArith.
-/
import PyodaModel.Prelude
import PyodaModel.Elapsed

namespace Pyoda

/-- the seven `_TimePeriodField` instances -/
inductive TimeUnit where
  | hours | minutes | seconds | milliseconds | microseconds | ticks | nanoseconds
  deriving DecidableEq, Repr, Inhabited

namespace TimeUnit
/-- `__unit_nanoseconds` -/
def nanos : TimeUnit → Int
  | hours => NPH | minutes => NPMin | seconds => NPS | milliseconds => NPMs
  | microseconds => NPUs | ticks => NPT | nanoseconds => 1
/-- `__units_per_day = int(NANOSECONDS_PER_DAY / unit_nanoseconds)`; the float quotient is an exact
    integer below 2^53 for each of the seven units. -/
def unitsPerDay : TimeUnit → Int
  | hours => HPD | minutes => MinPD | seconds => SPD | milliseconds => MsPD
  | microseconds => UsPD | ticks => TPD | nanoseconds => NPD
end TimeUnit

structure LocalTime where
  nod : Int
  deriving DecidableEq, Repr, Inhabited

namespace LocalTime

def TPMs : Int := 10000   -- TICKS_PER_MILLISECOND

/-- the factories first test all ranges at once (`if <some argument out of range>:`) and only then run the
    individual `_check_argument_range` calls that produce the error -/
def guarded (c : Prop) [Decidable c] (checks : R Unit) : R Unit := if c then checks else .ok ()

/-- `LocalTime(hour, minute, second, millisecond)` -/
def new (h m s ms : Int) : R LocalTime := do
  guarded (h < 0 ∨ h > HPD - 1 ∨ m < 0 ∨ m > 60 - 1 ∨ s < 0 ∨ s > 60 - 1 ∨ ms < 0 ∨ ms > 1000 - 1) do
    checkRange h 0 (HPD - 1)
    checkRange m 0 (60 - 1)
    checkRange s 0 (60 - 1)
    checkRange ms 0 (1000 - 1)
  .ok ⟨h * NPH + m * NPMin + s * NPS + ms * NPMs⟩

/-- `from_hour_minute_second_millisecond_tick` -/
def fromHMSMsT (h m s ms t : Int) : R LocalTime := do
  guarded (h < 0 ∨ h > HPD - 1 ∨ m < 0 ∨ m > 60 - 1 ∨ s < 0 ∨ s > 60 - 1 ∨ ms < 0 ∨ ms > 1000 - 1
      ∨ t < 0 ∨ t > TPMs - 1) do
    checkRange h 0 (HPD - 1)
    checkRange m 0 (60 - 1)
    checkRange s 0 (60 - 1)
    checkRange ms 0 (1000 - 1)
    checkRange t 0 (TPMs - 1)
  .ok ⟨h * NPH + m * NPMin + s * NPS + ms * NPMs + t * NPT⟩

/-- `from_hour_minute_second_tick` -/
def fromHMST (h m s t : Int) : R LocalTime := do
  guarded (h < 0 ∨ h > HPD - 1 ∨ m < 0 ∨ m > 60 - 1 ∨ s < 0 ∨ s > 60 - 1 ∨ t < 0 ∨ t > TPS - 1) do
    checkRange h 0 (HPD - 1)
    checkRange m 0 (60 - 1)
    checkRange s 0 (60 - 1)
    checkRange t 0 (TPS - 1)
  .ok ⟨h * NPH + m * NPMin + s * NPS + t * NPT⟩

/-- `from_hour_minute_second_nanosecond` -/
def fromHMSN (h m s n : Int) : R LocalTime := do
  guarded (h < 0 ∨ h > HPD - 1 ∨ m < 0 ∨ m > 60 - 1 ∨ s < 0 ∨ s > 60 - 1 ∨ n < 0 ∨ n > NPS - 1) do
    checkRange h 0 (HPD - 1)
    checkRange m 0 (60 - 1)
    checkRange s 0 (60 - 1)
    checkRange n 0 (NPS - 1)
  .ok ⟨h * NPH + m * NPMin + s * NPS + n⟩

/-- `from_nanoseconds_since_midnight` -/
def fromNanosSinceMidnight (n : Int) : R LocalTime := do
  guarded (n < 0 ∨ n > NPD - 1) (checkRange n 0 (NPD - 1))
  .ok ⟨n⟩

/-- `from_<unit>_since_midnight` for hours, minutes, seconds, milliseconds, ticks: range check,
    then `_int64_overflow(value * nanoseconds_per_unit)` -/
def fromUnitsSinceMidnight (v perDay nanosPerUnit : Int) : R LocalTime := do
  guarded (v < 0 ∨ v > perDay - 1) (checkRange v 0 (perDay - 1))
  .ok ⟨int64Overflow (v * nanosPerUnit)⟩

def fromTicksSinceMidnight (v : Int) : R LocalTime := fromUnitsSinceMidnight v TPD NPT
def fromMillisecondsSinceMidnight (v : Int) : R LocalTime := fromUnitsSinceMidnight v MsPD NPMs
def fromSecondsSinceMidnight (v : Int) : R LocalTime := fromUnitsSinceMidnight v SPD NPS
def fromMinutesSinceMidnight (v : Int) : R LocalTime := fromUnitsSinceMidnight v MinPD NPMin
def fromHoursSinceMidnight (v : Int) : R LocalTime := fromUnitsSinceMidnight v HPD NPH

/-! accessors, as coded -/
def hour (t : LocalTime) : R Int := pyTdiv (t.nod >>> 13) 439453125
def clockHourOfHalfDay (t : LocalTime) : R Int := do
  let h ← t.hour
  let x := int32Overflow (csharpMod h 12)
  .ok (if x = 0 then 12 else x)
def minute (t : LocalTime) : R Int := do
  let q ← pyTdiv (t.nod >>> 11) 29296875
  .ok (csharpMod q 60)
def second (t : LocalTime) : R Int := do let q ← pyTdiv t.nod NPS; .ok (csharpMod q 60)
def millisecond (t : LocalTime) : R Int := do let q ← pyTdiv t.nod NPMs; .ok (csharpMod q 1000)
def microsecond (t : LocalTime) : R Int := do let q ← pyTdiv t.nod NPUs; .ok (csharpMod q 1000000)
def tickOfDay (t : LocalTime) : R Int := pyTdiv t.nod NPT
def tickOfSecond (t : LocalTime) : R Int := do
  let q ← t.tickOfDay
  .ok (int32Overflow (csharpMod q TPS))
def nanosecondOfSecond (t : LocalTime) : Int := int32Overflow (csharpMod t.nod NPS)
def nanosecondOfDay (t : LocalTime) : Int := t.nod

/-! comparison -/
def beq (a b : LocalTime) : Bool := decide (a.nod = b.nod)
def lt (a b : LocalTime) : Bool := decide (a.nod < b.nod)
def le (a b : LocalTime) : Bool := decide (a.nod ≤ b.nod)
def gt (a b : LocalTime) : Bool := decide (a.nod > b.nod)
def ge (a b : LocalTime) : Bool := decide (a.nod ≥ b.nod)
def compareTo (a b : LocalTime) : Int := a.nod - b.nod

end LocalTime

/-! ## _TimePeriodField -/

namespace TimeUnit

/-- `_add_local_time`.  (The negative branch tests `value <= units_per_day`, which always holds
    there, so the amount is always reduced.) -/
def addLocalTime (u : TimeUnit) (t : LocalTime) (value : Int) : LocalTime :=
  if value > 0 then
    let value := if value > u.unitsPerDay then csharpMod value u.unitsPerDay else value
    let n := t.nod + value * u.nanos
    if n ≥ NPD then ⟨n - NPD⟩ else ⟨n⟩
  else
    let value := if value ≤ u.unitsPerDay then csharpMod value u.unitsPerDay else value
    let n := t.nod + value * u.nanos
    if n < 0 then ⟨n + NPD⟩ else ⟨n⟩

/-- the `(days, value)` split at the head of both branches of `_add_local_time_with_extra_days`;
    `q` is the whole-day quotient the branch computes -/
def splitDays (u : TimeUnit) (big : Bool) (q value : Int) : Int × Int :=
  if big then (q, csharpMod value u.unitsPerDay) else (0, value)

/-- `_add_local_time_with_extra_days` (exact integer division: `value // upd` for non-negative amounts,
    `-(-value // upd)` for negative ones; total for every integer amount) -/
def addLocalTimeWithExtraDays (u : TimeUnit) (t : LocalTime) (value : Int) : LocalTime × Int :=
  if value = 0 then (t, 0)
  else if value ≥ 0 then
    let dv := u.splitDays (decide (value ≥ u.unitsPerDay)) (Int.fdiv value u.unitsPerDay) value
    let n := t.nod + dv.2 * u.nanos
    if n ≥ NPD then (⟨n - NPD⟩, dv.1 + 1) else (⟨n⟩, dv.1)
  else
    let dv := u.splitDays (decide (value ≤ -u.unitsPerDay)) (-(Int.fdiv (-value) u.unitsPerDay)) value
    let n := t.nod + dv.2 * u.nanos
    if n < 0 then (⟨n + NPD⟩, dv.1 - 1) else (⟨n⟩, dv.1)

end TimeUnit

/-! ## the date as a day number -/

/-- `[min_days, max_days]` of the calendar of a date -/
structure DayRange where
  minD : Int
  maxD : Int
  deriving DecidableEq, Repr, Inhabited

/-- `_FixedLengthDatePeriodField(unit_days).add(date, value)` on day numbers: the path below 300
    days works on year/day-of-year and raises OverflowError when it leaves the calendar's years,
    the other path builds the date from the day number (ValueError outside the range). -/
def DayRange.addFixed (r : DayRange) (unitDays day value : Int) : R Int :=
  if value = 0 then .ok day
  else
    let dta := value * unitDays
    let nd := day + dta
    if 300 > dta ∧ dta > -300 then
      if nd < r.minD ∨ nd > r.maxD then .error .overflowError else .ok nd
    else
      if nd < r.minD ∨ nd > r.maxD then .error .valueError else .ok nd

def DayRange.plusDays (r : DayRange) (day k : Int) : R Int := r.addFixed 1 day k
def DayRange.plusWeeks (r : DayRange) (day k : Int) : R Int := r.addFixed 7 day k

structure LocalDateTime where
  day  : Int
  time : LocalTime
  deriving DecidableEq, Repr, Inhabited

/-- the ten components of a `Period`; `dayAfterYM` stands for the effect of the years and months:
    the day number of `date.plus_years(years).plus_months(months)` -/
structure TimePeriod where
  weeks : Int
  days : Int
  hours : Int
  minutes : Int
  seconds : Int
  milliseconds : Int
  ticks : Int
  nanoseconds : Int
  deriving DecidableEq, Repr, Inhabited

namespace TimeUnit

/-- `_add_local_date_time` -/
def addLocalDateTime (u : TimeUnit) (r : DayRange) (start : LocalDateTime) (units : Int) : R LocalDateTime := do
  let te := u.addLocalTimeWithExtraDays start.time units
  let date ← (if te.2 = 0 then .ok start.day else r.plusDays start.day te.2 : R Int)
  .ok ⟨date, te.1⟩

/-- `_units_between` / `_get_units_in_duration` -/
def unitsBetween (u : TimeUnit) (s e : LocalDateTime) : R Int := do
  let a ← Duration.ctor s.day s.time.nod
  let b ← Duration.ctor e.day e.time.nod
  let d ← Duration.sub b a
  pyTdiv d.toNanos u.nanos

end TimeUnit

namespace LocalTime
/-- `LocalTime + Period` for a period without date components -/
def plusPeriod (t : LocalTime) (p : TimePeriod) : LocalTime :=
  let t := TimeUnit.hours.addLocalTime t p.hours
  let t := TimeUnit.minutes.addLocalTime t p.minutes
  let t := TimeUnit.seconds.addLocalTime t p.seconds
  let t := TimeUnit.milliseconds.addLocalTime t p.milliseconds
  let t := TimeUnit.ticks.addLocalTime t p.ticks
  TimeUnit.nanoseconds.addLocalTime t p.nanoseconds
end LocalTime

def TimePeriod.neg (p : TimePeriod) : TimePeriod :=
  ⟨-p.weeks, -p.days, -p.hours, -p.minutes, -p.seconds, -p.milliseconds, -p.ticks, -p.nanoseconds⟩

namespace LocalDateTime

/-- the six time-unit steps of `plus(Period)`: the time of day and the sum of the extra days -/
def timeSteps (t : LocalTime) (p : TimePeriod) : LocalTime × Int :=
  let a := TimeUnit.hours.addLocalTimeWithExtraDays t p.hours
  let b := TimeUnit.minutes.addLocalTimeWithExtraDays a.1 p.minutes
  let c := TimeUnit.seconds.addLocalTimeWithExtraDays b.1 p.seconds
  let d := TimeUnit.milliseconds.addLocalTimeWithExtraDays c.1 p.milliseconds
  let e := TimeUnit.ticks.addLocalTimeWithExtraDays d.1 p.ticks
  let f := TimeUnit.nanoseconds.addLocalTimeWithExtraDays e.1 p.nanoseconds
  (f.1, a.2 + b.2 + c.2 + d.2 + e.2 + f.2)

/-- `LocalDateTime.plus(period)`; `dayAfterYM` = day number of
    `self.date.plus_years(period.years).plus_months(period.months)`.
    `minus(period)` is the same computation on the negated components
    (`extra_days - other.days` = `(-other.days) + extra_days`). -/
def plusPeriod (r : DayRange) (l : LocalDateTime) (dayAfterYM : Int) (p : TimePeriod) : R LocalDateTime := do
  let te := timeSteps l.time p
  let d1 ← r.plusWeeks dayAfterYM p.weeks
  let d2 ← r.plusDays d1 (p.days + te.2)
  .ok ⟨d2, te.1⟩

end LocalDateTime

/-! ## line protocol -/

namespace TimeOfDay

def showI (r : R Int) : String := showR toString r
def showT (r : R LocalTime) : String := showR (fun t => toString t.nod) r
/-- Date-range failures are printed as `!range` whatever their kind: the code raises OverflowError or
    ValueError depending on the path taken inside the calendar (the Badíʿ calendar raises ValueError where
    the others raise OverflowError); the property only asks for an error. -/
def showLdt : R LocalDateTime → String
  | .ok l => toString l.day ++ " " ++ toString l.time.nod
  | .error .valueError => "!range"
  | .error .overflowError => "!range"
  | .error e => "!" ++ e.name

def unit? : String → Option TimeUnit
  | "hours" => some .hours | "minutes" => some .minutes | "seconds" => some .seconds
  | "milliseconds" => some .milliseconds | "microseconds" => some .microseconds
  | "ticks" => some .ticks | "nanoseconds" => some .nanoseconds | _ => none

def accLine (t : LocalTime) : String :=
  " ".intercalate [showI t.hour, showI t.clockHourOfHalfDay, showI t.minute, showI t.second,
    showI t.millisecond, showI t.microsecond, showI t.tickOfSecond, showI t.tickOfDay,
    toString t.nanosecondOfSecond, toString t.nanosecondOfDay]

def handle (toks : List String) : Option String :=
  match toks with
  | ["tod.new", h, m, s, ms] => do
      match ← parseInts? [h, m, s, ms] with
      | [h, m, s, ms] => some (showT (LocalTime.new h m s ms)) | _ => none
  | ["tod.hmsmt", h, m, s, ms, t] => do
      match ← parseInts? [h, m, s, ms, t] with
      | [h, m, s, ms, t] => some (showT (LocalTime.fromHMSMsT h m s ms t)) | _ => none
  | ["tod.hmst", h, m, s, t] => do
      match ← parseInts? [h, m, s, t] with
      | [h, m, s, t] => some (showT (LocalTime.fromHMST h m s t)) | _ => none
  | ["tod.hmsn", h, m, s, n] => do
      match ← parseInts? [h, m, s, n] with
      | [h, m, s, n] => some (showT (LocalTime.fromHMSN h m s n)) | _ => none
  | ["tod.since", u, n] => do
      let n ← parseInt? n
      match u with
      | "hours" => some (showT (LocalTime.fromHoursSinceMidnight n))
      | "minutes" => some (showT (LocalTime.fromMinutesSinceMidnight n))
      | "seconds" => some (showT (LocalTime.fromSecondsSinceMidnight n))
      | "milliseconds" => some (showT (LocalTime.fromMillisecondsSinceMidnight n))
      | "ticks" => some (showT (LocalTime.fromTicksSinceMidnight n))
      | "nanoseconds" => some (showT (LocalTime.fromNanosSinceMidnight n))
      | _ => none
  | ["tod.acc", n] => do let n ← parseInt? n; some (accLine ⟨n⟩)
  | ["tod.cmp", a, b] => do
      let a ← parseInt? a; let b ← parseInt? b
      let x : LocalTime := ⟨a⟩; let y : LocalTime := ⟨b⟩
      let s := LocalTime.compareTo x y
      some (" ".intercalate [showBool (x.beq y), showBool (x.lt y), showBool (x.le y), showBool (x.gt y),
        showBool (x.ge y), toString (if s < 0 then (-1 : Int) else if s > 0 then 1 else 0)])
  | ["tod.plus", u, n, k] => do
      let u ← unit? u; let n ← parseInt? n; let k ← parseInt? k
      some (toString (u.addLocalTime ⟨n⟩ k).nod)
  | ["tod.plusperiod", sg, n, h, mi, s, ms, t, ns] => do
      match ← parseInts? [sg, n, h, mi, s, ms, t, ns] with
      | [sg, n, h, mi, s, ms, t, ns] =>
        let p : TimePeriod := ⟨0, 0, h, mi, s, ms, t, ns⟩
        if sg = 1 then some (toString (LocalTime.plusPeriod ⟨n⟩ p).nod)
        else if sg = -1 then some (toString (LocalTime.plusPeriod ⟨n⟩ p.neg).nod)
        else none
      | _ => none
  | ["tod.adddays", u, n, k] => do
      let u ← unit? u; let n ← parseInt? n; let k ← parseInt? k
      let r := u.addLocalTimeWithExtraDays ⟨n⟩ k
      some (toString r.1.nod ++ " " ++ toString r.2)
  | ["ldt.plus", _cal, u, lo, hi, d, n, k] => do
      let u ← unit? u
      match ← parseInts? [lo, hi, d, n, k] with
      | [lo, hi, d, n, k] => some (showLdt (u.addLocalDateTime ⟨lo, hi⟩ ⟨d, ⟨n⟩⟩ k))
      | _ => none
  | ["ldt.plusperiod", _cal, sg, lo, hi, d, n, _y, _m, d1, w, dd, h, mi, s, ms, t, ns] => do
      match ← parseInts? [sg, lo, hi, d, n, d1, w, dd, h, mi, s, ms, t, ns] with
      | [sg, lo, hi, d, n, d1, w, dd, h, mi, s, ms, t, ns] =>
        let p : TimePeriod := ⟨w, dd, h, mi, s, ms, t, ns⟩
        if sg = 1 then some (showLdt (LocalDateTime.plusPeriod ⟨lo, hi⟩ ⟨d, ⟨n⟩⟩ d1 p))
        else if sg = -1 then some (showLdt (LocalDateTime.plusPeriod ⟨lo, hi⟩ ⟨d, ⟨n⟩⟩ d1 p.neg))
        else none
      | _ => none
  | ["ldt.between", _cal, u, d1, n1, d2, n2] => do
      let u ← unit? u
      match ← parseInts? [d1, n1, d2, n2] with
      | [d1, n1, d2, n2] => some (showI (u.unitsBetween ⟨d1, ⟨n1⟩⟩ ⟨d2, ⟨n2⟩⟩))
      | _ => none
  | _ => none

end TimeOfDay
end Pyoda
