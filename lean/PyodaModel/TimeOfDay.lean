/- PyodaModel.TimeOfDay — placeholder until the area is modelled. -/
import PyodaModel.Prelude

namespace Pyoda.TimeOfDay

def handle (_toks : List String) : Option String := none

end Pyoda.TimeOfDay
