/- Line protocol of the Zone area (stateful: zone definitions are sent once, then queried). -/
import PyodaModel.Zone
import Std.Data.HashMap

namespace Pyoda.Zone

abbrev Registry := Std.HashMap String ZoneDef

def hexToString? (s : String) : Option String := do
  let bs ← parseHex? s
  some (String.ofList (bs.map Char.ofNat))   -- names are ASCII in tz data; non-ASCII bytes map to Latin-1 code points

def strToHex (s : String) : String := showHex (s.toList.map (fun c => c.toNat % 256))

def showZI (z : ZI) : String :=
  s!"{z.s} {z.e} {strToHex z.name} {z.wall} {z.savings}"

def parseZI? : List String → Option (ZI × List String)
  | s :: e :: n :: w :: sv :: rest => do
    let s ← parseInt? s; let e ← parseInt? e; let n ← hexToString? n
    let w ← parseInt? w; let sv ← parseInt? sv
    some (⟨s, e, n, w, sv⟩, rest)
  | _ => none

def parseZIs? : Nat → List String → Array ZI → Option (Array ZI × List String)
  | 0, rest, acc => some (acc, rest)
  | n + 1, toks, acc => do
    let (z, rest) ← parseZI? toks
    parseZIs? n rest (acc.push z)

/-- nameHex savings mode month dom dow advance tod addDay from to -/
def parseRec? : List String → Option (Recurrence × List String)
  | n :: sv :: mode :: month :: dom :: dow :: adv :: tod :: addd :: fr :: to :: rest => do
    let n ← hexToString? n
    let l ← parseInts? [sv, mode, month, dom, dow, adv, tod, addd, fr, to]
    match l with
    | [sv, mode, month, dom, dow, adv, tod, addd, fr, to] =>
      some (⟨n, sv, ⟨mode, month, dom, dow, adv ≠ 0, tod, addd ≠ 0⟩, fr, to⟩, rest)
    | _ => none
  | _ => none

def parseDef? : List String → Option ZoneDef
  | "fixed" :: rest => do
    let (z, r) ← parseZI? rest
    if r.isEmpty then some (.fixed z) else none
  | "precalc" :: n :: rest => do
    let n ← n.toNat?
    let (ps, rest) ← parseZIs? n rest #[]
    match rest with
    | ["0"] => some (.precalc ⟨ps, none⟩)
    | "1" :: std :: rest => do
      let std ← parseInt? std
      let (sr, rest) ← parseRec? rest
      let (dr, rest) ← parseRec? rest
      if rest.isEmpty then some (.precalc ⟨ps, some ⟨std, sr, dr⟩⟩) else none
    | _ => none
  | _ => none

def showMapping (m : Mapping) : String :=
  s!"{m.count} {m.early.s} {m.early.e} {m.early.wall} {m.late.s} {m.late.e} {m.late.wall}"

/-- decidable well-formedness facts about a precalculated zone, evaluated on the data:
    validate, sorted/abutting, every finite period ≥ 36 h, offsets within ±18 h -/
def minLen (ps : Array ZI) : Int :=
  ps.foldl (fun acc z => if isValid z.s && isValid z.e then min acc (z.e - z.s) else acc) AMAX

def periodsWF (ps : Array ZI) : Bool :=
  ps.size > 0 &&
  (match ps[0]? with | some z => z.s == BMIN | none => false) &&
  ps.all (fun z => decide (z.s < z.e) && decide (-64800 ≤ z.wall) && decide (z.wall ≤ 64800)) &&
  (List.range (ps.size - 1)).all (fun i =>
    match ps[i]?, ps[i+1]? with
    | some a, some b => a.e == b.s && isValid a.e
    | _, _ => false)

/-- data check for zones without a recurring tail: together with `periodsWF` it yields the hypotheses of the
    local-mapping theorems (proved in PyodaProofs.C04Spec) -/
def dataOK (p : Precalc) : Bool :=
  periodsWF p.periods && p.tail.isNone && (p.tailStart == AMAX) &&
  p.periods.all (fun z => decide (MINI ≤ z.s → z.e ≤ MAXI → z.e - z.s ≥ 2 * (64800 * NPS)))

/-! ### decidable per-year facts about a recurring tail (hypotheses of `C04.altmap_partition`) -/

def allYears (lo hi : Int) (p : Int → Bool) : Bool :=
  (List.range (hi - lo + 1).toNat).all (fun i => p (lo + (i : Int)))

def occOf (yo : YearOffset) (y : Int) : Int :=
  match yo.occurrence y with | .ok v => v | .error _ => 0

def ysNsM (y : Int) : Int := Calendar.Greg.start y * NPD

/-- the rule's occurrence exists and lies inside its own local year, for every year of `lo … hi` -/
def ruleOK (yo : YearOffset) (lo hi : Int) : Bool :=
  decide (-9998 < lo) && decide (hi + 3 ≤ 9999) &&
  allYears lo hi (fun y =>
    match yo.occurrence y with
    | .ok v => decide (ysNsM y ≤ v) && decide (v < ysNsM (y + 1))
    | .error _ => false)

def roOf (yo : YearOffset) (std ps : Int) : Int :=
  match yo.ruleOffset std ps with | .ok v => v | .error _ => 0

/-- transition instants of the two rules -/
def tdOf (m : AltMap) (y : Int) : Int := occOf m.dstRec.yo y - roOf m.dstRec.yo m.std 0 * NPS
def tsOf (m : AltMap) (y : Int) : Int := occOf m.stdRec.yo y - roOf m.stdRec.yo m.std m.dstRec.savings * NPS

def tailBase (m : AltMap) (lo hi : Int) : Bool :=
  decide (m.dstRec.fromYear = INT_MIN) && decide (m.dstRec.toYear = INT_MAX) &&
  decide (m.stdRec.fromYear = INT_MIN) && decide (m.stdRec.toYear = INT_MAX) &&
  decide (m.stdRec.savings = 0) &&
  decide (-64800 ≤ m.std) && decide (m.std ≤ 64800) &&
  decide (-64800 ≤ m.std + m.dstRec.savings) && decide (m.std + m.dstRec.savings ≤ 64800) &&
  (match m.dstRec.yo.ruleOffset m.std 0 with | .ok v => decide (-64800 ≤ v) && decide (v ≤ 64800) | .error _ => false) &&
  (match m.stdRec.yo.ruleOffset m.std m.dstRec.savings with | .ok v => decide (-64800 ≤ v) && decide (v ≤ 64800) | .error _ => false) &&
  ruleOK m.dstRec.yo lo hi && ruleOK m.stdRec.yo lo hi

def altD (m : AltMap) (lo hi : Int) : Bool :=
  allYears lo hi (fun y => decide (tdOf m y < tsOf m y) && (decide (y = hi) || decide (tsOf m y < tdOf m (y + 1))))

def altS (m : AltMap) (lo hi : Int) : Bool :=
  allYears lo hi (fun y => decide (tsOf m y < tdOf m y) && (decide (y = hi) || decide (tdOf m y < tsOf m (y + 1))))

/-- 1 = daylight rule first in each year, 2 = standard rule first, 0 = the check fails -/
def tailOK (m : AltMap) (lo hi : Int) : Nat :=
  if tailBase m lo hi then (if altD m lo hi then 1 else if altS m lo hi then 2 else 0) else 0

def maximal (ps : Array ZI) : Bool :=
  (List.range (ps.size - 1)).all (fun i =>
    match ps[i]?, ps[i+1]? with
    | some a, some b => !(a.name == b.name && a.wall == b.wall && a.savings == b.savings)
    | _, _ => false)

def step (reg : Registry) (toks : List String) : Option (Registry × String) :=
  match toks with
  | "zone.def" :: zid :: rest => do
    let d ← parseDef? rest
    some (reg.insert zid d, "ok")
  | ["zone.get", zid, t] => do
    let d ← reg.get? zid
    let t ← parseInt? t
    some (reg, showR showZI (d.get t))
  | ["zone.maplocal", zid, l] => do
    let d ← reg.get? zid
    let l ← parseInt? l
    some (reg, showR showMapping (mapLocal d.get l))
  | ["zone.maplocal", zid, l, _cal] => do
    let d ← reg.get? zid
    let l ← parseInt? l
    some (reg, showR showMapping (mapLocal d.get l))
  | ["zone.resolve", zid, l] => do
    let d ← reg.get? zid
    let l ← parseInt? l
    let inst := showR (fun m => showR showInts (Mapping.instants m l)) (mapLocal d.get l)
    some (reg, s!"{inst} | {showR toString (atStrictly d.get l)} | {showR toString (atLeniently d.get l)}")
  | "zone.resolvers" :: zid :: l :: _cal => do
    let d ← reg.get? zid
    let l ← parseInt? l
    match mapLocal d.get l with
    | .error e => some (reg, s!"!{e.name}")
    | .ok m =>
      let sh := showR (fun (t : Int) => toString t)
      let combos := [AmbRes.earlier, AmbRes.later, AmbRes.throw].flatMap fun a =>
        [SkipRes.endOfBefore, SkipRes.startOfAfter, SkipRes.forwardShifted, SkipRes.throw].map fun s =>
          sh (resolveLocal d.get a s l)
      some (reg, s!"{sh (m.single l)} | {sh (m.first l)} | {sh (m.last l)} | {" ".intercalate combos}")
  | ["zone.startofday", zid, l] => do
    let d ← reg.get? zid
    let l ← parseInt? l
    some (reg, showR toString (atStartOfDay d.get l))
  | ["zone.startofday", zid, l, _cal] => do
    let d ← reg.get? zid
    let l ← parseInt? l
    some (reg, showR toString (atStartOfDay d.get l))
  | ["zone.walk", zid, fr, to, maxn] => do
    let d ← reg.get? zid
    let fr ← parseInt? fr; let to ← parseInt? to; let maxn ← maxn.toNat?
    some (reg, showR (fun l => s!"{l.length}" ++ String.join (l.map (fun z => " | " ++ showZI z))) (walk d.get maxn fr to []))
  | ["zone.wf", zid] => do
    let d ← reg.get? zid
    match d with
    | .fixed z => some (reg, s!"fixed {z.wall}")
    | .precalc p =>
      some (reg, s!"{showBool p.validate} {showBool (periodsWF p.periods)} {showBool (maximal p.periods)} {minLen p.periods} {p.minOffset} {p.maxOffset} {showBool (dataOK p)}")
  | ["tail.ok", zid, lo, hi] => do
    let d ← reg.get? zid
    let lo ← parseInt? lo; let hi ← parseInt? hi
    match d with
    | .precalc ⟨_, some m⟩ => some (reg, toString (tailOK m lo hi))
    | _ => some (reg, "none")
  | ["zone.safeplus", t, off] => do
    let t ← parseInt? t; let off ← parseInt? off
    some (reg, s!"{safePlus t (off * NPS)} {safeMinus t (off * NPS)}")
  | ["greg.ymd", y, m, d] => do
    let y ← parseInt? y; let m ← parseInt? m; let d ← parseInt? d
    let n := daysFromCivil y m d
    some (reg, s!"{n} {showR toString (yearOfDays n)} {dayOfWeek n} {daysInMonth y m} {showBool (isLeap y)}")
  | ["rule.occ", mode, month, dom, dow, adv, tod, addd, year] => do
    let l ← parseInts? [mode, month, dom, dow, adv, tod, addd, year]
    match l with
    | [mode, month, dom, dow, adv, tod, addd, year] =>
      some (reg, showR toString ((⟨mode, month, dom, dow, adv ≠ 0, tod, addd ≠ 0⟩ : YearOffset).occurrence year))
    | _ => none
  | _ => none

end Pyoda.Zone
