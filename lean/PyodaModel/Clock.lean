/- PyodaModel.Clock — placeholder until the area is modelled. -/
import PyodaModel.Prelude

namespace Pyoda.Clock

def handle (_toks : List String) : Option String := none

end Pyoda.Clock
