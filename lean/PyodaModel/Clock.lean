/-
  PyodaModel.Clock — FakeClock (pyoda_time/testing/_fake_clock.py), ZonedClock (pyoda_time/_zoned_clock.py).

  1. `FakeClock` as a state machine `(now, autoAdvance)` with `step : FakeClock → Op → FakeClock × Out`.
     A Python exception inside an operation (`Duration.from_<unit>` out of range, `Instant + Duration`
     out of range) leaves the state unchanged and is the operation's output.
     The model is the *intended* behaviour of `advance_<unit>`: build the Duration, then `advance` it.
  2. `Spec`: the trivial model over two integers (nanoseconds).
  3. An interleaving model: every operation is the sequence of atomic actions
     `acquire ; load ; commit ; release` on a non-re-entrant lock (`threading.Lock`): `load` reads
     `self.__now` into a thread-local, `commit` writes the state computed from that local value
     (`self.__now += d` is a read followed by a write). `compilePinned` is what the pinned tree does for
     `advance_<unit>`: the lock is taken, then `advance` takes it again.
  4. `ZonedClock`: a read of the wrapped clock rendered by a function of the instant.
-/
import PyodaModel.Prelude
import PyodaModel.Elapsed

namespace Pyoda.Clock
open Pyoda

structure FakeClock where
  now : Instant
  auto : Duration
  deriving DecidableEq, Repr, Inhabited

inductive TUnit
  | nanoseconds | ticks | milliseconds | seconds | minutes | hours | days
  deriving DecidableEq, Repr, Inhabited

/-- `Duration.from_<unit>(n)` as called by `FakeClock.advance_<unit>` -/
def unitDur : TUnit → Int → R Duration
  | .nanoseconds => Duration.fromNanoseconds
  | .ticks => Duration.fromTicks
  | .milliseconds => Duration.fromMilliseconds
  | .seconds => Duration.fromSeconds
  | .minutes => Duration.fromMinutes
  | .hours => Duration.fromHours
  | .days => Duration.fromDays

inductive Op
  | read                               -- get_current_instant()
  | advance (d : Duration)             -- advance(duration)
  | advanceUnit (u : TUnit) (n : Int)  -- advance_<unit>(n)
  | reset (i : Instant)                -- reset(instant)
  | setAuto (d : Duration)             -- auto_advance = d
  | getAuto                            -- auto_advance
  deriving DecidableEq, Repr, Inhabited

inductive Out
  | instant (i : Instant)
  | unit
  | dur (d : Duration)
  | err (e : PyExc)
  deriving DecidableEq, Repr, Inhabited

/-- The effect of an operation's critical section, given the value `tmp` it read from `self.__now`. -/
def commitStep (c : FakeClock) (tmp : Instant) : Op → FakeClock × Out
  | .read =>
    match tmp.plus c.auto with
    | .ok n => ({ c with now := n }, .instant tmp)
    | .error e => (c, .err e)
  | .advance d =>
    match tmp.plus d with
    | .ok n => ({ c with now := n }, .unit)
    | .error e => (c, .err e)
  | .advanceUnit u k =>
    match unitDur u k with
    | .error e => (c, .err e)
    | .ok d =>
      match tmp.plus d with
      | .ok n => ({ c with now := n }, .unit)
      | .error e => (c, .err e)
  | .reset i => ({ c with now := i }, .unit)
  | .setAuto d => ({ c with auto := d }, .unit)
  | .getAuto => (c, .dur c.auto)

/-- One operation of the sequential state machine. -/
def step (c : FakeClock) (op : Op) : FakeClock × Out := commitStep c c.now op

/-- Run a finite sequence of operations; the outputs in order. -/
def run (c : FakeClock) : List Op → FakeClock × List Out
  | [] => (c, [])
  | op :: rest =>
    let (c1, o) := step c op
    let (c2, os) := run c1 rest
    (c2, o :: os)

/-! ## the trivial model -/

structure Spec where
  now : Int      -- nanoseconds since the epoch
  auto : Int     -- nanoseconds
  deriving DecidableEq, Repr, Inhabited

def TUnit.nanos : TUnit → Int
  | .nanoseconds => 1 | .ticks => NPT | .milliseconds => NPMs | .seconds => NPS
  | .minutes => NPMin | .hours => NPH | .days => NPD

inductive SOp
  | read | advance (ns : Int) | advanceUnit (u : TUnit) (n : Int) | reset (ns : Int) | setAuto (ns : Int) | getAuto
  deriving DecidableEq, Repr, Inhabited

inductive SOut
  | instant (ns : Int) | unit | dur (ns : Int) | err (e : PyExc)
  deriving DecidableEq, Repr, Inhabited

/-- `now + d` as an Instant: `ValueError` when the sum leaves the Duration range (cannot happen for two
    values the public API produces unless the Instant range is left as well, but it is what is raised),
    `OverflowError` when it leaves `[Instant.min_value, Instant.max_value]`. -/
def addInstant (now d : Int) : Except PyExc Int :=
  if now + d < Duration.MIN_NANOS ∨ now + d > Duration.MAX_NANOS then .error .valueError
  else if now + d < Instant.MIN_DAYS * NPD ∨ now + d ≥ (Instant.MAX_DAYS + 1) * NPD then .error .overflowError
  else .ok (now + d)

def specStep (s : Spec) : SOp → Spec × SOut
  | .read =>
    match addInstant s.now s.auto with
    | .ok n => ({ s with now := n }, .instant s.now)
    | .error e => (s, .err e)
  | .advance d =>
    match addInstant s.now d with
    | .ok n => ({ s with now := n }, .unit)
    | .error e => (s, .err e)
  | .advanceUnit u k =>
    if k * u.nanos < Duration.MIN_NANOS ∨ k * u.nanos > Duration.MAX_NANOS then (s, .err .valueError)
    else
      match addInstant s.now (k * u.nanos) with
      | .ok n => ({ s with now := n }, .unit)
      | .error e => (s, .err e)
  | .reset i => ({ s with now := i }, .unit)
  | .setAuto d => ({ s with auto := d }, .unit)
  | .getAuto => (s, .dur s.auto)

def runSpec (s : Spec) : List SOp → Spec × List SOut
  | [] => (s, [])
  | op :: rest =>
    let (s1, o) := specStep s op
    let (s2, os) := runSpec s1 rest
    (s2, o :: os)

/-! ## threads: atomic actions and a non-re-entrant lock -/

inductive Act
  | acquire | release | load | commit (op : Op)
  deriving DecidableEq, Repr, Inhabited

/-- every public method: `with self.__lock: <read now> ; <write state>` -/
def compile (op : Op) : List Act := [.acquire, .load, .commit op, .release]

/-- the pinned tree: `advance_<unit>` wraps a call of `advance` (which takes the lock) in `with self.__lock:` -/
def compilePinned : Op → List Act
  | .advanceUnit u n => [.acquire, .acquire, .load, .commit (.advanceUnit u n), .release, .release]
  | op => compile op

def compileProg (comp : Op → List Act) : List Op → List Act
  | [] => []
  | op :: rest => comp op ++ compileProg comp rest

structure Thread where
  acts : List Act          -- remaining atomic actions
  tmp : Instant            -- thread-local copy of `self.__now`
  deriving Repr, Inhabited

structure Sys where
  clock : FakeClock
  lock : Option Nat                 -- the holder of `self.__lock`
  thr : Nat → Thread
  log : List (Nat × Op × Out)       -- completed critical sections in commit order: (thread, op, result)

def Sys.setThr (s : Sys) (t : Nat) (x : Thread) : Nat → Thread := fun i => if i = t then x else s.thr i

/-- Thread `t` performs its next atomic action, if it is enabled (`acquire` needs a free lock). -/
def Sys.step (s : Sys) (t : Nat) : Option Sys :=
  match (s.thr t).acts with
  | [] => none
  | .acquire :: r =>
    match s.lock with
    | none => some { s with lock := some t, thr := s.setThr t { (s.thr t) with acts := r } }
    | some _ => none
  | .release :: r => some { s with lock := none, thr := s.setThr t { (s.thr t) with acts := r } }
  | .load :: r => some { s with thr := s.setThr t { acts := r, tmp := s.clock.now } }
  | .commit op :: r =>
    let (c', o) := commitStep s.clock (s.thr t).tmp op
    some { s with clock := c', thr := s.setThr t { (s.thr t) with acts := r }, log := s.log ++ [(t, op, o)] }

/-- a schedule: the thread chosen at each step (each must be enabled) -/
def Sys.runSched (s : Sys) : List Nat → Option Sys
  | [] => some s
  | t :: rest =>
    match s.step t with
    | none => none
    | some s' => s'.runSched rest

def Sys.init (comp : Op → List Act) (c : FakeClock) (progs : Nat → List Op) : Sys :=
  { clock := c, lock := none, thr := fun t => { acts := compileProg comp (progs t), tmp := c.now }, log := [] }

/-- what thread `t` got back from its completed operations, in order -/
def Sys.outsOf (s : Sys) (t : Nat) : List Out := (s.log.filter (fun e => e.1 == t)).map (fun e => e.2.2)

/-! ## ZonedClock -/

/-- `ZonedClock.get_current_<view>()`: one read of the wrapped clock, rendered by `view`
    (`instant.in_zone(zone, calendar)` and its projections). -/
def zonedRead {α} (view : Instant → R α) (c : FakeClock) : FakeClock × R α :=
  match step c .read with
  | (c', .instant i) => (c', view i)
  | (c', .err e) => (c', .error e)
  | (c', _) => (c', .error .other)

/-! ## line protocol:
  `clk.run nowDays nowNod autoDays autoNod op…` with ops `r` | `a days nod` | `u <unit> n` | `s days nod` |
  `A days nod` | `g`; reply: one item per op (`i days nod` | `ok` | `d days nod` | `!error`) joined by ` ; `,
  then ` = nowDays nowNod autoDays autoNod`. -/

def parseUnit : String → Option TUnit
  | "nanoseconds" => some .nanoseconds | "ticks" => some .ticks | "milliseconds" => some .milliseconds
  | "seconds" => some .seconds | "minutes" => some .minutes | "hours" => some .hours | "days" => some .days
  | _ => none

def parseOps : Nat → List String → Option (List Op)
  | _, [] => some []
  | 0, _ => none
  | fuel + 1, "r" :: rest => do let l ← parseOps fuel rest; some (.read :: l)
  | fuel + 1, "g" :: rest => do let l ← parseOps fuel rest; some (.getAuto :: l)
  | fuel + 1, "a" :: d :: n :: rest => do
    let d ← parseInt? d; let n ← parseInt? n; let l ← parseOps fuel rest; some (.advance ⟨d, n⟩ :: l)
  | fuel + 1, "s" :: d :: n :: rest => do
    let d ← parseInt? d; let n ← parseInt? n; let l ← parseOps fuel rest; some (.reset ⟨⟨d, n⟩⟩ :: l)
  | fuel + 1, "A" :: d :: n :: rest => do
    let d ← parseInt? d; let n ← parseInt? n; let l ← parseOps fuel rest; some (.setAuto ⟨d, n⟩ :: l)
  | fuel + 1, "u" :: u :: n :: rest => do
    let u ← parseUnit u; let n ← parseInt? n; let l ← parseOps fuel rest; some (.advanceUnit u n :: l)
  | _, _ => none

def showOut : Out → String
  | .instant i => "i " ++ showInts [i.dur.days, i.dur.nod]
  | .unit => "ok"
  | .dur d => "d " ++ showInts [d.days, d.nod]
  | .err e => "!" ++ e.name

def handle (toks : List String) : Option String :=
  match toks with
  | "clk.run" :: a :: b :: c :: d :: rest => do
    let l ← parseInts? [a, b, c, d]
    match l with
    | [a, b, c, d] =>
      let ops ← parseOps (rest.length + 1) rest
      let (cl, outs) := run ⟨⟨⟨a, b⟩⟩, ⟨c, d⟩⟩ ops
      some (" ; ".intercalate (outs.map showOut) ++ " = " ++
        showInts [cl.now.dur.days, cl.now.dur.nod, cl.auto.days, cl.auto.nod])
    | _ => none
  | _ => none

end Pyoda.Clock
