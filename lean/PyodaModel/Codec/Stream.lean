/-
  PyodaModel.Codec.Stream — the .nzd container: `_TzdbStreamField._read_fields`, `_TzdbStreamData._Builder`
  and its field handlers, `_TzdbStreamData.__init__`/`create_zone`/`_from_stream`,
  `TzdbDateTimeZoneSource.from_stream/get_ids/for_id`, and `loadAndUse` = load, list ids, fetch every zone.

  `…Body` functions are what runs inside the `try` blocks of the two entry points and keep the failure kind raised
  there (`struct.error`, `ValueError`, `UnicodeDecodeError`, `OverflowError`, `KeyError`, `IndexError`,
  `RuntimeError`, `InvalidPyodaDataError`); `fromStreamRaw`, `createZone`, `forIdRaw`, `loadAndUseRaw` are the entry
  points as the code is written since the repair be23543 (`translate` with the two `except` tuples).
  `fromStream`, `forId`, `loadAndUse` are the SPECIFICATION (C20): a result or `InvalidPyodaDataError`, nothing else.
  `PyodaProofs/C20Kinds.lean` proves that the `except` tuples are sufficient, i.e. that Raw = specified.
-/
import PyodaModel.Codec.Tail

namespace Pyoda.Codec

/-! ## payload readers that only need to succeed or fail -/

/-- `MapZone._read`: windows id, territory, count, tzdb ids → (territory, number of ids) -/
def readMapZone (pool : Pool) (bs : Bytes) : R ((Str × Nat) × Bytes) := do
  let (_, r) ← readString pool bs
  let (territory, r) ← readString pool r
  let (n, r) ← readCount r
  let (ids, r) ← readN (readString pool) n.toNat r
  .ok ((territory, ids.length), r)

/-- "001" -/
def PRIMARY_TERRITORY : Str := [48, 48, 49]

/-- `WindowsZones._read`: three strings, count, map zones; the constructor indexes `tzdb_ids[0]` of every
    primary-territory zone (`IndexError` when it has none) -/
def readWindowsZones (pool : Pool) (bs : Bytes) : R (Unit × Bytes) := do
  let (_, r) ← readString pool bs
  let (_, r) ← readString pool r
  let (_, r) ← readString pool r
  let (n, r) ← readCount r
  let (zones, r) ← readN (readMapZone pool) n.toNat r
  if zones.any (fun z => z.1 = PRIMARY_TERRITORY ∧ z.2 = 0) then .error .indexError else .ok ((), r)

def latLongOk (lat long : Int) : Bool :=
  decide (-90 * 3600 ≤ lat) && decide (lat ≤ 90 * 3600) && decide (-180 * 3600 ≤ long) && decide (long ≤ 180 * 3600)

/-- `TzdbZoneLocation._read`: the constructor's `ValueError`s are translated to `InvalidPyodaDataError` there -/
def readZoneLocation (pool : Pool) (bs : Bytes) : R (Unit × Bytes) := do
  let (lat, r) ← readSignedCount bs
  let (long, r) ← readSignedCount r
  let (countryName, r) ← readString pool r
  let (countryCode, r) ← readString pool r
  let (_, r) ← readString pool r
  let (_, r) ← readString pool r
  if ¬ latLongOk lat long then .error .invalidData
  else if strLen countryName = 0 ∨ strLen countryCode ≠ 2 then .error .invalidData
  else .ok ((), r)

/-- `TzdbZone1970Location.Country(name, code)`: built inside the list comprehension, *outside* the `try` -/
def readCountry (pool : Pool) (bs : Bytes) : R (Unit × Bytes) := do
  let (name, r) ← readString pool bs
  let (code, r) ← readString pool r
  if strLen name = 0 ∨ strLen code ≠ 2 then .error .valueError else .ok ((), r)

/-- `TzdbZone1970Location._read` -/
def readZone1970Location (pool : Pool) (bs : Bytes) : R (Unit × Bytes) := do
  let (lat, r) ← readSignedCount bs
  let (long, r) ← readSignedCount r
  let (n, r) ← readCount r
  let (countries, r) ← readN (readCountry pool) n.toNat r
  let (_, r) ← readString pool r
  let (_, r) ← readString pool r
  if ¬ latLongOk lat long then .error .invalidData
  else if countries.isEmpty then .error .invalidData
  else .ok ((), r)

/-! ## builder and field handlers -/

structure Builder where
  stringPool : Option (List Str) := none
  zoneFields : List (Str × Bytes) := []
  tzdbVersion : Option Str := none
  idMap : Option (List (Str × Str)) := none
  windowsMapping : Option Unit := none
  zoneLocations : Option Unit := none
  zone1970Locations : Option Unit := none
  deriving Inhabited

/-- `__check_single_field` -/
def checkSingle {α} (o : Option α) : R Unit := if o.isSome then .error .invalidData else .ok ()
/-- `__check_string_pool_presence` -/
def checkPool (b : Builder) : R Unit := if b.stringPool.isNone then .error .invalidData else .ok ()

/-- one field handler (`__FIELD_HANDLERS.get(field.id)`; id 5 has no handler) -/
def handleField (b : Builder) (id : Nat) (data : Bytes) : R Builder :=
  match id with
  | 0 => do
    checkSingle b.stringPool
    let (n, r) ← readCount data
    let (l, _) ← readN (readString none) n.toNat r
    .ok { b with stringPool := some l }
  | 1 => do
    checkPool b
    let (zid, _) ← readString b.stringPool data
    if b.zoneFields.any (·.1 = zid) then .error .invalidData
    else .ok { b with zoneFields := b.zoneFields ++ [(zid, data)] }
  | 2 => do
    checkSingle b.tzdbVersion
    let (v, _) ← readString none data
    .ok { b with tzdbVersion := some v }
  | 3 => do
    checkSingle b.idMap
    let (d, _) ← readDictionary b.stringPool data
    .ok { b with idMap := some d }
  | 4 => do
    checkSingle b.windowsMapping
    let _ ← readWindowsZones b.stringPool data
    .ok { b with windowsMapping := some () }
  | 6 => do
    checkSingle b.zoneLocations
    checkPool b
    let (n, r) ← readCount data
    let _ ← readN (readZoneLocation b.stringPool) n.toNat r
    .ok { b with zoneLocations := some () }
  | 7 => do
    checkSingle b.zone1970Locations
    checkPool b
    let (n, r) ← readCount data
    let _ ← readN (readZone1970Location b.stringPool) n.toNat r
    .ok { b with zone1970Locations := some () }
  | _ => .ok b

/-- `_read_fields` interleaved with the handlers (the generator is consumed field by field). One iteration
    consumes at least two bytes or fails, so `fuel = length` always suffices. -/
def readFields : Nat → Builder → Bytes → R Builder
  | _, b, [] => .ok b
  | 0, _, _ :: _ => .error .other          -- unreachable with fuel ≥ length
  | fuel + 1, b, id :: r =>
    if id > 7 then .error .valueError      -- `_TzdbStreamFieldId(id)`
    else do
      let (len, r) ← readCount r
      match takeExact len.toNat r with
      | none => .error .invalidData
      | some (data, r) => do
        let b ← handleField b id data
        readFields fuel b r

/-- the loaded data (`_TzdbStreamData` after `__init__`) -/
structure StreamData where
  stringPool : List Str
  idMap : List (Str × Str)
  version : Str
  zoneFields : List (Str × Bytes)
  deriving Inhabited

/-- `_TzdbStreamData.__init__`: required fields, then every zone id maps to itself -/
def streamDataOfBuilder (b : Builder) : R StreamData :=
  match b.stringPool, b.idMap, b.tzdbVersion, b.windowsMapping with
  | some pool, some idMap, some version, some _ =>
    .ok ⟨pool, b.zoneFields.foldl (fun d z => dictInsert d z.1 z.1) idMap, version, b.zoneFields⟩
  | _, _, _, _ => .error .invalidData

/-- exception translation of the repaired entry points: `except InvalidPyodaDataError: raise` /
    `except (<caught>) as e: raise InvalidPyodaDataError(...) from e`; anything else propagates -/
def translate {α} (caught : PyExc → Bool) (r : R α) : R α :=
  match r with
  | .ok a => .ok a
  | .error e => if caught e then .error .invalidData else .error e

/-- `_from_stream` catches `(ValueError, OverflowError, LookupError, struct.error)`
    (`UnicodeDecodeError` is a `ValueError`; `KeyError`/`IndexError` are `LookupError`s) -/
def caughtAtFromStream : PyExc → Bool
  | .valueError | .unicodeError | .overflowError | .keyError | .indexError | .structError => true
  | _ => false

/-- `create_zone` catches `(ValueError, OverflowError, LookupError, RuntimeError, struct.error)` -/
def caughtAtCreateZone : PyExc → Bool
  | .valueError | .unicodeError | .overflowError | .keyError | .indexError | .structError | .runtimeError => true
  | _ => false

/-- the body of `_TzdbStreamData._from_stream` inside its `try`: `struct.unpack('i', stream.read(4))`
    (`struct.error` on a short header), version 0 only, fields, required-field checks -/
def fromStreamBody (bytes : Bytes) : R StreamData :=
  match bytes with
  | b0 :: b1 :: b2 :: b3 :: rest =>
    if b0 ≠ 0 ∨ b1 ≠ 0 ∨ b2 ≠ 0 ∨ b3 ≠ 0 then .error .invalidData
    else do
      let b ← readFields rest.length {} rest
      streamDataOfBuilder b
  | _ => .error .structError

/-- `_TzdbStreamData._from_stream` / `TzdbDateTimeZoneSource.from_stream` as the code is written -/
def fromStreamRaw (bytes : Bytes) : R StreamData := translate caughtAtFromStream (fromStreamBody bytes)

/-- `TzdbDateTimeZoneSource.get_ids()` -/
def getIds (d : StreamData) : List Str := d.idMap.map (·.1)

/-- the body of `_TzdbStreamData.create_zone` inside its `try`: `__zone_fields[canonical_id]` (`KeyError`), then
    the zone is decoded and constructed -/
def createZoneBody (d : StreamData) (id canonical : Str) : R ZoneValue :=
  match d.zoneFields.find? (·.1 = canonical) with
  | none => .error .keyError
  | some (_, field) => createZoneRaw (some d.stringPool) id field

/-- `_TzdbStreamData.create_zone(id, canonical_id)` as the code is written -/
def createZone (d : StreamData) (id canonical : Str) : R ZoneValue :=
  translate caughtAtCreateZone (createZoneBody d id canonical)

/-- `TzdbDateTimeZoneSource.for_id(id)` as the code is written: an id that is not a key of the map → `ValueError`
    (the documented answer for an unknown id); otherwise `create_zone` (an empty canonical id is looked up like any
    other and fails there) -/
def forIdRaw (d : StreamData) (id : Str) : R ZoneValue :=
  match dictGet? d.idMap id with
  | none => .error .valueError
  | some canonical => createZone d id canonical

/-- the documented outcome only -/
def toInvalidData {α} (r : R α) : R α :=
  match r with
  | .ok a => .ok a
  | .error _ => .error .invalidData

/-- SPECIFIED `TzdbDateTimeZoneSource.from_stream`: a result or `InvalidPyodaDataError` -/
def fromStream (bytes : Bytes) : R StreamData := toInvalidData (fromStreamRaw bytes)
/-- SPECIFIED `for_id` for an id listed by `get_ids()` -/
def forId (d : StreamData) (id : Str) : R ZoneValue := toInvalidData (forIdRaw d id)

/-- fetch every listed zone, stopping at the first failure -/
def fetchAll (f : Str → R ZoneValue) : List Str → R Nat
  | [] => .ok 0
  | id :: ids => do
    let _ ← f id
    let n ← fetchAll f ids
    .ok (n + 1)

/-- load, list ids, fetch every zone — as the code is written (a failure kind the entry points do not translate
    would show here) -/
def loadAndUseRaw (bytes : Bytes) : R Nat := do
  let d ← fromStreamRaw bytes
  fetchAll (forIdRaw d) (getIds d)

/-- SPECIFIED: the same with the documented error only -/
def loadAndUse (bytes : Bytes) : R Nat := do
  let d ← fromStream bytes
  fetchAll (forId d) (getIds d)

end Pyoda.Codec
