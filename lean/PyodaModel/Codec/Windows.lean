/-
  PyodaModel.Codec.Windows — the CLDR Windows mapping payload (stream field 4) WITH its contents:
  `MapZone._read`, `WindowsZones._read` and the constructor's `primary_mapping`
  (pyoda_time/time_zones/cldr/_map_zone.py, _windows_zones.py).

  `Codec/Stream.lean` has the same readers with the payload thrown away (`readMapZone`, `readWindowsZones`: C20 only
  needs success or the failure kind); the readers here keep every string.  Same order of reads, same failures.
-/
import PyodaModel.Codec.Stream

namespace Pyoda.Codec

/-- `MapZone`: windows id, territory, tzdb ids (a tuple; order is the file's) -/
structure MapZone where
  windowsId : Str
  territory : Str
  tzdbIds : List Str
  deriving DecidableEq, Repr, Inhabited

/-- `zone.territory == MapZone.PRIMARY_TERRITORY` ("001") -/
def MapZone.isPrimary (z : MapZone) : Bool := decide (z.territory = PRIMARY_TERRITORY)

/-- `WindowsZones`: three version strings and the map zones in file order -/
structure WindowsZones where
  version : Str
  tzdbVersion : Str
  windowsVersion : Str
  mapZones : List MapZone
  deriving DecidableEq, Repr, Inhabited

/-- `MapZone._read` -/
def readMapZoneX (pool : Pool) (bs : Bytes) : R (MapZone × Bytes) := do
  let (w, r) ← readString pool bs
  let (t, r) ← readString pool r
  let (n, r) ← readCount r
  let (ids, r) ← readN (readString pool) n.toNat r
  .ok (⟨w, t, ids⟩, r)

/-- `{z.windows_id: z.tzdb_ids[0] for z in map_zones if z.territory == "001"}` as an insertion-ordered dict
    (a later primary entry for the same windows id overwrites the value and keeps the position).
    `tzdb_ids[0]` of an empty tuple is an `IndexError`, raised by `readWindowsZonesX` before this is used. -/
def primaryMapping (zs : List MapZone) : List (Str × Str) :=
  (zs.filter (·.isPrimary)).foldl (fun d z => dictInsert d z.windowsId (z.tzdbIds.headD [])) []

/-- `WindowsZones._read` followed by the private constructor -/
def readWindowsZonesX (pool : Pool) (bs : Bytes) : R (WindowsZones × Bytes) := do
  let (v, r) ← readString pool bs
  let (tv, r) ← readString pool r
  let (wv, r) ← readString pool r
  let (n, r) ← readCount r
  let (zones, r) ← readN (readMapZoneX pool) n.toNat r
  if zones.any (fun z => z.isPrimary && z.tzdbIds.isEmpty) then .error .indexError
  else .ok (⟨v, tv, wv, zones⟩, r)

end Pyoda.Codec
