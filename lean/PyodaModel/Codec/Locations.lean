/-
  PyodaModel.Codec.Locations — the location payloads (stream fields 6 and 7) WITH their contents:
  `TzdbZoneLocation._read` and `TzdbZone1970Location._read`
  (pyoda_time/time_zones/_tzdb_zone_location.py, _tzdb_zone_1970_location.py).

  `Codec/Stream.lean` has the same readers with the payload thrown away; same order of reads, same failures.
  Latitude and longitude are the stored integers (seconds of arc); the public properties are `seconds / 3600.0`.
-/
import PyodaModel.Codec.Stream

namespace Pyoda.Codec

/-- `TzdbZoneLocation` -/
structure ZoneLocation where
  latSeconds : Int
  longSeconds : Int
  countryName : Str
  countryCode : Str
  zoneId : Str
  comment : Str
  deriving DecidableEq, Repr, Inhabited

/-- `TzdbZone1970Location.Country` -/
structure Country where
  name : Str
  code : Str
  deriving DecidableEq, Repr, Inhabited

/-- `TzdbZone1970Location` -/
structure Zone1970Location where
  latSeconds : Int
  longSeconds : Int
  countries : List Country
  zoneId : Str
  comment : Str
  deriving DecidableEq, Repr, Inhabited

/-- `TzdbZoneLocation._read`: six reads, then the constructor (`ValueError` → `InvalidPyodaDataError`) -/
def readZoneLocationX (pool : Pool) (bs : Bytes) : R (ZoneLocation × Bytes) := do
  let (lat, r) ← readSignedCount bs
  let (long, r) ← readSignedCount r
  let (countryName, r) ← readString pool r
  let (countryCode, r) ← readString pool r
  let (zoneId, r) ← readString pool r
  let (comment, r) ← readString pool r
  if ¬ latLongOk lat long then .error .invalidData
  else if strLen countryName = 0 ∨ strLen countryCode ≠ 2 then .error .invalidData
  else .ok (⟨lat, long, countryName, countryCode, zoneId, comment⟩, r)

/-- `TzdbZone1970Location.Country(name, code)` inside the list comprehension (a plain `ValueError`) -/
def readCountryX (pool : Pool) (bs : Bytes) : R (Country × Bytes) := do
  let (name, r) ← readString pool bs
  let (code, r) ← readString pool r
  if strLen name = 0 ∨ strLen code ≠ 2 then .error .valueError else .ok (⟨name, code⟩, r)

/-- `TzdbZone1970Location._read` -/
def readZone1970LocationX (pool : Pool) (bs : Bytes) : R (Zone1970Location × Bytes) := do
  let (lat, r) ← readSignedCount bs
  let (long, r) ← readSignedCount r
  let (n, r) ← readCount r
  let (countries, r) ← readN (readCountryX pool) n.toNat r
  let (zoneId, r) ← readString pool r
  let (comment, r) ← readString pool r
  if ¬ latLongOk lat long then .error .invalidData
  else if countries.isEmpty then .error .invalidData
  else .ok (⟨lat, long, countries, zoneId, comment⟩, r)

end Pyoda.Codec
