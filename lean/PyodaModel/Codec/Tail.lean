/-
  PyodaModel.Codec.Tail — what the constructors run while a zone is being built from decoded data:
  `_ZoneYearOffset._get_occurrence_for_year`, `_ZoneRecurrence._next/_previous_or_same`,
  `_StandardDaylightAlternatingMap.get_zone_interval`, `_PrecalculatedDateTimeZone.__init__`
  (`__compute_offset`, first tail-zone interval, `_validate_periods`).

  The Gregorian arithmetic is the textbook proleptic calendar (days-from-civil / civil-from-days); the code's
  own year/month/day calculators are the subject of C01/C02, here only the *dates* matter and the
  correspondence suite `tail.interval` compares results with the real classes.
  Failure kinds are those of the code: invalid day of month → `ValueError` (`LocalDate.__init__`),
  `plus_days` beyond year ±9999 → `OverflowError`, offsets beyond ±18 h → `ValueError`, "identical transitions"
  and missing transitions → `RuntimeError`, start ≥ end → `ValueError`.
-/
import PyodaModel.Codec.Zone

namespace Pyoda.Codec

/-! ## proleptic Gregorian calendar, days since 1970-01-01 -/

def isLeapYear (y : Int) : Bool := (y % 4 == 0 && y % 100 != 0) || y % 400 == 0

def daysInMonth (y m : Int) : Int :=
  if m = 2 then (if isLeapYear y then 29 else 28)
  else if m = 4 ∨ m = 6 ∨ m = 9 ∨ m = 11 then 30 else 31

/-- days since the Unix epoch of year/month/day (valid month, any day offset) -/
def daysFromCivil (y m d : Int) : Int :=
  let y' := if m ≤ 2 then y - 1 else y
  let era := y' / 400                       -- floor
  let yoe := y' - era * 400                 -- [0, 399]
  let mp := if m > 2 then m - 3 else m + 9  -- March = 0
  let doy := (153 * mp + 2) / 5 + d - 1
  let doe := yoe * 365 + yoe / 4 - yoe / 100 + doy
  era * 146097 + doe - 719468

/-- (year, month, day) of a day number -/
def civilFromDays (z : Int) : Int × Int × Int :=
  let z := z + 719468
  let era := z / 146097
  let doe := z - era * 146097
  let yoe := (doe - doe / 1460 + doe / 36524 - doe / 146096) / 365
  let y := yoe + era * 400
  let doy := doe - (365 * yoe + yoe / 4 - yoe / 100)
  let mp := (5 * doy + 2) / 153
  let d := doy - (153 * mp + 2) / 5 + 1
  let m := if mp < 10 then mp + 3 else mp - 9
  (if m ≤ 2 then y + 1 else y, m, d)

/-- ISO day of week, Monday = 1 … Sunday = 7 (1970-01-01 was a Thursday) -/
def isoDayOfWeek (days : Int) : Int := (days + 3) % 7 + 1

def MIN_YEAR : Int := -9998
def MAX_YEAR : Int := 9999
def MIN_DATE_DAYS : Int := -4371222   -- -9998-01-01
def MAX_DATE_DAYS : Int := 2932896    --  9999-12-31

/-- `LocalDate(year, month, day)` in the ISO calendar → day number (`ValueError` when invalid) -/
def localDate (y m d : Int) : R Int :=
  if y < MIN_YEAR ∨ y > MAX_YEAR ∨ m < 1 ∨ m > 12 then .error .valueError
  else if d < 1 ∨ d > daysInMonth y m then .error .valueError
  else .ok (daysFromCivil y m d)

/-- `LocalDate.plus_days(k)` for `|k| < 300`: `OverflowError` when the year leaves [-9998, 9999] -/
def plusDaysSmall (days k : Int) : R Int :=
  if k = 0 then .ok days
  else if days + k < MIN_DATE_DAYS ∨ days + k > MAX_DATE_DAYS then .error .overflowError
  else .ok (days + k)

/-! ## ZoneYearOffset -/

/-- `_get_occurrence_for_year(year)` -/
def occurrenceForYear (yo : ZoneYearOffset) (year : Int) : R LocalInstant := do
  let actual0 := if yo.dayOfMonth > 0 then yo.dayOfMonth else daysInMonth year yo.monthOfYear + yo.dayOfMonth + 1
  let actual := if yo.monthOfYear = 2 ∧ yo.dayOfMonth = 29 ∧ ¬ isLeapYear year then 28 else actual0
  let date ← localDate year yo.monthOfYear actual
  let date ←
    if yo.dayOfWeek ≠ 0 then
      let current := isoDayOfWeek date
      if current ≠ yo.dayOfWeek then
        let diff0 := yo.dayOfWeek - current
        let diff := if diff0 > 0 then (if ¬ yo.advance then diff0 - 7 else diff0)
                    else (if yo.advance then diff0 + 7 else diff0)
        plusDaysSmall date diff
      else .ok date
    else .ok date
  if yo.addDay then
    let (_, m, d) := civilFromDays date
    if year = 9999 ∧ m = 12 ∧ d = 31 then .ok LocalInstant.afterMax
    else do
      let date ← plusDaysSmall date 1
      .ok ⟨⟨date, yo.timeOfDay⟩⟩
  else .ok ⟨⟨date, yo.timeOfDay⟩⟩

/-- `_get_rule_offset(standard_offset, savings)` -/
def ruleOffset (yo : ZoneYearOffset) (standard savings : Offset) : R Offset :=
  match yo.mode with
  | .wall => Offset.add standard savings
  | .standard => .ok standard
  | .utc => .ok ⟨0⟩

/-! ## ZoneRecurrence -/

def localIsValid (l : LocalInstant) : Bool :=
  decide (Instant.MIN_DAYS ≤ l.dur.days) && decide (l.dur.days ≤ Instant.MAX_DAYS)

/-- `__min_local_instant` / `__max_local_instant` as computed by `_ZoneRecurrence.__init__` -/
def recMinLocal (z : ZoneRecurrence) : R LocalInstant :=
  if z.fromYear = INT_MIN then .ok LocalInstant.beforeMin else occurrenceForYear z.yearOffset z.fromYear
def recMaxLocal (z : ZoneRecurrence) : R LocalInstant :=
  if z.toYear = INT_MAX then .ok LocalInstant.afterMax else occurrenceForYear z.yearOffset z.toYear

/-- `_ZoneRecurrence.__init__`: year checks, then both bounds are evaluated -/
def recurrenceCtor (z : ZoneRecurrence) : R ZoneRecurrence := do
  recurrenceYearsOk z.fromYear z.toYear
  let _ ← recMinLocal z
  let _ ← recMaxLocal z
  .ok z

/-- `_ZoneRecurrence.read` -/
def readRecurrence (pool : Pool) (bs : Bytes) : R (ZoneRecurrence × Bytes) := do
  let (z, r) ← readRecurrenceFields pool bs
  let z ← recurrenceCtor z
  .ok (z, r)

structure Transition where
  instant : Instant
  newOffset : Offset
  deriving DecidableEq, Repr

/-- the year containing a valid local instant -/
def yearOfLocal (l : LocalInstant) : Int := (civilFromDays l.dur.days).1

/-- `_ZoneRecurrence._next(instant, standard_offset, previous_savings)` -/
def recNext (z : ZoneRecurrence) (instant : Instant) (standard previousSavings : Offset) : R (Option Transition) := do
  let rule ← ruleOffset z.yearOffset standard previousSavings
  let newOffset ← Offset.add standard z.savings
  let safeLocal ← instant.safePlus rule
  let minL ← recMinLocal z
  let maxL ← recMaxLocal z
  let target : Option Int :=
    if Duration.lt safeLocal.dur minL.dur then some z.fromYear
    else if Duration.ge safeLocal.dur maxL.dur then none
    else if safeLocal = LocalInstant.beforeMin then some MIN_YEAR
    else some (yearOfLocal safeLocal)
  match target with
  | none => .ok (if maxL = LocalInstant.afterMax then some ⟨Instant.afterMax, newOffset⟩ else none)
  | some targetYear => do
    let transition ← occurrenceForYear z.yearOffset targetYear
    let safeTransition ← transition.safeMinus rule
    if Duration.gt safeTransition.dur instant.dur then .ok (some ⟨safeTransition, newOffset⟩)
    else if targetYear + 1 > MAX_YEAR then .ok (some ⟨Instant.afterMax, newOffset⟩)
    else do
      let t2 ← occurrenceForYear z.yearOffset (targetYear + 1)
      let s2 ← t2.safeMinus rule
      .ok (some ⟨s2, newOffset⟩)

/-- `_ZoneRecurrence._previous_or_same(instant, standard_offset, previous_savings)` -/
def recPreviousOrSame (z : ZoneRecurrence) (instant : Instant) (standard previousSavings : Offset) :
    R (Option Transition) := do
  let rule ← ruleOffset z.yearOffset standard previousSavings
  let newOffset ← Offset.add standard z.savings
  let safeLocal ← instant.safePlus rule
  let minL ← recMinLocal z
  let maxL ← recMaxLocal z
  if Duration.gt safeLocal.dur maxL.dur then go z rule newOffset instant z.toYear
  else if Duration.lt safeLocal.dur minL.dur then .ok none
  else if ¬ localIsValid safeLocal then
    (if safeLocal = LocalInstant.beforeMin then .ok (some ⟨Instant.beforeMin, newOffset⟩)
     else go z rule newOffset instant MAX_YEAR)
  else go z rule newOffset instant (yearOfLocal safeLocal)
where
  go (z : ZoneRecurrence) (rule newOffset : Offset) (instant : Instant) (targetYear : Int) : R (Option Transition) := do
    let transition ← occurrenceForYear z.yearOffset targetYear
    let safeTransition ← transition.safeMinus rule
    if Duration.le safeTransition.dur instant.dur then .ok (some ⟨safeTransition, newOffset⟩)
    else if targetYear - 1 < MIN_YEAR then .ok (some ⟨Instant.beforeMin, newOffset⟩)
    else do
      let t2 ← occurrenceForYear z.yearOffset (targetYear - 1)
      let s2 ← t2.safeMinus rule
      .ok (some ⟨s2, newOffset⟩)

/-- `_next_or_fail` / `_previous_or_same_or_fail`: `RuntimeError` when there is none -/
def orFail (r : R (Option Transition)) : R Transition := do
  match ← r with
  | some t => .ok t
  | none => .error .runtimeError

/-! ## StandardDaylightAlternatingMap -/

/-- `__next_transition(instant)`: the transition and whether the recurrence *in force before it* is the
    standard one (`true`) or the daylight one (`false`) -/
def mapNextTransition (m : AlternatingMap) (instant : Instant) : R (Transition × Bool) := do
  let dstT ← orFail (recNext m.dstRecurrence instant m.standardOffset ⟨0⟩)
  let stdT ← orFail (recNext m.standardRecurrence instant m.standardOffset m.dstRecurrence.savings)
  if Duration.lt stdT.instant.dur dstT.instant.dur then .ok (stdT, false)
  else if Duration.gt stdT.instant.dur dstT.instant.dur then .ok (dstT, true)
  else if stdT.instant.isValid then .error .runtimeError
  else do
    let pd ← orFail (recPreviousOrSame m.dstRecurrence instant m.standardOffset ⟨0⟩)
    let ps ← orFail (recPreviousOrSame m.standardRecurrence instant m.standardOffset m.dstRecurrence.savings)
    if Duration.gt pd.instant.dur ps.instant.dur then .ok (stdT, false) else .ok (dstT, true)

/-- `get_zone_interval(instant)` -/
def mapGetZoneInterval (m : AlternatingMap) (instant : Instant) : R ZoneInterval := do
  let (next, isStandard) ← mapNextTransition m instant
  let recurrence := if isStandard then m.standardRecurrence else m.dstRecurrence
  let previousSavings : Offset := if isStandard then m.dstRecurrence.savings else ⟨0⟩
  let previous ← orFail (recPreviousOrSame recurrence instant m.standardOffset previousSavings)
  let wall ← Offset.add m.standardOffset recurrence.savings
  zoneIntervalCtor recurrence.name previous.instant next.instant wall recurrence.savings

/-- `min_offset` / `max_offset` need `standard_offset + dst.savings` to be an `Offset` -/
def mapOffsetsOk (m : AlternatingMap) : R Unit := do
  let _ ← Offset.add m.standardOffset m.dstRecurrence.savings
  .ok ()

/-! ## PrecalculatedDateTimeZone.__init__ -/

/-- `_validate_periods` (`.end`/`.start` raise `RuntimeError` on a sentinel) -/
def validatePeriods (periods : List ZoneInterval) (hasTail : Bool) : R Unit :=
  match periods with
  | [] => .error .valueError
  | first :: _ =>
    if first.rawStart.isValid then .error .valueError
    else
      let rec adjoining : List ZoneInterval → R Unit
        | a :: b :: rest =>
          if ¬ a.rawEnd.isValid then .error .runtimeError
          else if ¬ b.rawStart.isValid then .error .runtimeError
          else if a.rawEnd ≠ b.rawStart then .error .valueError
          else adjoining (b :: rest)
        | _ => .ok ()
      do
        adjoining periods
        match periods.getLast? with
        | some l => if hasTail ∨ l.rawEnd = Instant.afterMax then .ok () else .error .valueError
        | none => .error .valueError

/-- `_PrecalculatedDateTimeZone.__init__`: offsets, first tail interval, validation — in the code's order -/
def precalculatedCtor (z : PrecalculatedZone) : R PrecalculatedZone := do
  if z.periods.isEmpty then throw .valueError
  match z.tailZone with
  | some m => mapOffsetsOk m
  | none => pure ()
  let tailStart ← z.tailZoneStart
  match z.tailZone with
  | some m => do
    let iv ← mapGetZoneInterval m tailStart
    let _ ← zoneIntervalCtor iv.name tailStart iv.rawEnd iv.wall iv.savings
    pure ()
  | none => pure ()
  validatePeriods z.periods z.tailZone.isSome
  .ok z

/-- `_PrecalculatedDateTimeZone._read` -/
def readPrecalculated (pool : Pool) (id : Str) (bs : Bytes) : R (PrecalculatedZone × Bytes) := do
  let (z, r) ← readPrecalculatedData pool id bs
  let z ← precalculatedCtor z
  .ok (z, r)

/-- `_TzdbStreamData.create_zone` on the field payload (before any exception translation) -/
def createZoneRaw (pool : Pool) (id : Str) (field : Bytes) : R ZoneValue := do
  let (_, r) ← readString pool field
  let (ty, r) ← readByte r
  if ty = 1 then do
    let (z, _) ← readFixed pool id r
    .ok (.fixed z)
  else if ty = 2 then do
    let (z, _) ← readPrecalculated pool id r
    .ok (.precalculated z)
  else .error .valueError

end Pyoda.Codec
