/-
  PyodaModel.Codec.Zone — composite writers/readers:
  `_ZoneYearOffset._write/read`, `_ZoneRecurrence._write/read`, `_StandardDaylightAlternatingMap._write/_read`,
  `_PrecalculatedDateTimeZone._write/_read` (decoding and the checks made while decoding; the checks that
  evaluate the tail zone live in `Codec/Tail.lean`), `_FixedDateTimeZone.read`.
-/
import PyodaModel.Codec.Prim

namespace Pyoda.Codec

abbrev Pool := Option (List Str)

/-! ## ZoneYearOffset -/

/-- `__verify_field_value(minimum, maximum, name, value, allow_negated)` -/
def verifyFieldValue (lo hi v : Int) (allowNegated : Bool) : R Unit :=
  if allowNegated ∧ v < 0 then
    (if v < -hi ∨ -lo < v then .error .valueError else .ok ())
  else if v < lo ∨ hi < v then .error .valueError else .ok ()

/-- `_ZoneYearOffset._ctor` (range checks only; the time of day is already a `LocalTime`) -/
def yearOffsetCtor (mode : TransitionMode) (month dom dow : Int) (advance : Bool) (tod : Int) (addDay : Bool) :
    R ZoneYearOffset := do
  verifyFieldValue 1 12 month false
  verifyFieldValue 1 31 dom true
  if dow ≠ 0 then verifyFieldValue 1 7 dow false else pure ()
  .ok ⟨mode, month, dom, dow, advance, tod, addDay⟩

/-- `LocalTime.from_milliseconds_since_midnight` → nanosecond of day -/
def localTimeFromMillis (ms : Int) : R Int := do
  checkRange ms 0 (MsPD - 1)
  .ok (ms * NPMs)

/-- `_ZoneYearOffset._write`: flag byte `mode << 5 | dow << 2 | advance << 1 | addDay`, month (count),
    day of month (signed count), `tick_of_day / TICKS_PER_MILLISECOND` (milliseconds; both truncating) -/
def writeYearOffset (y : ZoneYearOffset) : R Bytes := do
  let flags : Int := (y.mode.toNat : Int) * 32 + y.dayOfWeek * 4 + (if y.advance then 2 else 0) + (if y.addDay then 1 else 0)
  let f ← writeByte flags
  let m ← writeCount y.monthOfYear
  let d ← writeSignedCount y.dayOfMonth
  let ticks ← pyTdiv y.timeOfDay NPT
  let ms ← pyTdiv ticks 10000
  let t ← writeMilliseconds ms
  .ok (f ++ m ++ d ++ t)

/-- `_ZoneYearOffset.read` (`_TransitionMode(flags >> 5)` raises `ValueError` above 2) -/
def readYearOffset (bs : Bytes) : R (ZoneYearOffset × Bytes) := do
  let (flags, r) ← readByte bs
  match TransitionMode.ofNat? (flags / 32) with
  | none => .error .valueError
  | some mode =>
    let dow : Int := ((flags / 4 % 8 : Nat) : Int)
    let advance := flags / 2 % 2 == 1
    let addDay := flags % 2 == 1
    let (month, r) ← readCount r
    let (dom, r) ← readSignedCount r
    let (ms, r) ← readMilliseconds r
    let tod ← localTimeFromMillis ms
    let y ← yearOffsetCtor mode month dom dow advance tod addDay
    .ok (y, r)

/-! ## ZoneRecurrence -/

/-- the year-range checks of `_ZoneRecurrence.__init__` (`_check_argument` → `ValueError`). The constructor
    also evaluates the yearly rule in a finite `from_year`/`to_year`: see `Tail.recurrenceCtor`. -/
def recurrenceYearsOk (fromYear toYear : Int) : R Unit :=
  if ¬ (fromYear = INT_MIN ∨ (-9998 ≤ fromYear ∧ fromYear ≤ 9999)) then .error .valueError
  else if ¬ (toYear = INT_MAX ∨ (-9998 ≤ toYear ∧ toYear ≤ 9999)) then .error .valueError
  else .ok ()

/-- `_ZoneRecurrence._write`: name, savings, year offset, `max(from_year, 0)`, `to_year` -/
def writeRecurrence (pool : Pool) (z : ZoneRecurrence) : R (Bytes × Pool) := do
  let (n, pool) ← writeString pool z.name
  let s ← writeOffset z.savings
  let y ← writeYearOffset z.yearOffset
  let f ← writeCount (if z.fromYear < 0 then 0 else z.fromYear)
  let t ← writeCount z.toYear
  .ok (n ++ s ++ y ++ f ++ t, pool)

/-- `_ZoneRecurrence.read` up to the constructor call: the five fields (`from_year` 0 ↦ `Int32.MinValue`) -/
def readRecurrenceFields (pool : Pool) (bs : Bytes) : R (ZoneRecurrence × Bytes) := do
  let (name, r) ← readString pool bs
  let (savings, r) ← readOffset r
  let (yo, r) ← readYearOffset r
  let (fy, r) ← readCount r
  let (ty, r) ← readCount r
  .ok (⟨name, savings, yo, if fy = 0 then INT_MIN else fy, ty⟩, r)

/-! ## StandardDaylightAlternatingMap -/

/-- `_StandardDaylightAlternatingMap._ctor(standard_offset, start_recurrence, end_recurrence)` -/
def alternatingMapCtor (standardOffset : Offset) (startRec endRec : ZoneRecurrence) : R AlternatingMap :=
  let s := startRec.toStartOfTime
  let e := endRec.toStartOfTime
  if ¬ s.isInfinite then .error .valueError
  else if ¬ e.isInfinite then .error .valueError
  else
    let (dst, standard) := if s.savings = ⟨0⟩ then (e, s) else (s, e)
    if standard.savings ≠ ⟨0⟩ then .error .valueError
    else .ok ⟨standardOffset, standard, dst⟩

/-- `_StandardDaylightAlternatingMap._write` -/
def writeAlternatingMap (pool : Pool) (m : AlternatingMap) : R (Bytes × Pool) := do
  let o ← writeOffset m.standardOffset
  let (sn, pool) ← writeString pool m.standardRecurrence.name
  let sy ← writeYearOffset m.standardRecurrence.yearOffset
  let (dn, pool) ← writeString pool m.dstRecurrence.name
  let dy ← writeYearOffset m.dstRecurrence.yearOffset
  let sv ← writeOffset m.dstRecurrence.savings
  .ok (o ++ sn ++ sy ++ dn ++ dy ++ sv, pool)

/-- `_StandardDaylightAlternatingMap._read` (both recurrences are built with infinite year bounds, so the
    `_ZoneRecurrence` constructor evaluates no yearly occurrence here) -/
def readAlternatingMap (pool : Pool) (bs : Bytes) : R (AlternatingMap × Bytes) := do
  let (so, r) ← readOffset bs
  let (sn, r) ← readString pool r
  let (sy, r) ← readYearOffset r
  let (dn, r) ← readString pool r
  let (dy, r) ← readYearOffset r
  let (sv, r) ← readOffset r
  let m ← alternatingMapCtor so ⟨sn, ⟨0⟩, sy, INT_MIN, INT_MAX⟩ ⟨dn, sv, dy, INT_MIN, INT_MAX⟩
  .ok (m, r)

/-! ## PrecalculatedDateTimeZone -/

/-- `ZoneInterval.__init__`: `start >= end` → `ValueError` -/
def zoneIntervalCtor (name : Str) (start end_ : Instant) (wall savings : Offset) : R ZoneInterval :=
  if Duration.ge start.dur end_.dur then .error .valueError else .ok ⟨name, start, end_, wall, savings⟩

/-- the period loop of `_PrecalculatedDateTimeZone._write` -/
def writePeriods (pool : Pool) (previous : Option Instant) : List ZoneInterval → R (Bytes × Pool)
  | [] => .ok ([], pool)
  | p :: ps => do
    let t ← writeTransition previous p.rawStart
    let (n, pool) ← writeString pool p.name
    let w ← writeOffset p.wall
    let s ← writeOffset p.savings
    let (rest, pool) ← writePeriods pool (some p.rawStart) ps
    .ok (t ++ n ++ w ++ s ++ rest, pool)

/-- `previous` after the period loop -/
def lastStart : Option Instant → List ZoneInterval → Option Instant
  | prev, [] => prev
  | _, p :: ps => lastStart (some p.rawStart) ps

/-- `_PrecalculatedDateTimeZone._write` (`__tail_zone_start = periods[-1]._raw_end`) -/
def writePrecalculated (pool : Pool) (z : PrecalculatedZone) : R (Bytes × Pool) := do
  let c ← writeCount z.periods.length
  let (ps, pool) ← writePeriods pool none z.periods
  let tailStart ← z.tailZoneStart
  let t ← writeTransition (lastStart none z.periods) tailStart
  match z.tailZone with
  | none => do
    let b ← writeByte 0
    .ok (c ++ ps ++ t ++ b, pool)
  | some m => do
    let b ← writeByte 1
    let (mb, pool) ← writeAlternatingMap pool m
    .ok (c ++ ps ++ t ++ b ++ mb, pool)

/-- the period loop of `_PrecalculatedDateTimeZone._read` -/
def readPeriods (pool : Pool) : Nat → Instant → Bytes → R (List ZoneInterval × Bytes)
  | 0, _, bs => .ok ([], bs)
  | n + 1, start, bs => do
    let (name, r) ← readString pool bs
    let (wall, r) ← readOffset r
    let (savings, r) ← readOffset r
    let (next, r) ← readTransition (some start) r
    let p ← zoneIntervalCtor name start next wall savings
    let (ps, r) ← readPeriods pool n next r
    .ok (p :: ps, r)

/-- `_PrecalculatedDateTimeZone._read` up to the constructor call -/
def readPrecalculatedData (pool : Pool) (id : Str) (bs : Bytes) : R (PrecalculatedZone × Bytes) := do
  let (size, r) ← readCount bs
  let (start, r) ← readTransition none r
  let (periods, r) ← readPeriods pool size.toNat start r
  let (flag, r) ← readByte r
  if flag = 1 then do
    let (m, r) ← readAlternatingMap pool r
    .ok (⟨id, periods, some m⟩, r)
  else .ok (⟨id, periods, none⟩, r)

/-! ## FixedDateTimeZone -/

/-- `_FixedDateTimeZone.read`: offset, then a name if any data is left (else the id) -/
def readFixed (pool : Pool) (id : Str) (bs : Bytes) : R (FixedZone × Bytes) := do
  let (o, r) ← readOffset bs
  if hasMoreData r then do
    let (name, r) ← readString pool r
    .ok (⟨id, o, name⟩, r)
  else .ok (⟨id, o, id⟩, r)

/-- the encoding `_FixedDateTimeZone.read` decodes (the Python port has no writer for it) -/
def writeFixed (pool : Pool) (z : FixedZone) : R (Bytes × Pool) := do
  let o ← writeOffset z.offset
  let (n, pool) ← writeString pool z.name
  .ok (o ++ n, pool)

/-! ## zone field payload: id, type byte, zone -/

/-- the decoding part of `_TzdbStreamData.create_zone` (the string is the *canonical* id stored in the
    field and is skipped; the zone gets the id it was asked for). Type 1 = fixed, 2 = precalculated;
    `_DateTimeZoneType(b)` raises `ValueError` for any other byte. -/
def readZoneField (pool : Pool) (id : Str) (field : Bytes) : R ZoneValue := do
  let (_, r) ← readString pool field
  let (ty, r) ← readByte r
  if ty = 1 then do
    let (z, _) ← readFixed pool id r
    .ok (.fixed z)
  else if ty = 2 then do
    let (z, _) ← readPrecalculatedData pool id r
    .ok (.precalculated z)
  else .error .valueError

end Pyoda.Codec
