/-
  PyodaModel.Codec.Validate — `TzdbDateTimeZoneSource.validate()` as a decidable check, and the two derived maps
  `tzdb_to_windows_ids` / `windows_to_tzdb_ids` (pyoda_time/time_zones/_tzdb_date_time_zone_source.py).

  Python dicts are insertion-ordered association lists with unique keys (`dictInsert`, `dictGet?` of Codec/Prim).
  `validate()` raises at the first failing test; `firstFailure` is the number of the first failing group in the
  code's order (0 = the source validates):
    1  canonical map closure   (`Mapping for entry … is missing / is not canonical`)
    2  every MapZone's windows id has a primary ("001") entry   (`… has no primary territory`)
    3  every tzdb id of every MapZone is known; no id occurs twice outside primary entries
    4  per windows id, over the SET of its MapZone entries (the code groups with a dict keyed by MapZone, so entries
       that are equal in all three components collapse first): territories distinct, a primary entry exists, it has
       exactly one tzdb id, and that id occurs in a non-primary entry of the same windows id
    5  zone ids of the locations are known        6  zone ids of the 1970 locations are known
-/
import PyodaModel.Codec.Source

namespace Pyoda.Codec

/-- what `validate()` and the derived maps look at -/
structure SrcView where
  idMap : List (Str × Str)
  mapZones : List MapZone
  locIds : Option (List Str)
  loc70Ids : Option (List Str)
  deriving Inhabited

def SourceData.view (s : SourceData) : SrcView :=
  ⟨s.stream.idMap, s.windows.mapZones, s.locations.map (·.map (·.zoneId)), s.locations1970.map (·.map (·.zoneId))⟩

/-- `id in canonical_id_map` -/
def known (m : List (Str × Str)) (id : Str) : Bool := (dictGet? m id).isSome

/-- group 1: `canonical_id_map.get(value)` exists and equals `value`, for every entry -/
def canonClosed (m : List (Str × Str)) : Bool := m.all (fun e => decide (dictGet? m e.2 = some e.2))

/-- group 2: `map_zone.windows_id in primary_mapping` for every MapZone -/
def hasPrimary (zs : List MapZone) : Bool :=
  let pm := primaryMapping zs
  zs.all (fun z => known pm z.windowsId)

/-- the tzdb ids of the non-primary entries, in file order (what goes through `mapped_tzdb_ids`) -/
def nonPrimaryIds (zs : List MapZone) : List Str := (zs.filter (fun z => !z.isPrimary)).flatMap (·.tzdbIds)

def nodupB : List Str → Bool
  | [] => true
  | x :: xs => !decide (x ∈ xs) && nodupB xs

/-- group 3 -/
def idsOK (m : List (Str × Str)) (zs : List MapZone) : Bool :=
  zs.all (fun z => z.tzdbIds.all (known m)) && nodupB (nonPrimaryIds zs)

/-- the keys of `{mz: mz.windows_id for mz in map_zones}`: first occurrences, in order -/
def dedup : List MapZone → List MapZone
  | [] => []
  | z :: zs => z :: (dedup zs).filter (fun y => decide (y ≠ z))

/-- the entries of one windows id -/
def zonesOf (zs : List MapZone) (wid : Str) : List MapZone := zs.filter (fun z => decide (z.windowsId = wid))

/-- group 4 for one windows id over the entries `zs` -/
def groupOK (zs : List MapZone) (wid : Str) : Bool :=
  let g := zonesOf zs wid
  nodupB (g.map (·.territory)) &&
  match g.find? (·.isPrimary) with
  | none => false
  | some p =>
    match p.tzdbIds with
    | [x] => g.any (fun z => !z.isPrimary && decide (x ∈ z.tzdbIds))
    | _ => false

/-- group 4 over a list of entries -/
def groupsOKOn (zs : List MapZone) : Bool := zs.all (fun z => groupOK zs z.windowsId)

/-- group 4 as the code evaluates it: over the de-duplicated entries -/
def groupsOK (zs : List MapZone) : Bool := groupsOKOn (dedup zs)

/-- groups 5 and 6 (`if self.zone_locations:` — absent or empty means nothing to test) -/
def locsOK (m : List (Str × Str)) : Option (List Str) → Bool
  | none => true
  | some l => l.all (known m)

/-- `validate()` returns normally -/
def sourceValid (s : SrcView) : Bool :=
  canonClosed s.idMap && hasPrimary s.mapZones && idsOK s.idMap s.mapZones && groupsOK s.mapZones &&
    locsOK s.idMap s.locIds && locsOK s.idMap s.loc70Ids

/-- the same with group 4 evaluated over the entries as listed (Noda Time's `ToLookup` on the sequence): differs
    from `sourceValid` only when two entries are equal in all three components -/
def sourceValidStrict (s : SrcView) : Bool :=
  canonClosed s.idMap && hasPrimary s.mapZones && idsOK s.idMap s.mapZones && groupsOKOn s.mapZones &&
    locsOK s.idMap s.locIds && locsOK s.idMap s.loc70Ids

/-- number of the first failing group in the code's order, 0 when `validate()` returns normally -/
def firstFailure (s : SrcView) : Nat :=
  if !canonClosed s.idMap then 1
  else if !hasPrimary s.mapZones then 2
  else if !idsOK s.idMap s.mapZones then 3
  else if !groupsOK s.mapZones then 4
  else if !locsOK s.idMap s.locIds then 5
  else if !locsOK s.idMap s.loc70Ids then 6
  else 0

/-! ## derived maps -/

def insertByKey (x : Str × Str) : List (Str × Str) → List (Str × Str)
  | [] => [x]
  | y :: ys => if decide (x.1 ≤ y.1) then x :: y :: ys else y :: insertByKey x ys

/-- `sorted(d.items())` for a dict (keys are unique, so the order is the order of the keys; `str` compares by code
    point, which is the byte order of the UTF-8 encodings) -/
def sortByKey (l : List (Str × Str)) : List (Str × Str) := l.foldr insertByKey []

/-- the `(tzdb id, windows id)` assignments of the first loop of `__build_tzdb_to_windows_id_map`, in order -/
def directPairs (zs : List MapZone) : List (Str × Str) :=
  (zs.filter (fun z => !z.isPrimary)).flatMap (fun z => z.tzdbIds.map (fun id => (id, z.windowsId)))

def insertAll (d ps : List (Str × Str)) : List (Str × Str) := ps.foldl (fun d p => dictInsert d p.1 p.2) d

/-- `{k: v for k, v in canonical_id_map.items() if k != v}` -/
def aliasesOf (m : List (Str × Str)) : List (Str × Str) := m.filter (fun e => decide (e.1 ≠ e.2))

/-- `mutable.get(k)` used as a condition: present and not the empty string -/
def truthyGet (d : List (Str × Str)) (k : Str) : Option Str :=
  match dictGet? d k with
  | some w => if w = [] then none else some w
  | none => none

/-- second loop, alias `k → v`: `if v not in mutable and (w := mutable.get(k)): mutable[v] = w` -/
def backfillStep (d : List (Str × Str)) (e : Str × Str) : List (Str × Str) :=
  if known d e.2 then d else
  match truthyGet d e.1 with
  | some w => dictInsert d e.2 w
  | none => d

/-- third loop, alias `k → v`: `if k not in mutable and (w := mutable.get(v)): mutable[k] = w` -/
def forwardStep (d : List (Str × Str)) (e : Str × Str) : List (Str × Str) :=
  if known d e.1 then d else
  match truthyGet d e.2 with
  | some w => dictInsert d e.1 w
  | none => d

/-- `__build_tzdb_to_windows_id_map` -/
def tzdbToWindows (m : List (Str × Str)) (zs : List MapZone) : List (Str × Str) :=
  let d1 := insertAll [] (directPairs zs)
  let d2 := (sortByKey (aliasesOf m)).foldl backfillStep d1
  (aliasesOf m).foldl forwardStep d2

/-- `{k: canonical_id_map[v] for k, v in items}` (`KeyError` for an unknown id) -/
def mapCanonical (m : List (Str × Str)) : List (Str × Str) → R (List (Str × Str))
  | [] => .ok []
  | (k, v) :: rest =>
    match dictGet? m v with
    | none => .error .keyError
    | some c => do
      let t ← mapCanonical m rest
      .ok ((k, c) :: t)

/-- `__build_windows_to_tzdb_id_map` -/
def windowsToTzdb (m : List (Str × Str)) (zs : List MapZone) : R (List (Str × Str)) :=
  mapCanonical m (primaryMapping zs)

end Pyoda.Codec
