/-
  PyodaModel.Codec.Session — `_DateTimeZoneReader` and `_DateTimeZoneWriter` as STATEFUL objects, and whole
  sessions (sequences of calls on one reader / one writer object).

  Reader state = what the underlying stream still holds (`input`), the one-byte look-ahead buffer of the code
  (`buffered`, `__buffered_byte`) and the string pool the reader refers to. `readByteM` / `hasMoreDataM` are the
  code's `read_byte` / `has_more_data` statement for statement; every other read method of the class is written
  here in terms of `readByteM` exactly as the Python method is written in terms of `read_byte` (and `read_string`
  without a pool takes its payload from the stream directly, as the code does). `PyodaProofs/C14SessionRefine.lean`
  proves that each of them is the pure reader of `Codec/Prim.lean` applied to the ABSTRACT remaining bytes
  `abs = buffered ++ input` (`*_refines`); `PyodaProofs/C14Session.lean` that `has_more_data` never changes `abs`
  (`peek_pure`) and that whole sessions round-trip (`session_roundtrip`).

  Writer state = bytes written so far and the string pool LIST the writer refers to (shared with the caller).
  Besides the write calls a session may contain EXTERNAL pool actions — the caller clears, replaces or extends
  the shared list between two calls (`pool.clear()`, `pool[:] = […]`, `pool.append(s)`).

  Text forms of the session ops (tokens, no spaces inside):
    value     `b=<int>` `c=<int>` `sc=<int>` `ms=<int>` `of=<seconds>` `tr=<prev or ->/<instant>` `s=<hex>`
              `d=<k>/<v>/…` (pool-string syntax: `~` = empty; `d=` alone = empty dictionary) `yo=<yearoffset>`
              `rec=<recurrence>`; a value may be prefixed by `<n>*` = n peeks before it is read
    pool act  `P.clear` `P.set=<pool>` `P.app=<poolstr>`
    `/`       end of document (the reader's pool for the document is the writer's pool at this point)
    read act  `?` (peek) `b` `c` `sc` `ms` `of` `tr=<prev or ->` `s` `d` `yo` `rec` `P.set=<pool>`
-/
import PyodaModel.Codec

namespace Pyoda.Codec.Session
open Pyoda Pyoda.Codec

/-! ## the reader as a state machine -/

structure RState where
  /-- what the underlying stream has not yet handed out -/
  input : Bytes
  /-- `__buffered_byte` -/
  buffered : Option Nat
  /-- `__string_pool` (a reference: the caller may change the sequence between calls) -/
  pool : Pool
  deriving Repr, DecidableEq

/-- the bytes the reader has not yet returned to its caller: the buffered byte, then the stream -/
def RState.abs (s : RState) : Bytes :=
  match s.buffered with
  | none => s.input
  | some b => b :: s.input

abbrev RM := StateT RState R

/-- `read_byte`: the buffered byte if there is one (and the buffer is emptied), else one byte from the stream;
    `InvalidPyodaDataError` at the end of the stream -/
def readByteM : RM Nat := fun st =>
  match st.buffered with
  | some b => .ok (b, { st with buffered := none })
  | none =>
    match st.input with
    | [] => .error .invalidData
    | b :: r => .ok (b, { st with input := r })

/-- `has_more_data`: true when a byte is buffered; else try to read one byte from the stream and keep it -/
def hasMoreDataM : RM Bool := fun st =>
  match st.buffered with
  | some _ => .ok (true, st)
  | none =>
    match st.input with
    | [] => .ok (false, st)
    | b :: r => .ok (true, { st with input := r, buffered := some b })

/-- the loop of `__read_varint`; every iteration calls `read_byte`, so `fuel` = one more than the number of bytes
    left is never exhausted (the read fails first) -/
def readVarintLoopM : Nat → Nat → Nat → RM Nat
  | 0, _, _ => throw .other
  | fuel + 1, acc, shift => do
    let b ← readByteM
    let acc' := acc + (b % 128) * 2 ^ shift
    if b < 128 then pure acc' else readVarintLoopM fuel acc' (shift + 7)

def readVarintM : RM Nat := fun st => readVarintLoopM (st.abs.length + 1) 0 0 st

def readCountM : RM Int := do
  let u ← readVarintM
  if (u : Int) > INT_MAX then throw .invalidData else pure (u : Int)

def readSignedCountM : RM Int := do
  let u ← readVarintM
  pure (unzigzag u)

def readInt16M : RM Nat := do
  let h ← readByteM
  let l ← readByteM
  pure (h * 256 + l)

def readInt32M : RM Nat := do
  let h ← readInt16M
  let l ← readInt16M
  pure (h % 65536 * 65536 + l % 65536)

def readInt64M : RM Int := do
  let h ← readInt32M
  let l ← readInt32M
  pure (int64Overflow ((h % 4294967296 * 4294967296 + l % 4294967296 : Nat) : Int))

def readMillisecondsM : RM Int := do
  let first ← readByteM
  if first < 128 then pure ((first : Int) * MS30MIN - MsPD)
  else
    let flag := first / 32
    let firstData := first % 32
    if flag = 4 then do
      let b ← readByteM
      pure (((firstData * 256 + b : Nat) : Int) * MSMIN - MsPD)
    else if flag = 5 then do
      let w ← readInt16M
      pure (((firstData * 65536 + w % 65536 : Nat) : Int) * MSSEC - MsPD)
    else if flag = 6 then do
      let b ← readByteM
      let w ← readInt16M
      pure (((firstData * 16777216 + b * 65536 + w % 65536 : Nat) : Int) - MsPD)
    else throw .invalidData

def readOffsetM : RM Offset := do
  let ms ← readMillisecondsM
  let o ← (Offset.fromMilliseconds ms : R Offset)
  pure o

def readTransitionM (previous : Option Instant) : RM Instant := do
  let value ← readCountM
  if value < MIN_HOURS then
    if value = MARKER_MIN then pure Instant.beforeMin
    else if value = MARKER_MAX then pure Instant.afterMax
    else if value = MARKER_RAW then do
      let t ← readInt64M
      let i ← (Instant.fromUnixTicks t : R Instant)
      pure i
    else throw .invalidData
  else if value < MIN_MINUTES then
    match previous with
    | none => throw .invalidData
    | some p => do
      let d ← (Duration.fromHours value : R Duration)
      let i ← (p.plus d : R Instant)
      pure i
  else do
    let d ← (Duration.fromMinutes value : R Duration)
    let i ← (EPOCH1800.plus d : R Instant)
    pure i

/-- `read_string`. Without a pool the payload is taken from the STREAM (`self.__input.read(remaining)`), not
    through `read_byte`: the look-ahead buffer is not consulted there (it is empty, because `read_count` has just
    called `read_byte` — proved as `readStringM_refines`). -/
def readStringM : RM Str := do
  let n ← readCountM
  let st ← get
  match st.pool with
  | none =>
    match takeExact n.toNat st.input with
    | none => throw .invalidData
    | some (data, r) => do
      set { st with input := r }
      if validUtf8 data then pure data else throw .unicodeError
  | some p =>
    match p[n.toNat]? with
    | some s => pure s
    | none => throw .invalidData

def readNM {α} (f : RM α) : Nat → RM (List α)
  | 0 => pure []
  | n + 1 => do
    let a ← f
    let as ← readNM f n
    pure (a :: as)

def readPairM : RM (Str × Str) := do
  let k ← readStringM
  let v ← readStringM
  pure (k, v)

def readDictionaryM : RM (List (Str × Str)) := do
  let n ← readCountM
  let es ← readNM readPairM n.toNat
  pure (es.foldl (fun d e => dictInsert d e.1 e.2) [])

/-- `_ZoneYearOffset.read(reader)`: a sequence of calls on the reader, then the constructor -/
def readYearOffsetM : RM ZoneYearOffset := do
  let flags ← readByteM
  match TransitionMode.ofNat? (flags / 32) with
  | none => throw .valueError
  | some mode =>
    let dow : Int := ((flags / 4 % 8 : Nat) : Int)
    let advance := flags / 2 % 2 == 1
    let addDay := flags % 2 == 1
    let month ← readCountM
    let dom ← readSignedCountM
    let ms ← readMillisecondsM
    let tod ← (localTimeFromMillis ms : R Int)
    let y ← (yearOffsetCtor mode month dom dow advance tod addDay : R ZoneYearOffset)
    pure y

/-- `_ZoneRecurrence.read(reader)` -/
def readRecurrenceM : RM ZoneRecurrence := do
  let name ← readStringM
  let savings ← readOffsetM
  let yo ← readYearOffsetM
  let fy ← readCountM
  let ty ← readCountM
  let z ← (recurrenceCtor ⟨name, savings, yo, if fy = 0 then INT_MIN else fy, ty⟩ : R ZoneRecurrence)
  pure z

/-! ## values, kinds, actions -/

inductive Val where
  | byte (v : Int)
  | count (n : Int)
  | scount (n : Int)
  | ms (v : Int)
  | offset (o : Offset)
  | trans (prev : Option Instant) (v : Instant)
  | str (s : Str)
  | dict (d : List (Str × Str))
  | yo (y : ZoneYearOffset)
  | recur (z : ZoneRecurrence)
  deriving Repr, DecidableEq

inductive Kind where
  | byte | count | scount | ms | offset | trans (prev : Option Instant) | str | dict | yo | recur
  deriving Repr, DecidableEq

def Val.kind : Val → Kind
  | .byte _ => .byte | .count _ => .count | .scount _ => .scount | .ms _ => .ms | .offset _ => .offset
  | .trans p _ => .trans p | .str _ => .str | .dict _ => .dict | .yo _ => .yo | .recur _ => .recur

/-- one read call on the reader object -/
def readValM : Kind → RM Val
  | .byte => do let b ← readByteM; pure (.byte (b : Int))
  | .count => do let n ← readCountM; pure (.count n)
  | .scount => do let n ← readSignedCountM; pure (.scount n)
  | .ms => do let v ← readMillisecondsM; pure (.ms v)
  | .offset => do let o ← readOffsetM; pure (.offset o)
  | .trans p => do let i ← readTransitionM p; pure (.trans p i)
  | .str => do let s ← readStringM; pure (.str s)
  | .dict => do let d ← readDictionaryM; pure (.dict d)
  | .yo => do let y ← readYearOffsetM; pure (.yo y)
  | .recur => do let z ← readRecurrenceM; pure (.recur z)

/-- the same read as a pure function of the remaining bytes (the readers of `Codec/Prim.lean`, `Zone.lean`,
    `Tail.lean`) -/
def readVal (pool : Pool) : Kind → Bytes → R (Val × Bytes)
  | .byte, bs => do let (b, r) ← readByte bs; .ok (.byte (b : Int), r)
  | .count, bs => do let (n, r) ← readCount bs; .ok (.count n, r)
  | .scount, bs => do let (n, r) ← readSignedCount bs; .ok (.scount n, r)
  | .ms, bs => do let (v, r) ← readMilliseconds bs; .ok (.ms v, r)
  | .offset, bs => do let (o, r) ← readOffset bs; .ok (.offset o, r)
  | .trans p, bs => do let (i, r) ← readTransition p bs; .ok (.trans p i, r)
  | .str, bs => do let (s, r) ← readString pool bs; .ok (.str s, r)
  | .dict, bs => do let (d, r) ← readDictionary pool bs; .ok (.dict d, r)
  | .yo, bs => do let (y, r) ← readYearOffset bs; .ok (.yo y, r)
  | .recur, bs => do let (z, r) ← readRecurrence pool bs; .ok (.recur z, r)

/-- one write call: the bytes appended to the output and the pool afterwards -/
def writeVal (pool : Pool) : Val → R (Bytes × Pool)
  | .byte v => do let b ← writeByte v; .ok (b, pool)
  | .count n => do let b ← writeCount n; .ok (b, pool)
  | .scount n => do let b ← writeSignedCount n; .ok (b, pool)
  | .ms v => do let b ← writeMilliseconds v; .ok (b, pool)
  | .offset o => do let b ← writeOffset o; .ok (b, pool)
  | .trans p v => do let b ← writeTransition p v; .ok (b, pool)
  | .str s => writeString pool s
  | .dict d => writeDictionary pool d
  | .yo y => do let b ← writeYearOffset y; .ok (b, pool)
  | .recur z => writeRecurrence pool z

/-- what the CALLER does to the shared pool list between two calls on the writer -/
inductive PoolAct where
  | clear                     -- `pool.clear()`
  | set (l : List Str)        -- `pool[:] = l` (replace in place: reorder, truncate, anything)
  | append (s : Str)          -- `pool.append(s)`
  deriving Repr, DecidableEq

/-- the list after the action; a writer/reader without a pool has no list to change -/
def PoolAct.apply : PoolAct → Pool → Pool
  | _, none => none
  | .clear, some _ => some []
  | .set l, some _ => some l
  | .append s, some p => some (p ++ [s])

inductive WAct where
  | write (v : Val)
  | pool (a : PoolAct)
  deriving Repr, DecidableEq

inductive RAct where
  | peek
  | read (k : Kind)
  | pool (a : PoolAct)
  deriving Repr, DecidableEq

/-! ## the writer as a state machine -/

structure WState where
  out : Bytes
  pool : Pool
  deriving Repr, DecidableEq

inductive WOut where
  | wrote (bs : Bytes)
  | poolOp
  | err (e : PyExc)
  deriving Repr, DecidableEq

def stepW (a : WAct) (st : WState) : R (WOut × WState) :=
  match a with
  | .write v => do
    let (bs, pool) ← writeVal st.pool v
    .ok (.wrote bs, ⟨st.out ++ bs, pool⟩)
  | .pool p => .ok (.poolOp, { st with pool := p.apply st.pool })

/-- a writer session: the transcript (one entry per action, ending at the first exception) and the final state -/
def runWriter : List WAct → WState → List WOut × WState
  | [], st => ([], st)
  | a :: as, st =>
    match stepW a st with
    | .ok (o, st') => let (os, s) := runWriter as st'; (o :: os, s)
    | .error e => ([.err e], st)

/-! ## reader sessions -/

inductive ROut where
  | peeked (b : Bool)
  | value (v : Val)
  | poolOp
  | err (e : PyExc)
  deriving Repr, DecidableEq

def stepR (a : RAct) : RM ROut :=
  match a with
  | .peek => do let b ← hasMoreDataM; pure (.peeked b)
  | .read k => do let v ← readValM k; pure (.value v)
  | .pool p => do modify (fun st => { st with pool := p.apply st.pool }); pure .poolOp

def runReader : List RAct → RState → List ROut × RState
  | [], st => ([], st)
  | a :: as, st =>
    match stepR a st with
    | .ok (o, st') => let (os, s) := runReader as st'; (o :: os, s)
    | .error e => ([.err e], st)

/-! ## whole sessions: documents written by one writer, read back by one reader -/

/-- an item of a session script -/
inductive Item where
  | value (peeks : Nat) (v : Val)    -- write `v`; on the reading side: `peeks` × `has_more_data`, then read it
  | pool (a : PoolAct)               -- the caller changes the shared pool list (writer side)
  | endDoc                           -- the document ends here
  deriving Repr, DecidableEq

def Item.wact : Item → List WAct
  | .value _ v => [.write v]
  | .pool a => [.pool a]
  | .endDoc => []

/-- pools at the ends of the documents of a script, as the writer leaves them (`none` when a write fails) -/
def docPools : List Item → Pool → Option (List Pool)
  | [], p => some [p]
  | .value _ v :: r, p =>
    match writeVal p v with
    | .ok (_, p') => docPools r p'
    | .error _ => none
  | .pool a :: r, p => docPools r (a.apply p)
  | .endDoc :: r, p => (docPools r p).map (p :: ·)

/-- `rpool[:] = p` on the reading side (nothing to do for a reader without a pool) -/
def setAct : Pool → List RAct
  | some l => [RAct.pool (.set l)]
  | none => []

/-- the reader actions of a script after the current document's pool has been set: the reads with their peeks;
    at every `endDoc` the reader's pool sequence is set to the pool the writer ended the NEXT document with -/
def readerActsAux : List Item → List Pool → List RAct
  | [], _ => []
  | .value n v :: r, ps => List.replicate n RAct.peek ++ RAct.read v.kind :: readerActsAux r ps
  | .pool _ :: r, ps => readerActsAux r ps
  | .endDoc :: r, [] => readerActsAux r []
  | .endDoc :: r, p :: ps => setAct p ++ readerActsAux r ps

/-- reader actions for the whole script (`pools` = `docPools`: the writer's pool at the end of each document):
    set the pool of the first document, read everything back, finally `endPeeks` peeks -/
def sessionReaderActs (items : List Item) (pools : List Pool) (endPeeks : Nat) : List RAct :=
  (match pools with
   | [] => readerActsAux items []
   | p :: ps => setAct p ++ readerActsAux items ps) ++ List.replicate endPeeks RAct.peek

/-! ## text forms -/

def showKV (d : List (Str × Str)) : String :=
  if d.isEmpty then "[]" else ",".intercalate (d.map fun (k, v) => showPoolStr k ++ "=" ++ showPoolStr v)

def showVal : Val → String
  | .byte v => toString v
  | .count n => toString n
  | .scount n => toString n
  | .ms v => toString v
  | .offset o => toString o.seconds
  | .trans _ v => showInstant v
  | .str s => showStr s
  | .dict d => showKV d
  | .yo y => showYO y
  | .recur z => showRec z

def showWOut : WOut → String
  | .wrote bs => showHex bs
  | .poolOp => "."
  | .err e => "!" ++ e.name

def showROut : ROut → String
  | .peeked b => showBool b
  | .value v => showVal v
  | .poolOp => "."
  | .err e => "!" ++ e.name

def splitFirst (s : String) (c : Char) : String × Option String :=
  match s.splitOn (String.singleton c) with
  | [] => (s, none)
  | [a] => (a, none)
  | a :: rest => (a, some ((String.singleton c).intercalate rest))

def pairsOf : List Str → Option (List (Str × Str))
  | [] => some []
  | [_] => none
  | k :: v :: r => (pairsOf r).map ((k, v) :: ·)

/-- a value token; year offsets and recurrences go through their constructors (`R`: the constructor may raise) -/
def parseVal? (kind : String) (payload : Option String) : Option (R Val) :=
  match kind, payload with
  | "b", some p => do let n ← parseInt? p; some (.ok (.byte n))
  | "c", some p => do let n ← parseInt? p; some (.ok (.count n))
  | "sc", some p => do let n ← parseInt? p; some (.ok (.scount n))
  | "ms", some p => do let n ← parseInt? p; some (.ok (.ms n))
  | "of", some p => do let n ← parseInt? p; some ((Offset.fromSeconds n).map .offset)
  | "tr", some p =>
    match p.splitOn "/" with
    | [a, b] => do let a ← parseOptInstant? a; let b ← parseInstant? b; some (.ok (.trans a b))
    | _ => none
  | "s", some p => do let s ← parseHex? p; some (.ok (.str s))
  | "d", some p =>
    if p = "" then some (.ok (.dict [])) else do
      let l ← (p.splitOn "/").mapM parsePoolStr?
      let d ← pairsOf l
      some (.ok (.dict d))
  | "yo", some p => do let y ← parseYO? p; some ((mkYearOffset y).map .yo)
  | "rec", some p => do let z ← parseRec? p; some ((mkRecurrence z).map .recur)
  | _, _ => none

def parsePoolAct? (kind : String) (payload : Option String) : Option PoolAct :=
  match kind, payload with
  | "P.clear", none => some .clear
  | "P.set", some p => do
    let l ← parsePool? p
    match l with
    | some l => some (.set l)
    | none => none
  | "P.app", some p => do let s ← parsePoolStr? p; some (.append s)
  | _, _ => none

def parseItem? (tok : String) : Option (R Item) :=
  if tok = "/" then some (.ok .endDoc) else
  let (head, payload) := splitFirst tok '='
  match parsePoolAct? head payload with
  | some a => some (.ok (.pool a))
  | none =>
    match head.splitOn "*" with
    | [k] => (parseVal? k payload).map (·.map (.value 0))
    | [n, k] => do let n ← n.toNat?; (parseVal? k payload).map (·.map (.value n))
    | _ => none

def parseKind? (tok : String) : Option Kind :=
  let (head, payload) := splitFirst tok '='
  match head, payload with
  | "b", none => some .byte
  | "c", none => some .count
  | "sc", none => some .scount
  | "ms", none => some .ms
  | "of", none => some .offset
  | "tr", some p => (parseOptInstant? p).map .trans
  | "s", none => some .str
  | "d", none => some .dict
  | "yo", none => some .yo
  | "rec", none => some .recur
  | _, _ => none

def parseRAct? (tok : String) : Option RAct :=
  if tok = "?" then some .peek else
  let (head, payload) := splitFirst tok '='
  match parsePoolAct? head payload with
  | some a => some (.pool a)
  | none => (parseKind? tok).map .read

/-- the longest prefix of successfully constructed items, and the error that cut it (if any) -/
def okPrefix {α} : List (R α) → List α × Option PyExc
  | [] => ([], none)
  | .ok a :: r => let (l, e) := okPrefix r; (a :: l, e)
  | .error e :: _ => ([], some e)

def showBuffered : Option Nat → String
  | none => "-"
  | some b => showHex [b]

def wHasErr (os : List WOut) : Bool := os.any fun | .err _ => true | _ => false
def rHasErr (os : List ROut) : Bool := os.any fun | .err _ => true | _ => false

/-- reader transcript; the stream position and the buffer are reported when the session ran to its end (after an
    exception the reader object is left part-way through a value: not modelled) -/
def showReaderRun (r : List ROut × RState) : String :=
  " ".intercalate (r.1.map showROut) ++
    (if rHasErr r.1 then "" else " | " ++ toString r.2.input.length ++ " " ++ showBuffered r.2.buffered)


/-- `codec.session <pool> <endPeeks> <item>…`: ONE writer writes every document of the script (pool actions as
    scripted), then ONE reader over all the bytes written reads the documents back (its pool sequence set, at the
    start of each document, to the pool the writer ended that document with), peeking as scripted and `endPeeks`
    times at the end. Reply: writer transcript, `|`, the writer's final pool, `|`, reader transcript, `|`, bytes
    left in the stream, buffered byte (the last part only when the reader raised nothing). -/
def sessionReply (pool : Pool) (endPeeks : Nat) (items : List (R Item)) : String :=
  let (its, cut) := okPrefix items
  let (wos, wst) := runWriter (its.flatMap Item.wact) ⟨[], pool⟩
  let wtxt := " ".intercalate (wos.map showWOut)
  if wHasErr wos then "W " ++ wtxt
  else
    match cut with
    | some e => " ".intercalate ("W" :: wos.map showWOut ++ ["!" ++ e.name])
    | none =>
      match docPools its pool with
      | none => "W " ++ wtxt ++ " ?pools"
      | some pools =>
        let racts := sessionReaderActs its pools endPeeks
        "W " ++ wtxt ++ " | " ++ showPool wst.pool ++ " | " ++ showReaderRun (runReader racts ⟨wst.out, none, pool⟩)

/-- `codec.rsession <pool> <hex> <ract>…`: one reader over the given bytes -/
def rsessionReply (pool : Pool) (data : Bytes) (acts : List RAct) : String :=
  showReaderRun (runReader acts ⟨data, none, pool⟩)

def handle (toks : List String) : Option String :=
  match toks with
  | "codec.session" :: p :: n :: items => do
    let p ← parsePool? p
    let n ← n.toNat?
    let its ← items.mapM parseItem?
    some (sessionReply p n its)
  | "codec.rsession" :: p :: h :: acts => do
    let p ← parsePool? p
    let b ← parseHex? h
    let as ← acts.mapM parseRAct?
    some (rsessionReply p b as)
  | _ => none

end Pyoda.Codec.Session
