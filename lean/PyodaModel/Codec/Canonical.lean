/-
  PyodaModel.Codec.Canonical — "canonical" zone bytes, decidably.

  A primitive encoding is canonical when the primitive WRITER emits exactly the bytes the reader consumed for the
  value it read (`strictBy`). What that means concretely is the content of `milliseconds_form`, `transition_form`,
  `signedCount_form` and LEB128 minimality (C14): shortest varint, the 1/2/3/4-byte millisecond form prescribed by
  divisibility, hours-since-previous before minutes-since-1800 before raw ticks, pooled strings by their first index.
  The strict readers below decode exactly like the plain ones and additionally insist on that for every primitive;
  `canonicalZoneField` is the resulting Boolean check for one zone field of a .nzd file.
  `PyodaProofs/C14Canonical.lean`: a strict read is a plain read, and re-encoding the value reproduces the bytes.
-/
import PyodaModel.Codec.Tail

namespace Pyoda.Codec

/-- read, then insist that writing the value gives back exactly the consumed bytes -/
def strictBy {α} (read : Bytes → R (α × Bytes)) (write : α → R Bytes) (bs : Bytes) : R (α × Bytes) := do
  let (v, r) ← read bs
  match write v with
  | .ok c => if bs = c ++ r then .ok (v, r) else .error .other
  | .error _ => .error .other

def readCountS : Bytes → R (Int × Bytes) := strictBy readCount writeCount
def readSignedCountS : Bytes → R (Int × Bytes) := strictBy readSignedCount writeSignedCount
def readMillisecondsS : Bytes → R (Int × Bytes) := strictBy readMilliseconds writeMilliseconds
def readOffsetS : Bytes → R (Offset × Bytes) := strictBy readOffset writeOffset
def readTransitionS (previous : Option Instant) : Bytes → R (Instant × Bytes) :=
  strictBy (readTransition previous) (writeTransition previous)

/-- a string is canonical when the writer would emit these bytes without adding to the pool -/
def readStringS (pool : Pool) (bs : Bytes) : R (Str × Bytes) := do
  let (s, r) ← readString pool bs
  match writeString pool s with
  | .ok (c, pool') => if pool' = pool ∧ bs = c ++ r then .ok (s, r) else .error .other
  | .error _ => .error .other

/-- `readYearOffset` with strict primitives -/
def readYearOffsetS (bs : Bytes) : R (ZoneYearOffset × Bytes) := do
  let (flags, r) ← readByte bs
  match TransitionMode.ofNat? (flags / 32) with
  | none => .error .valueError
  | some mode =>
    let dow : Int := ((flags / 4 % 8 : Nat) : Int)
    let advance := flags / 2 % 2 == 1
    let addDay := flags % 2 == 1
    let (month, r) ← readCountS r
    let (dom, r) ← readSignedCountS r
    let (ms, r) ← readMillisecondsS r
    let tod ← localTimeFromMillis ms
    let y ← yearOffsetCtor mode month dom dow advance tod addDay
    .ok (y, r)

/-- `readAlternatingMap` with strict primitives -/
def readAlternatingMapS (pool : Pool) (bs : Bytes) : R (AlternatingMap × Bytes) := do
  let (so, r) ← readOffsetS bs
  let (sn, r) ← readStringS pool r
  let (sy, r) ← readYearOffsetS r
  let (dn, r) ← readStringS pool r
  let (dy, r) ← readYearOffsetS r
  let (sv, r) ← readOffsetS r
  let m ← alternatingMapCtor so ⟨sn, ⟨0⟩, sy, INT_MIN, INT_MAX⟩ ⟨dn, sv, dy, INT_MIN, INT_MAX⟩
  .ok (m, r)

/-- `readPeriods` with strict primitives -/
def readPeriodsS (pool : Pool) : Nat → Instant → Bytes → R (List ZoneInterval × Bytes)
  | 0, _, bs => .ok ([], bs)
  | n + 1, start, bs => do
    let (name, r) ← readStringS pool bs
    let (wall, r) ← readOffsetS r
    let (savings, r) ← readOffsetS r
    let (next, r) ← readTransitionS (some start) r
    let p ← zoneIntervalCtor name start next wall savings
    let (ps, r) ← readPeriodsS pool n next r
    .ok (p :: ps, r)

/-- `readPrecalculatedData` with strict primitives; at least one period (the writer needs `periods[-1]`), and the
    tail flag is 0 or 1 (the reader treats every byte other than 1 as "no tail", the writer emits 0) -/
def readPrecalculatedDataS (pool : Pool) (id : Str) (bs : Bytes) : R (PrecalculatedZone × Bytes) := do
  let (size, r) ← readCountS bs
  if size = 0 then .error .other else
  let (start, r) ← readTransitionS none r
  let (periods, r) ← readPeriodsS pool size.toNat start r
  let (flag, r) ← readByte r
  if flag = 1 then do
    let (m, r) ← readAlternatingMapS pool r
    .ok (⟨id, periods, some m⟩, r)
  else if flag = 0 then .ok (⟨id, periods, none⟩, r)
  else .error .other

/-- one zone field of a .nzd file (pooled id, type byte, zone): first it must decode and construct like any zone
    (failure kinds as in `createZoneRaw`); then it is canonical iff the strict decoder accepts it to the last byte.
    `none` = a fixed zone (nothing to re-encode: the port has no writer for it). -/
def canonicalZoneField (pool : Pool) (field : Bytes) : R (Option Bool) := do
  let (id, r) ← readString pool field
  let (ty, r) ← readByte r
  if ty = 2 then
    match readPrecalculated pool id r with
    | .error e => .error e
    | .ok _ =>
      match readPrecalculatedDataS pool id r with
      | .ok (_, rest) => .ok (some rest.isEmpty)
      | .error _ => .ok (some false)
  else .ok none

end Pyoda.Codec
