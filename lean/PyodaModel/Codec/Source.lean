/-
  PyodaModel.Codec.Source — the whole database file inside the model: everything `TzdbDateTimeZoneSource` holds
  after `from_stream`, i.e. the `StreamData` of `Codec/Stream.lean` (string pool, id map, version, zone fields)
  PLUS the payloads of field 4 (CLDR Windows mapping), field 6 (zone locations) and field 7 (zone-1970 locations).

  `handleFieldX` first runs the handler of `Codec/Stream.lean` (all presence / duplicate-field / failure-kind rules
  live there and are the subject of C20), then decodes the payload of the same field data with the string pool that
  was current when the field was met — exactly the pool the code hands to the reader of that field.
  `fromStreamX_stream` (PyodaProofs/C06Source.lean): whatever `fromStreamX` returns extends what `fromStream` returns.
-/
import PyodaModel.Codec.Windows
import PyodaModel.Codec.Locations

namespace Pyoda.Codec

structure BuilderX where
  base : Builder := {}
  windows : Option WindowsZones := none
  locations : Option (List ZoneLocation) := none
  locations1970 : Option (List Zone1970Location) := none
  deriving Inhabited

/-- the payload part of a field handler (the pool is the builder's pool *before* the field is handled; only
    field 0 changes it) -/
def payloadOf (b : BuilderX) (base : Builder) (id : Nat) (data : Bytes) : R BuilderX :=
  match id with
  | 4 => do
    let (w, _) ← readWindowsZonesX b.base.stringPool data
    .ok { b with base := base, windows := some w }
  | 6 => do
    let (n, r) ← readCount data
    let (l, _) ← readN (readZoneLocationX b.base.stringPool) n.toNat r
    .ok { b with base := base, locations := some l }
  | 7 => do
    let (n, r) ← readCount data
    let (l, _) ← readN (readZone1970LocationX b.base.stringPool) n.toNat r
    .ok { b with base := base, locations1970 := some l }
  | _ => .ok { b with base := base }

def handleFieldX (b : BuilderX) (id : Nat) (data : Bytes) : R BuilderX := do
  let base ← handleField b.base id data
  payloadOf b base id data

/-- `_read_fields` interleaved with the handlers, as `readFields` -/
def readFieldsX : Nat → BuilderX → Bytes → R BuilderX
  | _, b, [] => .ok b
  | 0, _, _ :: _ => .error .other
  | fuel + 1, b, id :: r =>
    if id > 7 then .error .valueError
    else do
      let (len, r) ← readCount r
      match takeExact len.toNat r with
      | none => .error .invalidData
      | some (data, r) => do
        let b ← handleFieldX b id data
        readFieldsX fuel b r

/-- what a `TzdbDateTimeZoneSource` holds -/
structure SourceData where
  stream : StreamData
  windows : WindowsZones
  locations : Option (List ZoneLocation)
  locations1970 : Option (List Zone1970Location)
  deriving Inhabited

def sourceOfBuilderX (b : BuilderX) : R SourceData := do
  let d ← streamDataOfBuilder b.base
  match b.windows with
  | some w => .ok ⟨d, w, b.locations, b.locations1970⟩
  | none => .error .invalidData

def fromStreamBodyX (bytes : Bytes) : R SourceData :=
  match bytes with
  | b0 :: b1 :: b2 :: b3 :: rest =>
    if b0 ≠ 0 ∨ b1 ≠ 0 ∨ b2 ≠ 0 ∨ b3 ≠ 0 then .error .invalidData
    else do
      let b ← readFieldsX rest.length {} rest
      sourceOfBuilderX b
  | _ => .error .structError

/-- `TzdbDateTimeZoneSource.from_stream` with the payloads, as specified (a result or `InvalidPyodaDataError`) -/
def fromStreamX (bytes : Bytes) : R SourceData :=
  toInvalidData (translate caughtAtFromStream (fromStreamBodyX bytes))

/-! ## version strings -/

/-- `"TZDB: "` -/
def S_TZDB : Str := [84, 90, 68, 66, 58, 32]
/-- `" (mapping: "` -/
def S_MAPPING : Str := [32, 40, 109, 97, 112, 112, 105, 110, 103, 58, 32]
/-- `")"` -/
def S_CLOSE : Str := [41]

/-- `self.__version = f"{source.tzdb_version} (mapping: {source.windows_mapping.version})"` -/
def SourceData.versionText (s : SourceData) : Str := s.stream.version ++ S_MAPPING ++ s.windows.version ++ S_CLOSE
/-- `version_id = f"TZDB: {self.__version}"` -/
def SourceData.versionId (s : SourceData) : Str := S_TZDB ++ s.versionText
/-- `tzdb_version` -/
def SourceData.tzdbVersion (s : SourceData) : Str := s.stream.version

end Pyoda.Codec
