/-
  PyodaModel.Codec.Prim — primitives of `_DateTimeZoneWriter` / `_DateTimeZoneReader`
  (pyoda_time/time_zones/io/_date_time_zone_writer.py, _date_time_zone_reader.py) over `List Nat` bytes.

  Writers return `R Bytes` (the bytes appended to the output), readers `Bytes → R (value × rest)`.
  Reading at the end of the data is `InvalidPyodaDataError` (`.invalidData`), as in `read_byte`.

  Bit operations of the code are written arithmetically; every place says which identity is used:
  `x & (2^k-1) = x % 2^k`, `x >> k = x / 2^k` (floor), `a | b = a + b` for disjoint bit ranges.

  The writer is the code as repaired by 376f97f (`write_milliseconds` tests `% 30min == 0`) and 5927b21
  (`write_zone_interval_transition` computes `hours` by truncating division).
-/
import PyodaModel.ZoneData

namespace Pyoda.Codec

/-! ## bytes -/

/-- `read_byte` (the buffered byte of `has_more_data` is the head of the remaining list) -/
def readByte : Bytes → R (Nat × Bytes)
  | [] => .error .invalidData
  | b :: r => .ok (b, r)

/-- `write_byte(value)`: `bytes([value])` raises `ValueError` outside `range(256)` -/
def writeByte (v : Int) : R Bytes :=
  if 0 ≤ v ∧ v ≤ 255 then .ok [v.toNat] else .error .valueError

/-- `has_more_data` -/
def hasMoreData (bs : Bytes) : Bool := !bs.isEmpty

/-! ## varint (LEB128), counts, signed counts -/

/-- `__write_varint`: `while value > 127: emit (value & 127) | 128; value >>= 7`, then `value & 127`. -/
def writeVarintAux : Nat → Nat → Bytes
  | 0, v => [v % 128]
  | f + 1, v => if v > 127 then (v % 128 + 128) :: writeVarintAux f (v / 128) else [v % 128]

/-- fuel: one more than the number of 7-bit groups can never be exceeded -/
def writeVarint (v : Nat) : Bytes := writeVarintAux (v.log2 + 1) v

/-- `__read_varint`: `ret += (b & 127) << shift; shift += 7` until a byte below 128 (no cap on length). -/
def readVarintAux : Bytes → Nat → Nat → R (Nat × Bytes)
  | [], _, _ => .error .invalidData
  | b :: rest, acc, shift =>
    let acc' := acc + (b % 128) * 2 ^ shift
    if b < 128 then .ok (acc', rest) else readVarintAux rest acc' (shift + 7)

def readVarint (bs : Bytes) : R (Nat × Bytes) := readVarintAux bs 0 0

/-- `write_count` -/
def writeCount (n : Int) : R Bytes := do
  checkRange n 0 INT_MAX
  .ok (writeVarint n.toNat)

/-- `read_count`: above `Int32.MaxValue` is `InvalidPyodaDataError` -/
def readCount (bs : Bytes) : R (Int × Bytes) := do
  let (u, r) ← readVarint bs
  if (u : Int) > INT_MAX then .error .invalidData else .ok ((u : Int), r)

/-- Python `a ^ b` on unbounded ints (two's complement with infinite sign extension); `~x = -x-1`. -/
def pyXor (a b : Int) : Int :=
  match decide (0 ≤ a), decide (0 ≤ b) with
  | true, true => ((a.toNat ^^^ b.toNat : Nat) : Int)
  | true, false => -((a.toNat ^^^ (-b - 1).toNat : Nat) : Int) - 1
  | false, true => -(((-a - 1).toNat ^^^ b.toNat : Nat) : Int) - 1
  | false, false => (((-a - 1).toNat ^^^ (-b - 1).toNat : Nat) : Int)

/-- the zig-zag argument `count >> 31 ^ count << 1` (Python precedence: `(count >> 31) ^ (count << 1)`) -/
def zigzag (c : Int) : Int := pyXor (c >>> 31) (c * 2)

/-- `write_signed_count` (no range check in the code; `__write_varint` of a negative value would emit
    `value & 127` only, which cannot happen because `zigzag` is never negative) -/
def writeSignedCount (c : Int) : R Bytes :=
  let z := zigzag c
  if z < 0 then .ok [(z % 128).toNat] else .ok (writeVarint z.toNat)

/-- `read_signed_count`: `(value >> 1) ^ -(value & 1)`; for `value ≥ 0` this is `value/2` when even and
    `~(value/2) = -(value/2) - 1` when odd. No range check. -/
def unzigzag (u : Nat) : Int := if u % 2 = 0 then ((u / 2 : Nat) : Int) else -((u / 2 : Nat) : Int) - 1

def readSignedCount (bs : Bytes) : R (Int × Bytes) := do
  let (u, r) ← readVarint bs
  .ok (unzigzag u, r)

/-! ## fixed-width integers (big-endian) -/

/-- `__write_int16(value)`: two bytes `value >> 8 & 255`, `value & 255` -/
def writeInt16 (v : Int) : Bytes := [((v / 256) % 256).toNat, (v % 256).toNat]
/-- `__write_int32(value)` = `__write_int16(value >> 16)`, `__write_int16(value)` -/
def writeInt32 (v : Int) : Bytes := writeInt16 (v / 65536) ++ writeInt16 v
/-- `__write_int64(value)` = `__write_int32(value >> 32)`, `__write_int32(value)` (silently keeps the low 64 bits) -/
def writeInt64 (v : Int) : Bytes := writeInt32 (v / 4294967296) ++ writeInt32 v

/-- `__read_int16`: `high << 8 | low` -/
def readInt16 (bs : Bytes) : R (Nat × Bytes) := do
  let (h, r) ← readByte bs
  let (l, r) ← readByte r
  .ok (h * 256 + l, r)
/-- `__read_int32`: `(hi16 & 0xffff) << 16 | (lo16 & 0xffff)` -/
def readInt32 (bs : Bytes) : R (Nat × Bytes) := do
  let (h, r) ← readInt16 bs
  let (l, r) ← readInt16 r
  .ok (h % 65536 * 65536 + l % 65536, r)
/-- `__read_int64`: `_int64_overflow((hi32 & 0xffffffff) << 32 | (lo32 & 0xffffffff))` -/
def readInt64 (bs : Bytes) : R (Int × Bytes) := do
  let (h, r) ← readInt32 bs
  let (l, r) ← readInt32 r
  .ok (int64Overflow ((h % 4294967296 * 4294967296 + l % 4294967296 : Nat) : Int), r)

/-! ## milliseconds (four-way compact form) and offsets -/

def MS30MIN : Int := 1800000
def MSMIN : Int := 60000
def MSSEC : Int := 1000

/-- `write_milliseconds`. Forms after adding one day:
    1 byte `0xxxxxxx` = half hours; 2 bytes `100xxxxx` minutes; 3 bytes `101xxxxx` seconds;
    4 bytes `110xxxxx` milliseconds. (`128 | m >> 8` = `128 + m / 256` since `m < 2880`, etc.) -/
def writeMilliseconds (millis : Int) : R Bytes := do
  checkRange millis (-MsPD + 1) (MsPD - 1)
  let m := millis + MsPD
  if csharpMod m MS30MIN = 0 then do
    let units ← pyTdiv m MS30MIN
    writeByte units
  else if csharpMod m MSMIN = 0 then do
    let minutes ← pyTdiv m MSMIN
    let a ← writeByte (128 + minutes / 256)
    let b ← writeByte (minutes % 256)
    .ok (a ++ b)
  else if csharpMod m MSSEC = 0 then do
    let seconds ← pyTdiv m MSSEC
    let a ← writeByte (160 + seconds / 65536)
    .ok (a ++ writeInt16 (seconds % 65536))
  else
    .ok (writeInt32 (3221225472 + m))

/-- `read_milliseconds` (`first & 0x80`, `flag = first & 0xe0`, `first_data = first & 0x1f`) -/
def readMilliseconds (bs : Bytes) : R (Int × Bytes) := do
  let (first, r) ← readByte bs
  if first < 128 then .ok ((first : Int) * MS30MIN - MsPD, r)
  else
    let flag := first / 32
    let firstData := first % 32
    if flag = 4 then do
      let (b, r) ← readByte r
      .ok (((firstData * 256 + b : Nat) : Int) * MSMIN - MsPD, r)
    else if flag = 5 then do
      let (w, r) ← readInt16 r
      .ok (((firstData * 65536 + w % 65536 : Nat) : Int) * MSSEC - MsPD, r)
    else if flag = 6 then do
      let (b, r) ← readByte r
      let (w, r) ← readInt16 r
      .ok (((firstData * 16777216 + b * 65536 + w % 65536 : Nat) : Int) - MsPD, r)
    else .error .invalidData

/-- `write_offset` = `write_milliseconds(offset.milliseconds)` -/
def writeOffset (o : Offset) : R Bytes := writeMilliseconds o.milliseconds

/-- `read_offset` = `Offset.from_milliseconds(read_milliseconds())` (`ValueError` beyond ±18 h;
    a sub-second part is truncated) -/
def readOffset (bs : Bytes) : R (Offset × Bytes) := do
  let (ms, r) ← readMilliseconds bs
  let o ← Offset.fromMilliseconds ms
  .ok (o, r)

/-! ## zone interval transitions -/

/-- `_EPOCH_FOR_MINUTES_SINCE_EPOCH = Instant.from_utc(1800, 1, 1, 0, 0)`: day −62091 -/
def EPOCH1800 : Instant := ⟨⟨-62091, 0⟩⟩
def MARKER_MIN : Int := 0
def MARKER_MAX : Int := 1
def MARKER_RAW : Int := 2
def MIN_HOURS : Int := 128          -- 1 << 7
def MIN_MINUTES : Int := 2097152    -- 1 << 21
def TPMin : Int := 600000000        -- TICKS_PER_MINUTE

inductive TransitionForm where
  | markerMin | markerMax | hours | minutes | raw
  deriving DecidableEq, Repr

/-- the hours-since-previous candidate: `previous` given and not the start-of-time sentinel, the
    tick difference a whole number of hours (INTENDED: quotient, not remainder) within `[2^7, 2^21)` -/
def hoursSincePrevious (previous : Option Instant) (vt : Int) : R (Option Int) :=
  match previous with
  | none => .ok none
  | some p =>
    if p = Instant.beforeMin then .ok none else do
      let pt ← p.toUnixTicks
      if csharpMod (vt - pt) TPH = 0 then do
        let hours ← pyTdiv (vt - pt) TPH
        if MIN_HOURS ≤ hours ∧ hours < MIN_MINUTES then .ok (some hours) else .ok none
      else .ok none

/-- the minutes-since-1800 candidate: not before 1800, whole minutes, within `(2^21, 2^31)` -/
def minutesSinceEpoch (value : Instant) (vt : Int) : R (Option Int) :=
  if Duration.ge value.dur EPOCH1800.dur then do
    let et ← EPOCH1800.toUnixTicks
    if csharpMod (vt - et) TPMin = 0 then do
      let minutes ← pyTdiv (vt - et) TPMin
      if MIN_MINUTES < minutes ∧ minutes ≤ INT_MAX then .ok (some minutes) else .ok none
    else .ok none
  else .ok none

/-- which form `write_zone_interval_transition` chooses, and its payload -/
def transitionForm (previous : Option Instant) (value : Instant) : R (TransitionForm × Int) :=
  if value = Instant.beforeMin then .ok (.markerMin, 0)
  else if value = Instant.afterMax then .ok (.markerMax, 0)
  else do
    let vt ← value.toUnixTicks
    match ← hoursSincePrevious previous vt with
    | some h => .ok (.hours, h)
    | none =>
      match ← minutesSinceEpoch value vt with
      | some m => .ok (.minutes, m)
      | none => .ok (.raw, vt)

/-- `_check_argument(value >= previous, …)` when `previous` is given -/
def checkForward (previous : Option Instant) (value : Instant) : R Unit :=
  match previous with
  | some p => if Duration.ge value.dur p.dur then .ok () else .error .valueError
  | none => .ok ()

/-- `write_zone_interval_transition(previous, value)` -/
def writeTransition (previous : Option Instant) (value : Instant) : R Bytes := do
  checkForward previous value
  let (form, payload) ← transitionForm previous value
  match form with
  | .markerMin => writeCount MARKER_MIN
  | .markerMax => writeCount MARKER_MAX
  | .hours => writeCount payload
  | .minutes => writeCount payload
  | .raw => do
    let m ← writeCount MARKER_RAW
    .ok (m ++ writeInt64 payload)

/-- marker 2: a raw 64-bit tick count (`Instant.from_unix_time_ticks` range-checks: `ValueError`) -/
def readRawTransition (r : Bytes) : R (Instant × Bytes) := do
  let (t, r) ← readInt64 r
  let i ← Instant.fromUnixTicks t
  .ok (i, r)

/-- `previous + Duration.from_hours(value)` (no previous → `InvalidPyodaDataError`; beyond the end of time →
    `OverflowError`) -/
def readHoursTransition (previous : Option Instant) (value : Int) (r : Bytes) : R (Instant × Bytes) :=
  match previous with
  | none => .error .invalidData
  | some p => do
    let d ← Duration.fromHours value
    let i ← p.plus d
    .ok (i, r)

/-- `_EPOCH_FOR_MINUTES_SINCE_EPOCH + Duration.from_minutes(value)` -/
def readMinutesTransition (value : Int) (r : Bytes) : R (Instant × Bytes) := do
  let d ← Duration.fromMinutes value
  let i ← EPOCH1800.plus d
  .ok (i, r)

/-- `read_zone_interval_transition(previous)` after the count has been read -/
def readTransitionBody (previous : Option Instant) (value : Int) (r : Bytes) : R (Instant × Bytes) :=
  if value < MIN_HOURS then
    if value = MARKER_MIN then .ok (Instant.beforeMin, r)
    else if value = MARKER_MAX then .ok (Instant.afterMax, r)
    else if value = MARKER_RAW then readRawTransition r
    else .error .invalidData
  else if value < MIN_MINUTES then readHoursTransition previous value r
  else readMinutesTransition value r

/-- `read_zone_interval_transition(previous)` -/
def readTransition (previous : Option Instant) (bs : Bytes) : R (Instant × Bytes) := do
  let (value, r) ← readCount bs
  readTransitionBody previous value r

/-! ## strings and dictionaries -/

/-- strict UTF-8 validity as enforced by `bytes.decode()` (no overlong forms, no surrogates, ≤ U+10FFFF) -/
def validUtf8 : Bytes → Bool
  | [] => true
  | b0 :: r =>
    if b0 < 0x80 then validUtf8 r
    else if b0 < 0xC2 then false
    else if b0 < 0xE0 then
      match r with
      | b1 :: r => (0x80 ≤ b1 && b1 < 0xC0) && validUtf8 r
      | _ => false
    else if b0 < 0xF0 then
      match r with
      | b1 :: b2 :: r =>
        let lo := if b0 = 0xE0 then 0xA0 else 0x80
        let hi := if b0 = 0xED then 0xA0 else 0xC0
        (lo ≤ b1 && b1 < hi) && (0x80 ≤ b2 && b2 < 0xC0) && validUtf8 r
      | _ => false
    else if b0 < 0xF5 then
      match r with
      | b1 :: b2 :: b3 :: r =>
        let lo := if b0 = 0xF0 then 0x90 else 0x80
        let hi := if b0 = 0xF4 then 0x90 else 0xC0
        (lo ≤ b1 && b1 < hi) && (0x80 ≤ b2 && b2 < 0xC0) && (0x80 ≤ b3 && b3 < 0xC0) && validUtf8 r
      | _ => false
    else false

/-- `len(s)` of the decoded string: number of code points = number of non-continuation bytes -/
def strLen (s : Str) : Nat := (s.filter (fun b => b < 0x80 || b ≥ 0xC0)).length

/-- `list.take` that fails when the list is too short -/
def takeExact : Nat → Bytes → Option (Bytes × Bytes)
  | 0, bs => some ([], bs)
  | _ + 1, [] => none
  | n + 1, b :: bs => match takeExact n bs with
    | some (t, r) => some (b :: t, r)
    | none => none

/-- `write_string` without a pool: count of UTF-8 bytes, then the bytes -/
def writeStringInline (s : Str) : R Bytes := do
  let c ← writeCount s.length
  .ok (c ++ s)

/-- `list.index` -/
def indexOf? (pool : List Str) (s : Str) : Option Nat :=
  let i := pool.findIdx (· = s)
  if i < pool.length then some i else none

/-- `write_string` with a pool: appends unknown strings; returns the bytes and the new pool -/
def writeStringPooled (pool : List Str) (s : Str) : R (Bytes × List Str) :=
  match indexOf? pool s with
  | some i => do let c ← writeCount i; .ok (c, pool)
  | none => do let c ← writeCount pool.length; .ok (c, pool ++ [s])

/-- `write_string` -/
def writeString (pool : Option (List Str)) (s : Str) : R (Bytes × Option (List Str)) :=
  match pool with
  | none => do let b ← writeStringInline s; .ok (b, none)
  | some p => do let (b, p') ← writeStringPooled p s; .ok (b, some p')

/-- `read_string`: inline = count, bytes (end of data → `InvalidPyodaDataError`), strict UTF-8 decode
    (`UnicodeDecodeError`); pooled = index checked against the pool length. -/
def readString (pool : Option (List Str)) (bs : Bytes) : R (Str × Bytes) := do
  let (n, r) ← readCount bs
  match pool with
  | none =>
    match takeExact n.toNat r with
    | none => .error .invalidData
    | some (data, r) => if validUtf8 data then .ok (data, r) else .error .unicodeError
  | some p =>
    match p[n.toNat]? with
    | some s => .ok (s, r)
    | none => .error .invalidData

/-- `n` repetitions of a reader, results in order (the `for _ in range(count)` loops) -/
def readN {α} (f : Bytes → R (α × Bytes)) : Nat → Bytes → R (List α × Bytes)
  | 0, bs => .ok ([], bs)
  | n + 1, bs => do
    let (a, r) ← f bs
    let (as, r) ← readN f n r
    .ok (a :: as, r)

/-- `write_dictionary`: count, then key/value strings in insertion order -/
def writeDictionary (pool : Option (List Str)) (d : List (Str × Str)) : R (Bytes × Option (List Str)) := do
  let c ← writeCount d.length
  let rec go (pool : Option (List Str)) : List (Str × Str) → R (Bytes × Option (List Str))
    | [] => .ok ([], pool)
    | (k, v) :: rest => do
      let (bk, pool) ← writeString pool k
      let (bv, pool) ← writeString pool v
      let (br, pool) ← go pool rest
      .ok (bk ++ bv ++ br, pool)
  let (b, pool) ← go pool d
  .ok (c ++ b, pool)

/-- `read_dictionary`: the entries in stream order (a later duplicate key overwrites: see `dictInsert`) -/
def readDictionaryEntries (pool : Option (List Str)) (bs : Bytes) : R (List (Str × Str) × Bytes) := do
  let (n, r) ← readCount bs
  readN (fun bs => do
    let (k, r) ← readString pool bs
    let (v, r) ← readString pool r
    .ok ((k, v), r)) n.toNat r

/-- Python `d[k] = v` on an insertion-ordered dict -/
def dictInsert (d : List (Str × Str)) (k v : Str) : List (Str × Str) :=
  if d.any (·.1 = k) then d.map (fun e => if e.1 = k then (k, v) else e) else d ++ [(k, v)]

def dictGet? (d : List (Str × Str)) (k : Str) : Option Str := (d.find? (·.1 = k)).map (·.2)

def readDictionary (pool : Option (List Str)) (bs : Bytes) : R (List (Str × Str) × Bytes) := do
  let (es, r) ← readDictionaryEntries pool bs
  .ok (es.foldl (fun d e => dictInsert d e.1 e.2) [], r)

end Pyoda.Codec
