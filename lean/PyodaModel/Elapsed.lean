/-
  PyodaModel.Elapsed — Duration, Instant, _LocalInstant, Offset (integer paths).
  Transcribed from pyoda_time/_duration.py, _instant.py, _local_instant.py, _offset.py,
  utility/_tick_arithmetic.py.  Float-valued members are not modelled.
-/
import PyodaModel.Prelude

namespace Pyoda

structure Duration where
  days : Int
  nod  : Int
  deriving DecidableEq, Repr, Inhabited

namespace Duration

def MAX_DAYS : Int := 1073741823      -- (1 << 30) - 1
def MIN_DAYS : Int := -1073741824     -- ~MAX_DAYS
def MIN_NANOS : Int := MIN_DAYS * NPD
def MAX_NANOS : Int := (MAX_DAYS + 1) * NPD - 1

/-- `Duration._ctor(days=, nano_of_day=)`: validates only `days`. -/
def ctor (days nod : Int) : R Duration :=
  if days < MIN_DAYS ∨ days > MAX_DAYS then .error .valueError else .ok ⟨days, nod⟩

def zero : Duration := ⟨0, 0⟩

/-- value in nanoseconds (`to_nanoseconds`) -/
def toNanos (d : Duration) : Int := d.days * NPD + d.nod

/-- the private `__ctor(units=…)` path of the `from_<unit>` factories for `int` arguments -/
def fromUnits (units minV maxV unitsPerDay nanosPerUnit : Int) : R Duration := do
  checkRange units minV maxV
  let d0 ← pyTdiv units unitsPerDay
  let u0 := units - unitsPerDay * d0
  if u0 < 0 then .ok ⟨d0 - 1, (u0 + unitsPerDay) * nanosPerUnit⟩
  else .ok ⟨d0, u0 * nanosPerUnit⟩

def fromDays (n : Int) : R Duration := ctor n 0
def fromHours (n : Int) : R Duration :=
  fromUnits n (MIN_DAYS * HPD) ((MAX_DAYS + 1) * HPD - 1) HPD NPH
def fromMinutes (n : Int) : R Duration :=
  fromUnits n (MIN_DAYS * MinPD) ((MAX_DAYS + 1) * MinPD - 1) MinPD NPMin
def fromSeconds (n : Int) : R Duration :=
  fromUnits n (MIN_DAYS * SPD) ((MAX_DAYS + 1) * SPD - 1) SPD NPS
def fromMilliseconds (n : Int) : R Duration :=
  fromUnits n (MIN_DAYS * MsPD) ((MAX_DAYS + 1) * MsPD - 1) MsPD NPMs
def fromMicroseconds (n : Int) : R Duration :=
  fromUnits n (MIN_DAYS * UsPD) ((MAX_DAYS + 1) * UsPD - 1) UsPD NPUs

/-- `Duration.from_nanoseconds` for `int` arguments -/
def fromNanoseconds (n : Int) : R Duration := do
  checkRange n MIN_NANOS MAX_NANOS
  if n ≥ 0 then ctor (Int.fdiv n NPD) (Int.fmod n NPD)
  else
    let q ← pyTdiv (n + 1) NPD
    let days := q - 1
    ctor days (n - days * NPD)

/-- `_TickArithmetic.ticks_to_days_and_tick_of_day` (integer floor division for `ticks ≥ 0`). -/
def ticksToDaysAndTickOfDay (ticks : Int) : R (Int × Int) :=
  if ticks ≥ 0 then
    let days := Int.fdiv (ticks >>> 14) 52734375
    .ok (days, ticks - days * TPD)
  else do
    let q ← pyTdiv (ticks + 1) TPD
    let days := q - 1
    .ok (days, ticks - (days + 1) * TPD + TPD)

/-- `Duration.from_ticks` for `int` arguments -/
def fromTicks (ticks : Int) : R Duration := do
  checkRange ticks (MIN_DAYS * TPD) ((MAX_DAYS + 1) * TPD - 1)
  let (d, t) ← ticksToDaysAndTickOfDay ticks
  .ok ⟨d, t * NPT⟩

def add (a b : Duration) : R Duration :=
  let days := a.days + b.days
  let nanos := a.nod + b.nod
  if nanos ≥ NPD then ctor (days + 1) (nanos - NPD) else ctor days nanos

def sub (a b : Duration) : R Duration :=
  let days := a.days - b.days
  let nanos := a.nod - b.nod
  if nanos < 0 then ctor (days - 1) (nanos + NPD) else ctor days nanos

def neg (a : Duration) : R Duration :=
  if a.nod = 0 then ctor (-a.days) 0 else ctor (-a.days - 1) (NPD - a.nod)

/-- `Duration * int` -/
def mulInt (a : Duration) (k : Int) : R Duration := fromNanoseconds (a.toNanos * k)

/-- `Duration / int` -/
def divInt (a : Duration) (k : Int) : R Duration := do
  let q ← pyTdiv a.toNanos k
  fromNanoseconds q

def plusSmallNanos (a : Duration) (s : Int) : R Duration := do
  checkRange s (-NPD) NPD
  let n := a.nod + s
  if n ≥ NPD then ctor (a.days + 1) (n - NPD)
  else if n < 0 then ctor (a.days - 1) (n + NPD)
  else ctor a.days n

def minusSmallNanos (a : Duration) (s : Int) : R Duration :=
  let n := a.nod - s
  if n ≥ NPD then ctor (a.days + 1) (n - NPD)
  else if n < 0 then ctor (a.days - 1) (n + NPD)
  else ctor a.days n

def lt (a b : Duration) : Bool := decide (a.days < b.days) || (decide (a.days = b.days) && decide (a.nod < b.nod))
def gt (a b : Duration) : Bool := decide (a.days > b.days) || (decide (a.days = b.days) && decide (a.nod > b.nod))
def beq (a b : Duration) : Bool := decide (a.days = b.days) && decide (a.nod = b.nod)
def le (a b : Duration) : Bool := lt a b || beq a b
def ge (a b : Duration) : Bool := gt a b || beq a b
/-- `compare_to` -/
def compareTo (a b : Duration) : Int :=
  if a.days - b.days ≠ 0 then a.days - b.days else a.nod - b.nod

/-! accessors -/
def daysAcc (d : Duration) : Int := if d.days ≥ 0 ∨ d.nod = 0 then d.days else d.days + 1
def nanosecondOfDay (d : Duration) : Int :=
  if d.days ≥ 0 then d.nod else if d.nod = 0 then 0 else d.nod - NPD
def hours (d : Duration) : R Int := pyTdiv d.nanosecondOfDay NPH
def minutes (d : Duration) : R Int := do let q ← pyTdiv d.nanosecondOfDay NPMin; .ok (csharpMod q 60)
def seconds (d : Duration) : R Int := do let q ← pyTdiv d.nanosecondOfDay NPS; .ok (csharpMod q 60)
def milliseconds (d : Duration) : R Int := do let q ← pyTdiv d.nanosecondOfDay NPMs; .ok (csharpMod q 1000)
def microseconds (d : Duration) : R Int := do let q ← pyTdiv d.nanosecondOfDay NPUs; .ok (csharpMod q 1000000)
def subsecondTicks (d : Duration) : R Int := do let q ← pyTdiv d.nanosecondOfDay NPT; .ok (csharpMod q TPS)
def subsecondNanoseconds (d : Duration) : Int := csharpMod d.nanosecondOfDay NPS

/-- `_TickArithmetic.days_and_tick_of_day_to_ticks` -/
def daysAndTickOfDayToTicks (days tod : Int) : R Int := do
  let lim ← pyTdiv (-9223372036854775808) TPD
  if days ≥ lim then .ok (days * TPD + tod) else .ok ((days + 1) * TPD + tod - TPD)

def bclCompatibleTicks (d : Duration) : R Int := do
  let t ← pyTdiv d.nod NPT
  let ticks ← daysAndTickOfDayToTicks d.days t
  if d.days < 0 ∧ Int.fmod d.nod NPT ≠ 0 then .ok (ticks + 1) else .ok ticks

end Duration

/-! ## Instant -/

structure Instant where
  dur : Duration
  deriving DecidableEq, Repr, Inhabited

namespace Instant

def MIN_DAYS : Int := -4371222
def MAX_DAYS : Int := 2932896

def beforeMin : Instant := ⟨⟨Duration.MIN_DAYS, 0⟩⟩
def afterMax : Instant := ⟨⟨Duration.MAX_DAYS, 0⟩⟩

def fromUntrusted (d : Duration) : R Instant :=
  if d.days < MIN_DAYS ∨ d.days > MAX_DAYS then .error .overflowError else .ok ⟨d⟩

def isValid (i : Instant) : Bool := decide (MIN_DAYS ≤ i.dur.days) && decide (i.dur.days ≤ MAX_DAYS)

def plus (i : Instant) (d : Duration) : R Instant := do
  let s ← Duration.add i.dur d
  fromUntrusted s

def minusDur (i : Instant) (d : Duration) : R Instant := do
  let s ← Duration.sub i.dur d
  fromUntrusted s

def minus (a b : Instant) : R Duration := Duration.sub a.dur b.dur

def fromUnixTicks (t : Int) : R Instant := do
  checkRange t (MIN_DAYS * TPD) ((MAX_DAYS + 1) * TPD - 1)
  let d ← Duration.fromTicks t
  .ok ⟨d⟩
def fromUnixMilliseconds (t : Int) : R Instant := do
  checkRange t (MIN_DAYS * MsPD) ((MAX_DAYS + 1) * MsPD - 1)
  let d ← Duration.fromMilliseconds t
  .ok ⟨d⟩
def fromUnixSeconds (t : Int) : R Instant := do
  checkRange t (MIN_DAYS * SPD) ((MAX_DAYS + 1) * SPD - 1)
  let d ← Duration.fromSeconds t
  .ok ⟨d⟩

def toUnixTicks (i : Instant) : R Int := do
  let t ← pyTdiv i.dur.nod NPT
  .ok (i.dur.days * TPD + t)
def toUnixSeconds (i : Instant) : R Int := do
  let t ← pyTdiv i.dur.nod NPS
  .ok (i.dur.days * SPD + t)
def toUnixMilliseconds (i : Instant) : R Int := do
  let t ← pyTdiv i.dur.nod NPMs
  .ok (i.dur.days * MsPD + t)

def plusTicks (i : Instant) (t : Int) : R Instant := do
  let d ← Duration.fromTicks t
  plus i d
def plusNanoseconds (i : Instant) (n : Int) : R Instant := do
  let d ← Duration.fromNanoseconds n
  plus i d

end Instant

/-! ## Offset -/

structure Offset where
  seconds : Int
  deriving DecidableEq, Repr, Inhabited

namespace Offset
def MIN_S : Int := -64800
def MAX_S : Int := 64800

def ctor (s : Int) : R Offset := do checkRange s MIN_S MAX_S; .ok ⟨s⟩
def fromSeconds (s : Int) : R Offset := do checkRange s MIN_S MAX_S; ctor s
def fromMilliseconds (ms : Int) : R Offset := do
  checkRange ms (-18 * 3600000) (18 * 3600000); let q ← pyTdiv ms 1000; ctor q
def fromTicks (t : Int) : R Offset := do
  checkRange t (-18 * TPH) (18 * TPH); let q ← pyTdiv t TPS; ctor q
def fromNanoseconds (n : Int) : R Offset := do
  checkRange n (-18 * NPH) (18 * NPH); let q ← pyTdiv n NPS; ctor q
def fromHours (h : Int) : R Offset := do checkRange h (-18) 18; ctor (h * 3600)
def fromHoursAndMinutes (h m : Int) : R Offset := fromSeconds (h * 3600 + m * 60)
def add (a b : Offset) : R Offset := fromSeconds (a.seconds + b.seconds)
def sub (a b : Offset) : R Offset := fromSeconds (a.seconds - b.seconds)
def neg (a : Offset) : R Offset := ctor (-a.seconds)
def nanoseconds (a : Offset) : Int := a.seconds * NPS
def milliseconds (a : Offset) : Int := a.seconds * 1000
def ticks (a : Offset) : Int := a.seconds * TPS
def compareTo (a b : Offset) : Int := a.seconds - b.seconds
end Offset

/-! ## _LocalInstant and the safe conversions -/

structure LocalInstant where
  dur : Duration
  deriving DecidableEq, Repr, Inhabited

namespace LocalInstant
def beforeMin : LocalInstant := ⟨⟨Duration.MIN_DAYS, 0⟩⟩
def afterMax : LocalInstant := ⟨⟨Duration.MAX_DAYS, 0⟩⟩

/-- `_LocalInstant._ctor(nanoseconds=duration)` -/
def ofDuration (d : Duration) : R LocalInstant :=
  if d.days < Instant.MIN_DAYS ∨ d.days > Instant.MAX_DAYS then .error .overflowError else .ok ⟨d⟩

/-- `_LocalInstant._minus(offset)` -/
def minus (l : LocalInstant) (o : Offset) : R Instant := do
  let d ← Duration.minusSmallNanos l.dur o.nanoseconds
  Instant.fromUntrusted d

/-- `_LocalInstant._safe_minus(offset)` -/
def safeMinus (l : LocalInstant) (o : Offset) : R Instant :=
  let days := l.dur.days
  if Instant.MIN_DAYS < days ∧ days < Instant.MAX_DAYS then minus l o
  else if days < Instant.MIN_DAYS then .ok Instant.beforeMin
  else if days > Instant.MAX_DAYS then .ok Instant.afterMax
  else do
    let d ← Duration.minusSmallNanos l.dur o.nanoseconds
    if d.days < Instant.MIN_DAYS then .ok Instant.beforeMin
    else if d.days > Instant.MAX_DAYS then .ok Instant.afterMax
    else .ok ⟨d⟩
end LocalInstant

namespace Instant
/-- `Instant._plus(offset)` -/
def plusOffset (i : Instant) (o : Offset) : R LocalInstant := do
  let d ← Duration.plusSmallNanos i.dur o.nanoseconds
  LocalInstant.ofDuration d

/-- `Instant._safe_plus(offset)` -/
def safePlus (i : Instant) (o : Offset) : R LocalInstant :=
  let days := i.dur.days
  if MIN_DAYS < days ∧ days < MAX_DAYS then plusOffset i o
  else if days < MIN_DAYS then .ok LocalInstant.beforeMin
  else if days > MAX_DAYS then .ok LocalInstant.afterMax
  else do
    let d ← Duration.plusSmallNanos i.dur o.nanoseconds
    if d.days < MIN_DAYS then .ok LocalInstant.beforeMin
    else if d.days > MAX_DAYS then .ok LocalInstant.afterMax
    else .ok ⟨d⟩
end Instant

/-! ## line protocol -/

namespace Elapsed

def showDur : R Duration → String := showR (fun d => showInts [d.days, d.nod])
def showInst : R Instant → String := showR (fun i => showInts [i.dur.days, i.dur.nod])
def showLI : R LocalInstant → String := showR (fun i => showInts [i.dur.days, i.dur.nod])
def showOff : R Offset → String := showR (fun o => toString o.seconds)
def showI : R Int → String := showR toString

def durFrom (unit : String) (n : Int) : Option (R Duration) :=
  match unit with
  | "days" => some (Duration.fromDays n)
  | "hours" => some (Duration.fromHours n)
  | "minutes" => some (Duration.fromMinutes n)
  | "seconds" => some (Duration.fromSeconds n)
  | "milliseconds" => some (Duration.fromMilliseconds n)
  | "microseconds" => some (Duration.fromMicroseconds n)
  | "ticks" => some (Duration.fromTicks n)
  | "nanoseconds" => some (Duration.fromNanoseconds n)
  | _ => none

def durAcc (d : Duration) : String :=
  " ".intercalate [toString d.daysAcc, toString d.nanosecondOfDay, showI d.hours, showI d.minutes,
    showI d.seconds, showI d.milliseconds, showI d.microseconds, showI d.subsecondTicks,
    toString d.subsecondNanoseconds, showI d.bclCompatibleTicks, toString d.toNanos]

def handle (toks : List String) : Option String :=
  match toks with
  | ["tdiv", x, y] => do let x ← parseInt? x; let y ← parseInt? y; some (showI (pyTdiv x y))
  | ["cmod", x, y] => do let x ← parseInt? x; let y ← parseInt? y; some (toString (csharpMod x y))
  | ["i32", x] => do let x ← parseInt? x; some (toString (int32Overflow x))
  | ["i64", x] => do let x ← parseInt? x; some (toString (int64Overflow x))
  | ["dur.from", u, n] => do let n ← parseInt? n; let r ← durFrom u n; some (showDur r)
  | ["dur.add", a, b, c, d] => do
      let l ← parseInts? [a, b, c, d]
      match l with | [a, b, c, d] => some (showDur (Duration.add ⟨a, b⟩ ⟨c, d⟩)) | _ => none
  | ["dur.sub", a, b, c, d] => do
      let l ← parseInts? [a, b, c, d]
      match l with | [a, b, c, d] => some (showDur (Duration.sub ⟨a, b⟩ ⟨c, d⟩)) | _ => none
  | ["dur.neg", a, b] => do
      let l ← parseInts? [a, b]
      match l with | [a, b] => some (showDur (Duration.neg ⟨a, b⟩)) | _ => none
  | ["dur.mul", a, b, k] => do
      let l ← parseInts? [a, b, k]
      match l with | [a, b, k] => some (showDur (Duration.mulInt ⟨a, b⟩ k)) | _ => none
  | ["dur.div", a, b, k] => do
      let l ← parseInts? [a, b, k]
      match l with | [a, b, k] => some (showDur (Duration.divInt ⟨a, b⟩ k)) | _ => none
  | ["dur.cmp", a, b, c, d] => do
      let l ← parseInts? [a, b, c, d]
      match l with
      | [a, b, c, d] =>
        let x : Duration := ⟨a, b⟩; let y : Duration := ⟨c, d⟩
        let s := Duration.compareTo x y
        some (" ".intercalate [showBool (Duration.beq x y), showBool (Duration.lt x y), showBool (Duration.le x y),
          showBool (Duration.gt x y), showBool (Duration.ge x y), toString (if s < 0 then (-1 : Int) else if s > 0 then 1 else 0)])
      | _ => none
  | ["dur.acc", a, b] => do
      let l ← parseInts? [a, b]
      match l with | [a, b] => some (durAcc ⟨a, b⟩) | _ => none
  | ["dur.small", a, b, s] => do
      let l ← parseInts? [a, b, s]
      match l with
      | [a, b, s] => some (showDur (Duration.plusSmallNanos ⟨a, b⟩ s) ++ " | " ++ showDur (Duration.minusSmallNanos ⟨a, b⟩ s))
      | _ => none
  | ["inst.fromunix", u, n] => do
      let n ← parseInt? n
      match u with
      | "ticks" => some (showInst (Instant.fromUnixTicks n))
      | "milliseconds" => some (showInst (Instant.fromUnixMilliseconds n))
      | "seconds" => some (showInst (Instant.fromUnixSeconds n))
      | _ => none
  | ["inst.tounix", a, b] => do
      let l ← parseInts? [a, b]
      match l with
      | [a, b] =>
        let i : Instant := ⟨⟨a, b⟩⟩
        some (" ".intercalate [showI i.toUnixSeconds, showI i.toUnixMilliseconds, showI i.toUnixTicks])
      | _ => none
  | ["inst.plus", a, b, c, d] => do
      let l ← parseInts? [a, b, c, d]
      match l with | [a, b, c, d] => some (showInst (Instant.plus ⟨⟨a, b⟩⟩ ⟨c, d⟩)) | _ => none
  | ["inst.minusdur", a, b, c, d] => do
      let l ← parseInts? [a, b, c, d]
      match l with | [a, b, c, d] => some (showInst (Instant.minusDur ⟨⟨a, b⟩⟩ ⟨c, d⟩)) | _ => none
  | ["inst.minus", a, b, c, d] => do
      let l ← parseInts? [a, b, c, d]
      match l with | [a, b, c, d] => some (showDur (Instant.minus ⟨⟨a, b⟩⟩ ⟨⟨c, d⟩⟩)) | _ => none
  | ["inst.plusticks", a, b, t] => do
      let l ← parseInts? [a, b, t]
      match l with | [a, b, t] => some (showInst (Instant.plusTicks ⟨⟨a, b⟩⟩ t)) | _ => none
  | ["inst.plusnanos", a, b, t] => do
      let l ← parseInts? [a, b, t]
      match l with | [a, b, t] => some (showInst (Instant.plusNanoseconds ⟨⟨a, b⟩⟩ t)) | _ => none
  | ["inst.safeplus", a, b, o] => do
      let l ← parseInts? [a, b, o]
      match l with | [a, b, o] => some (showLI (Instant.safePlus ⟨⟨a, b⟩⟩ ⟨o⟩)) | _ => none
  | ["linst.safeminus", a, b, o] => do
      let l ← parseInts? [a, b, o]
      match l with | [a, b, o] => some (showInst (LocalInstant.safeMinus ⟨⟨a, b⟩⟩ ⟨o⟩)) | _ => none
  | ["off.from", u, n] => do
      let n ← parseInt? n
      match u with
      | "seconds" => some (showOff (Offset.fromSeconds n))
      | "milliseconds" => some (showOff (Offset.fromMilliseconds n))
      | "ticks" => some (showOff (Offset.fromTicks n))
      | "nanoseconds" => some (showOff (Offset.fromNanoseconds n))
      | "hours" => some (showOff (Offset.fromHours n))
      | _ => none
  | ["off.hm", h, m] => do
      let l ← parseInts? [h, m]
      match l with | [h, m] => some (showOff (Offset.fromHoursAndMinutes h m)) | _ => none
  | ["off.add", a, b] => do
      let l ← parseInts? [a, b]
      match l with | [a, b] => some (showOff (Offset.add ⟨a⟩ ⟨b⟩)) | _ => none
  | ["off.sub", a, b] => do
      let l ← parseInts? [a, b]
      match l with | [a, b] => some (showOff (Offset.sub ⟨a⟩ ⟨b⟩)) | _ => none
  | ["off.neg", a] => do let a ← parseInt? a; some (showOff (Offset.neg ⟨a⟩))
  | _ => none

end Elapsed
end Pyoda
