/-
  PyodaModel.SourceBridge — protocol ops over the WHOLE decoded database file (C06): the payloads of fields 4, 6, 7,
  the version strings, the derived Windows maps and `validate()`, for the files loaded with `file.load` and for
  byte-level edits of them (`src.mut`).  Everything else is delegated to `Bridge6.step` (zones, ids, fixed ids).

  Rendering: strings as hex, lists in file order where the code's order is the file's (map zones, tzdb ids of a map
  zone, locations, countries of a 1970 location), dict-valued results sorted by key.
-/
import PyodaModel.ZoneBridge
import PyodaModel.Codec.Validate

namespace Pyoda.Bridge6X
open Pyoda Pyoda.Codec

structure St where
  reg : Zone.Registry := ∅
  /-- raw bytes and decoded source of every successfully loaded file, by prefix -/
  files : List (String × Bytes × SourceData) := []
  /-- the most recent edited file (prefix, edit tokens) with its length, checksum and decoding: the ops about one
      edited file follow each other -/
  last : Option (String × List String × Nat × Nat × R SourceData) := none

def St.file? (st : St) (pfx : String) : Option (Bytes × SourceData) := (st.files.find? (·.1 = pfx)).map (·.2)

def showPairs (l : List (Str × Str)) : String :=
  toString l.length ++ String.join (l.map (fun e => " " ++ showHex e.1 ++ " " ++ showHex e.2))

def showOptLen {α} : Option (List α) → String
  | none => "-"
  | some l => toString l.length

def showInfo (s : SourceData) : String :=
  " ".intercalate ["ok", showHex s.versionId, showHex s.tzdbVersion, showHex s.windows.version,
    showHex s.windows.tzdbVersion, showHex s.windows.windowsVersion, toString s.windows.mapZones.length,
    toString (primaryMapping s.windows.mapZones).length, showOptLen s.locations, showOptLen s.locations1970]

def showMapZone (z : MapZone) : String :=
  " ".intercalate ([showHex z.windowsId, showHex z.territory, toString z.tzdbIds.length] ++ z.tzdbIds.map showHex)

def showLoc (l : ZoneLocation) : String :=
  " ".intercalate [toString l.latSeconds, toString l.longSeconds, showHex l.countryName, showHex l.countryCode,
    showHex l.zoneId, showHex l.comment]

def showLoc70 (l : Zone1970Location) : String :=
  " ".intercalate ([toString l.latSeconds, toString l.longSeconds, toString l.countries.length] ++
    l.countries.flatMap (fun c => [showHex c.name, showHex c.code]) ++ [showHex l.zoneId, showHex l.comment])

/-- what one `src.<what>` op answers about a decoded source -/
def answer (s : SourceData) (what : String) (arg : Option Nat) : Option String :=
  match what, arg with
  | "info", none => some (showInfo s)
  | "mapzone", some i => some (match s.windows.mapZones[i]? with | some z => showMapZone z | none => "none")
  | "primary", none => some (showPairs (sortByKey (primaryMapping s.windows.mapZones)))
  | "loc", some i =>
    some (match s.locations with
      | none => "absent"
      | some l => match l[i]? with | some x => showLoc x | none => "none")
  | "loc70", some i =>
    some (match s.locations1970 with
      | none => "absent"
      | some l => match l[i]? with | some x => showLoc70 x | none => "none")
  | "t2w", none => some (showPairs (sortByKey (tzdbToWindows s.stream.idMap s.windows.mapZones)))
  | "w2t", none => some (showR (fun l => showPairs (sortByKey l)) (windowsToTzdb s.stream.idMap s.windows.mapZones))
  | "valid", none => some (toString (firstFailure s.view))
  | _, _ => none

/-- replace `del` bytes at `off` by `ins` (an edit beyond the end appends) -/
def splice (bs : Bytes) (off del : Nat) (ins : Bytes) : Bytes := bs.take off ++ ins ++ bs.drop (off + del)

/-- edits `off del hex` …, applied one after the other to the current bytes -/
def applyEdits (bs : Bytes) : List String → Option Bytes
  | [] => some bs
  | off :: del :: h :: rest => do
    let off ← off.toNat?
    let del ← del.toNat?
    let ins ← parseHex? h
    applyEdits (splice bs off del ins) rest
  | _ => none

/-- Adler-32 of the edited bytes: lets the harness confirm that both sides decoded the same bytes -/
def adler32 (bs : Bytes) : Nat :=
  let (a, b) := bs.foldl (fun (ab : Nat × Nat) x => let a := (ab.1 + x % 256) % 65521; (a, (ab.2 + a) % 65521)) (1, 0)
  b * 65536 + a

def parseArg? : List String → Option (Option Nat)
  | [] => some none
  | [i] => i.toNat?.map some
  | _ => none

def step (st : St) (toks : List String) : Option (St × String) :=
  match toks with
  | ["file.load", pfx, h] => do
    let (reg', reply) ← Bridge6.step st.reg toks
    let bytes ← parseHex? h
    let files' := match fromStreamX bytes with
      | .ok s => (pfx, bytes, s) :: st.files.filter (·.1 ≠ pfx)
      | .error _ => st.files.filter (·.1 ≠ pfx)
    some ({ st with reg := reg', files := files' }, reply)
  | op :: pfx :: rest =>
    if op.startsWith "mut." then
      -- `mut.<what> <pfx> <arg or -> <n edits> (off del hex)*`
      let what := (op.drop 4).toString
      match rest with
      | a :: n :: edits => do
        let arg ← if a = "-" then some none else a.toNat?.map some
        let n ← n.toNat?
        if edits.length ≠ 3 * n then none
        match st.file? pfx with
        | none => some (st, "!notLoaded")
        | some (bytes, _) => do
          let (len, sum, dec) ← match st.last with
            | some (p, e, len, sum, dec) =>
              if p = pfx ∧ e = edits then some (len, sum, dec)
              else do let bs ← applyEdits bytes edits; some (bs.length, adler32 bs, fromStreamX bs)
            | none => do let bs ← applyEdits bytes edits; some (bs.length, adler32 bs, fromStreamX bs)
          let st := { st with last := some (pfx, edits, len, sum, dec) }
          let head := s!"{len} {sum} "
          match dec with
          | .error e => some (st, head ++ "!" ++ e.name)
          | .ok s => do
            let r ← answer s what arg
            some (st, head ++ r)
      | _ => none
    else if op.startsWith "src." then do
      -- `src.<what> <pfx> [index]`
      let what := (op.drop 4).toString
      let arg ← parseArg? rest
      match st.file? pfx with
      | none => some (st, "!notLoaded")
      | some (_, s) => do
        let r ← answer s what arg
        some (st, r)
    else do
      let (reg', reply) ← Bridge6.step st.reg toks
      some ({ st with reg := reg' }, reply)
  | _ => do
    let (reg', reply) ← Bridge6.step st.reg toks
    some ({ st with reg := reg' }, reply)

end Pyoda.Bridge6X
