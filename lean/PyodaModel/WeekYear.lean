/- PyodaModel.WeekYear — placeholder until the area is modelled. -/
import PyodaModel.Prelude

namespace Pyoda.WeekYear

def handle (_toks : List String) : Option String := none

end Pyoda.WeekYear
