/-
  PyodaModel.WeekYear — week-year rules and weekday navigation.
  Transcribed from pyoda_time/calendars/_simple_week_year_rule.py, _week_year_rules.py and the weekday
  operations of pyoda_time/_local_date.py / _date_adjusters.py.

  A calendar enters only through its year table: `start y` (day number of the first day of year y),
  `len y` (days in year y), the year range and the day range.  The driver receives the table entries it
  needs with every op (the harness reads them from the code), the theorems quantify over all tables.
-/
import PyodaModel.Prelude

namespace Pyoda.WeekYear

structure Cal where
  start : Int → Int
  len : Int → Int
  minYear : Int
  maxYear : Int
  minDays : Int
  maxDays : Int

structure Rule where
  minDaysInFirstWeek : Int
  firstDayOfWeek : Int       -- 1 = Monday … 7 = Sunday
  irregular : Bool
  deriving DecidableEq, Repr, Inhabited

/-- ISO day of week of a day number, as `CalendarSystem._get_day_of_week` computes it -/
def dayOfWeek (days : Int) : Int :=
  if days ≥ -3 then 1 + csharpMod (days + 3) 7 else 7 + csharpMod (days + 4) 7

/-- `__get_week_year_days_since_epoch` -/
def weekYearStart (r : Rule) (c : Cal) (wy : Int) : Int :=
  let s := c.start wy
  let dow := if s ≥ -3 then 1 + (s + 3) % 7 else 7 + (s + 4) % 7
  let daysIntoWeek := (dow - r.firstDayOfWeek + 7) % 7
  let startOfWeek := s - daysIntoWeek
  if 7 - daysIntoWeek ≥ r.minDaysInFirstWeek then startOfWeek else startOfWeek + 7

/-- `__validate_week_year` -/
def validateWeekYear (r : Rule) (c : Cal) (wy : Int) : R Unit :=
  if c.minYear < wy ∧ wy < c.maxYear then .ok ()
  else
    let minCalDays := weekYearStart r c c.minYear
    let minWy := if minCalDays > c.minDays then c.minYear - 1 else c.minYear
    let maxCalDays := weekYearStart r c (c.maxYear + 1)
    let maxWy := if r.irregular ∨ maxCalDays > c.maxDays then c.maxYear else c.maxYear + 1
    checkRange wy minWy maxWy

/-- `get_weeks_in_week_year` (without the validation step) -/
def weeksIn (r : Rule) (c : Cal) (wy : Int) : Int :=
  let ws := weekYearStart r c wy
  let extraStart := c.start wy - ws
  let extraEnd := if r.irregular then 6 else r.minDaysInFirstWeek - 1
  Int.tdiv (c.len wy + extraStart + extraEnd) 7

def weeksInChecked (r : Rule) (c : Cal) (wy : Int) : R Int := do
  validateWeekYear r c wy
  .ok (weeksIn r c wy)

/-- `get_week_year` for a date given by its calendar year and day number -/
def weekYear (r : Rule) (c : Cal) (calYear days : Int) : Int :=
  let ws := weekYearStart r c calYear
  if days < ws then calYear - 1
  else if r.irregular then calYear
  else
    let next := ws + weeksIn r c calYear * 7
    if days < next then calYear else calYear + 1

/-- `get_week_of_week_year` -/
def weekOf (r : Rule) (c : Cal) (calYear days : Int) : Int :=
  let wy := weekYear r c calYear days
  let ws := weekYearStart r c wy
  Int.tdiv (days - ws) 7 + 1

/-- `get_local_date` → day number of the result; `yearOf` gives the calendar year of a day number
    (needed by the irregular-rule check only) -/
def localDate (r : Rule) (c : Cal) (yearOf : Int → Int) (wy week dow : Int) : R Int := do
  validateWeekYear r c wy
  checkRange dow 1 7
  let maxWeeks := weeksIn r c wy
  if week < 1 ∨ week > maxWeeks then .error .valueError else
  let ws := weekYearStart r c wy
  let daysIntoWeek := (dow - r.firstDayOfWeek + 7) % 7
  let days := ws + (week - 1) * 7 + daysIntoWeek
  if days < c.minDays ∨ days > c.maxDays then .error .valueError else
  let retYear := yearOf days
  if r.irregular ∧ wy ≠ retYear then
    if weekYear r c retYear days ≠ wy then .error .valueError else .ok days
  else .ok days

/-! ## CPython's `date.isocalendar()` (Lib/_pydatetime.py), over the same year table; ordinals = day number + 719163 -/

/-- `_isoweek1monday(year)` as an ordinal -/
def pyIsoWeek1Monday (c : Cal) (year : Int) : Int :=
  let firstday := c.start year + 719163
  let firstweekday := (firstday + 6) % 7
  let w1 := firstday - firstweekday
  if firstweekday > 3 then w1 + 7 else w1

/-- `date.isocalendar()` for the date with calendar year `year` and day number `days` → (year, week, weekday) -/
def pyIsocalendar (c : Cal) (year days : Int) : Int × Int × Int :=
  let today := days + 719163
  let w1 := pyIsoWeek1Monday c year
  let week := (today - w1) / 7          -- Python divmod: floor
  let day := (today - w1) % 7
  if week < 0 then
    let w1' := pyIsoWeek1Monday c (year - 1)
    (year - 1, (today - w1') / 7 + 1, (today - w1') % 7 + 1)
  else if week ≥ 52 ∧ today ≥ pyIsoWeek1Monday c (year + 1) then (year + 1, 1, day + 1)
  else (year, week + 1, day + 1)

/-! ## weekday navigation on day numbers (`LocalDate.next/previous`, `DateAdjusters.*_or_same`) -/

/-- difference added by `LocalDate.next(target)` -/
def nextDiff (days target : Int) : Int :=
  let d := target - dayOfWeek days
  if d ≤ 0 then d + 7 else d

def prevDiff (days target : Int) : Int :=
  let d := target - dayOfWeek days
  if d ≥ 0 then d - 7 else d

def nextOrSameDiff (days target : Int) : Int := if dayOfWeek days = target then 0 else nextDiff days target
def prevOrSameDiff (days target : Int) : Int := if dayOfWeek days = target then 0 else prevDiff days target

/-- `DateAdjusters.next / previous / next_or_same / previous_or_same (day_of_week)` and `LocalDate.next / previous`
    validate the requested day of week before anything else -/
def adjusterFactory (target : Int) : R Unit := checkRange target 1 7

/-- `LocalDate.from_year_month_week_and_day` on the first-of-month day number and the month length → day of month -/
def nthWeekdayOfMonth (firstOfMonthDays daysInMonth occurrence dow : Int) : R Int := do
  checkRange occurrence 1 5
  checkRange dow 1 7
  let w1 := dow - dayOfWeek firstOfMonthDays + 1
  let w1 := if w1 ≤ 0 then w1 + 7 else w1
  let target := w1 + (occurrence - 1) * 7
  if target > daysInMonth then .ok (target - 7) else .ok target

/-! ## line protocol -/

/-- table entries `y start len` repeated; anything outside the table is reported (never defaulted) -/
structure Table where
  rows : List (Int × Int × Int)

def Table.find (t : Table) (y : Int) : Option (Int × Int) :=
  (t.rows.find? (fun r => r.1 == y)).map (fun r => (r.2.1, r.2.2))

def Table.covers (t : Table) (ys : List Int) : Bool := ys.all (fun y => (t.find y).isSome)

def Table.cal (t : Table) (minY maxY minD maxD : Int) : Cal :=
  { start := fun y => match t.find y with | some (s, _) => s | none => 0
    len := fun y => match t.find y with | some (_, l) => l | none => 0
    minYear := minY, maxYear := maxY, minDays := minD, maxDays := maxD }

def Table.yearOf (t : Table) (d : Int) : Option Int :=
  (t.rows.find? (fun r => decide (r.2.1 ≤ d) && decide (d < r.2.1 + r.2.2))).map (·.1)

def parseRows : List Int → Option (List (Int × Int × Int))
  | [] => some []
  | y :: s :: l :: rest => do let r ← parseRows rest; some ((y, s, l) :: r)
  | _ => none

/-- common prefix of the `wy.*` ops: `md fdow irr minY maxY minD maxD nrows (y s l)*` -/
def parseCtx (toks : List String) : Option (Rule × Table × Cal × List Int) := do
  let ints ← parseInts? toks
  match ints with
  | md :: fd :: irr :: minY :: maxY :: minD :: maxD :: n :: rest =>
    let k := n.toNat * 3
    if rest.length < k then none else
    let rows ← parseRows (rest.take k)
    let t : Table := ⟨rows⟩
    some (⟨md, fd, irr ≠ 0⟩, t, t.cal minY maxY minD maxD, rest.drop k)
  | _ => none

def needYears (_r : Rule) (c : Cal) (ys : List Int) : List Int :=
  ys ++ (if ys.all (fun y => decide (c.minYear < y) && decide (y < c.maxYear)) then [] else [c.minYear, c.maxYear + 1])

def handle (toks : List String) : Option String :=
  match toks with
  | "wy.of" :: rest => do
    -- … calYear days → weekYear week dayOfWeek
    let (r, t, c, args) ← parseCtx rest
    match args with
    | [cy, d] =>
      if !(t.covers [cy - 1, cy, cy + 1]) then none else
      let wy := weekYear r c cy d
      if !(t.covers [wy]) then none else
      some (showInts [wy, weekOf r c cy d, dayOfWeek d])
    | _ => none
  | "wy.pyiso" :: rest => do
    -- CPython model: … calYear days → isoYear isoWeek isoWeekday
    let (_, t, c, args) ← parseCtx rest
    match args with
    | [cy, d] =>
      if !(t.covers [cy - 1, cy, cy + 1]) then none else
      let (y, w, wd) := pyIsocalendar c cy d
      some (showInts [y, w, wd])
    | _ => none
  | "wy.rt" :: rest => do
    -- round trip of one date: … calYear days → weekYear week dayOfWeek, then get_weeks_in_week_year(weekYear) and
    -- get_local_date(weekYear, week, dayOfWeek) with their validation (week-years minYear-1 / maxYear+1 are accepted
    -- when they overlap the calendar's day range)
    let (r, t, c, args) ← parseCtx rest
    match args with
    | [cy, d] =>
      if !(t.covers [cy - 1, cy, cy + 1]) then none else
      let wy := weekYear r c cy d
      if !(t.covers (needYears r c [wy])) then none else
      let w := weekOf r c cy d
      let yo := fun d => match t.yearOf d with | some y => y | none => wy
      some (" ".intercalate [toString wy, toString w, toString (dayOfWeek d), showR toString (weeksInChecked r c wy),
        showR toString (localDate r c yo wy w (dayOfWeek d))])
    | _ => none
  | "wy.sw" :: rest => do
    -- sweep: … d0 k → (weekYear week dayOfWeek) for the k consecutive days from d0; the calendar year of each day
    -- is looked up in the supplied rows
    let (r, t, c, args) ← parseCtx rest
    match args with
    | [d0, k] =>
      let ds : List Int := (List.range k.toNat).map (fun (i : Nat) => d0 + Int.ofNat i)
      let one := fun (d : Int) => do
        let cy ← t.yearOf d
        if !(t.covers [cy - 1, cy, cy + 1]) then none else
        let wy := weekYear r c cy d
        if !(t.covers [wy]) then none else
        some [wy, weekOf r c cy d, dayOfWeek d]
      match ds.mapM one with
      | some ls => some (showInts ls.flatten)
      | none => some "!dom"
    | _ => none
  | "wy.weeks" :: rest => do
    let (r, t, c, args) ← parseCtx rest
    match args with
    | [wy] =>
      if !(t.covers (needYears r c [wy])) then none else
      some (showR toString (weeksInChecked r c wy))
    | _ => none
  | "wy.date" :: rest => do
    let (r, t, c, args) ← parseCtx rest
    match args with
    | [wy, w, dow] =>
      if !(t.covers (needYears r c [wy])) then none else
      let yo := fun d => match t.yearOf d with | some y => y | none => wy
      match localDate r c yo wy w dow with
      | .ok d => if (t.yearOf d).isNone then some "!dom" else some (toString d)
      | .error e => some ("!" ++ e.name)
    | _ => none
  | ["wd.nav", d, target] => do
    let d ← parseInt? d; let tg ← parseInt? target
    if tg < 1 ∨ tg > 7 then some "!valueError" else
    some (showInts [dayOfWeek d, nextDiff d tg, prevDiff d tg, nextOrSameDiff d tg, prevOrSameDiff d tg])
  | ["wd.nav", d, target, minD, maxD] => do
    -- with the calendar's day range: a result outside it is an overflow (`plus_days` raises).
    -- Fields: day of week; LocalDate.next, LocalDate.previous, DateAdjusters.next_or_same, .previous_or_same,
    -- DateAdjusters.next, DateAdjusters.previous.  A target outside Monday…Sunday is refused by every one of the six
    -- (`LocalDate.next/previous` and the four adjuster factories all validate it first).
    let d ← parseInt? d; let tg ← parseInt? target; let lo ← parseInt? minD; let hi ← parseInt? maxD
    let sh := fun (k : Int) =>
      match adjusterFactory tg with
      | .error e => "!" ++ e.name
      | .ok () => if d + k < lo ∨ d + k > hi then "!range" else toString k
    some (" ".intercalate [toString (dayOfWeek d), sh (nextDiff d tg), sh (prevDiff d tg), sh (nextOrSameDiff d tg),
      sh (prevOrSameDiff d tg), sh (nextDiff d tg), sh (prevDiff d tg)])
  | ["wd.nth", f, dim, occ, dow] => do
    let l ← parseInts? [f, dim, occ, dow]
    match l with
    | [f, dim, occ, dow] => some (showR toString (nthWeekdayOfMonth f dim occ dow))
    | _ => none
  | _ => none

end Pyoda.WeekYear
