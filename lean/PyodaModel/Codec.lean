/-
  PyodaModel.Codec — model of the tz database binary codec and stream container; protocol handler.

  Text forms used on the line protocol (no spaces inside a token):
    bytes / strings  lower-case hex, `-` = empty
    instant          `days:nano`            optional instant: `-` = None
    pool             `-` = None, `[]` = empty list, else `s1,s2,…` with `~` for the empty string
    year offset      `mode:month:dom:dow:advance:nanoOfDay:addDay`
    recurrence       `name,savingsSeconds,<yearoffset>,from,to`
    alternating map  `stdOffset;<recurrence std>;<recurrence dst>`
    interval         `name,start,end,wall,savings`
    zone             `F|id|offset|name`   or   `P|id|iv|iv|…|T|<map or ->`
-/
import PyodaModel.Codec.Prim
import PyodaModel.Codec.Zone
import PyodaModel.Codec.Tail
import PyodaModel.Codec.Stream
import PyodaModel.Codec.Canonical

namespace Pyoda.Codec

/-! ## printing -/

def showStr (s : Str) : String := showHex s
def showInstant (i : Instant) : String := s!"{i.dur.days}:{i.dur.nod}"
def showOptInstant : Option Instant → String
  | none => "-" | some i => showInstant i
def showPoolStr (s : Str) : String := if s.isEmpty then "~" else showHex s
def showPool : Pool → String
  | none => "-"
  | some [] => "[]"
  | some l => ",".intercalate (l.map showPoolStr)
def showYO (y : ZoneYearOffset) : String :=
  ":".intercalate [toString y.mode.toNat, toString y.monthOfYear, toString y.dayOfMonth, toString y.dayOfWeek,
    showBool y.advance, toString y.timeOfDay, showBool y.addDay]
def showRec (z : ZoneRecurrence) : String :=
  ",".intercalate [showStr z.name, toString z.savings.seconds, showYO z.yearOffset, toString z.fromYear, toString z.toYear]
def showMap (m : AlternatingMap) : String :=
  ";".intercalate [toString m.standardOffset.seconds, showRec m.standardRecurrence, showRec m.dstRecurrence]
def showInterval (p : ZoneInterval) : String :=
  ",".intercalate [showStr p.name, showInstant p.rawStart, showInstant p.rawEnd, toString p.wall.seconds, toString p.savings.seconds]
def showZone : ZoneValue → String
  | .fixed z => "|".intercalate ["F", showStr z.id, toString z.offset.seconds, showStr z.name]
  | .precalculated z =>
    "|".intercalate (["P", showStr z.id] ++ z.periods.map showInterval ++ ["T", match z.tailZone with | none => "-" | some m => showMap m])

def withRest {α} (f : α → String) : R (α × Bytes) → String :=
  showR (fun (a, r) => f a ++ " " ++ toString r.length)
def withPool : R (Bytes × Pool) → String :=
  showR (fun (b, p) => showHex b ++ " " ++ showPool p)

/-! ## parsing -/

def parseBool? (s : String) : Option Bool := if s = "1" then some true else if s = "0" then some false else none
def parseInstant? (s : String) : Option Instant :=
  match s.splitOn ":" with
  | [d, n] => do let d ← parseInt? d; let n ← parseInt? n; some ⟨⟨d, n⟩⟩
  | _ => none
def parseOptInstant? (s : String) : Option (Option Instant) :=
  if s = "-" then some none else (parseInstant? s).map some
def parsePoolStr? (s : String) : Option Str := if s = "~" then some [] else parseHex? s
def parsePool? (s : String) : Option Pool :=
  if s = "-" then some none else if s = "[]" then some (some [])
  else ((s.splitOn ",").mapM parsePoolStr?).map some
def parseYO? (s : String) : Option ZoneYearOffset :=
  match s.splitOn ":" with
  | [mo, m, d, w, a, t, ad] => do
    let mo ← parseInt? mo; let mode ← TransitionMode.ofNat? mo.toNat
    let m ← parseInt? m; let d ← parseInt? d; let w ← parseInt? w
    let a ← parseBool? a; let t ← parseInt? t; let ad ← parseBool? ad
    some ⟨mode, m, d, w, a, t, ad⟩
  | _ => none
def parseRec? (s : String) : Option ZoneRecurrence :=
  match s.splitOn "," with
  | [n, sv, yo, f, t] => do
    let n ← parseHex? n; let sv ← parseInt? sv; let yo ← parseYO? yo; let f ← parseInt? f; let t ← parseInt? t
    some ⟨n, ⟨sv⟩, yo, f, t⟩
  | _ => none
def parseMap? (s : String) : Option AlternatingMap :=
  match s.splitOn ";" with
  | [o, a, b] => do let o ← parseInt? o; let a ← parseRec? a; let b ← parseRec? b; some ⟨⟨o⟩, a, b⟩
  | _ => none
def parseInterval? (s : String) : Option ZoneInterval :=
  match s.splitOn "," with
  | [n, st, en, w, sv] => do
    let n ← parseHex? n; let st ← parseInstant? st; let en ← parseInstant? en; let w ← parseInt? w; let sv ← parseInt? sv
    some ⟨n, st, en, ⟨w⟩, ⟨sv⟩⟩
  | _ => none
def parsePrecalc? (s : String) : Option PrecalculatedZone :=
  match s.splitOn "|" with
  | "P" :: id :: rest => do
    let id ← parseHex? id
    let ivs := rest.takeWhile (· ≠ "T")
    match rest.dropWhile (· ≠ "T") with
    | ["T", tail] => do
      let ps ← ivs.mapM parseInterval?
      let tz ← if tail = "-" then some none else (parseMap? tail).map some
      some ⟨id, ps, tz⟩
    | _ => none
  | _ => none

/-- the string-pool field payload: count, then that many inline strings (`_handle_string_pool_field`) -/
def readPoolField (bs : Bytes) : R (List Str) := do
  let (n, r) ← readCount bs
  let (l, _) ← readN (readString none) n.toNat r
  .ok l

def parsePoolField? (s : String) : Option (R Pool) :=
  if s = "-" then some (.ok none) else do
    let bs ← parseHex? s
    some ((readPoolField bs).map some)

/-- decode a zone field and encode it again with the same pool: `=` when the bytes after the id and type
    byte are reproduced exactly, else the model's bytes -/
def reencodeZoneField (pool : Pool) (field : Bytes) : R String := do
  let (id, r) ← readString pool field
  let (ty, r) ← readByte r
  if ty = 2 then do
    let (z, rest) ← readPrecalculatedData pool id r
    let (b, _) ← writePrecalculated pool z
    .ok (if b ++ rest = r then "=" else showHex b)
  else if ty = 1 then .ok "fixed" else .error .valueError

def handlePrim (toks : List String) : Option String :=
  match toks with
  | ["enc.byte", n] => do let n ← parseInt? n; some (showR showHex (writeByte n))
  | ["dec.byte", h] => do let b ← parseHex? h; some (withRest toString (readByte b))
  | ["enc.count", n] => do let n ← parseInt? n; some (showR showHex (writeCount n))
  | ["dec.count", h] => do let b ← parseHex? h; some (withRest toString (readCount b))
  | ["enc.scount", n] => do let n ← parseInt? n; some (showR showHex (writeSignedCount n))
  | ["dec.scount", h] => do let b ← parseHex? h; some (withRest toString (readSignedCount b))
  | ["enc.ms", n] => do let n ← parseInt? n; some (showR showHex (writeMilliseconds n))
  | ["dec.ms", h] => do let b ← parseHex? h; some (withRest toString (readMilliseconds b))
  | ["enc.offset", n] => do let n ← parseInt? n; some (showR showHex (writeOffset ⟨n⟩))
  | ["dec.offset", h] => do let b ← parseHex? h; some (withRest (fun (o : Offset) => toString o.seconds) (readOffset b))
  | ["enc.trans", p, v] => do
      let p ← parseOptInstant? p; let v ← parseInstant? v; some (showR showHex (writeTransition p v))
  | ["dec.trans", p, h] => do
      let p ← parseOptInstant? p; let b ← parseHex? h; some (withRest showInstant (readTransition p b))
  | ["enc.str", p, s] => do
      let p ← parsePool? p; let s ← parseHex? s; some (withPool (writeString p s))
  | ["dec.str", p, h] => do
      let p ← parsePool? p; let b ← parseHex? h; some (withRest showStr (readString p b))
  | "enc.dict" :: p :: kvs => do
      let p ← parsePool? p
      let l ← kvs.mapM parseHex?
      let rec pairs : List Str → Option (List (Str × Str))
        | [] => some []
        | [_] => none
        | k :: v :: r => (pairs r).map ((k, v) :: ·)
      let d ← pairs l
      some (withPool (writeDictionary p d))
  | ["dec.dict", p, h] => do
      let p ← parsePool? p; let b ← parseHex? h
      some (withRest (fun d => if d.isEmpty then "[]" else ",".intercalate (d.map fun (k, v) => showPoolStr k ++ "=" ++ showPoolStr v))
        (readDictionary p b))
  | _ => none

/-- the value must be constructible: `LocalTime.from_nanoseconds_since_midnight`, `_ZoneYearOffset._ctor` -/
def mkYearOffset (y : ZoneYearOffset) : R ZoneYearOffset := do
  checkRange y.timeOfDay 0 (NPD - 1)
  yearOffsetCtor y.mode y.monthOfYear y.dayOfMonth y.dayOfWeek y.advance y.timeOfDay y.addDay

/-- `_ZoneRecurrence(...)` with infinite bounds (no yearly occurrence is evaluated by the constructor) -/
def mkInfiniteRecurrence (z : ZoneRecurrence) : R ZoneRecurrence := do
  let y ← mkYearOffset z.yearOffset
  let _ ← Offset.fromSeconds z.savings.seconds
  recurrenceYearsOk z.fromYear z.toYear
  if z.fromYear = INT_MIN ∧ z.toYear = INT_MAX then .ok { z with yearOffset := y } else .error .decimalDomain

def mkMap (m : AlternatingMap) : R AlternatingMap := do
  let _ ← Offset.fromSeconds m.standardOffset.seconds
  let a ← mkInfiniteRecurrence m.standardRecurrence
  let b ← mkInfiniteRecurrence m.dstRecurrence
  alternatingMapCtor m.standardOffset a b

def handleZone (toks : List String) : Option String :=
  match toks with
  | ["enc.yo", y] => do let y ← parseYO? y; some (showR showHex (do let y ← mkYearOffset y; writeYearOffset y))
  | ["dec.yo", h] => do let b ← parseHex? h; some (withRest showYO (readYearOffset b))
  | ["enc.map", p, m] => do
      let p ← parsePool? p; let m ← parseMap? m; some (withPool (do let m ← mkMap m; writeAlternatingMap p m))
  | ["dec.map", p, h] => do let p ← parsePool? p; let b ← parseHex? h; some (withRest showMap (readAlternatingMap p b))
  | ["dec.zone", p, id, h] => do
      let p ← parsePool? p; let id ← parseHex? id; let b ← parseHex? h
      some (withRest (fun z => showZone (.precalculated z)) (readPrecalculatedData p id b))
  | ["dec.fixed", p, id, h] => do
      let p ← parsePool? p; let id ← parseHex? id; let b ← parseHex? h
      some (withRest (fun z => showZone (.fixed z)) (readFixed p id b))
  | "zone.dump" :: pf :: fields => do
      let pool ← parsePoolField? pf
      let fs ← fields.mapM parseHex?
      match pool with
      | .error e => some ("!" ++ e.name)
      | .ok pool =>
        some (" ".intercalate (fs.map fun f =>
          showR showZone (do let (id, _) ← readString pool f; readZoneField pool id f)))
  | "zone.reenc" :: pf :: fields => do
      let pool ← parsePoolField? pf
      let fs ← fields.mapM parseHex?
      match pool with
      | .error e => some ("!" ++ e.name)
      | .ok pool => some (" ".intercalate (fs.map fun f => showR id (reencodeZoneField pool f)))
  | _ => none

/-- `_ZoneRecurrence(name, savings, year_offset, from_year, to_year)` from protocol fields -/
def mkRecurrence (z : ZoneRecurrence) : R ZoneRecurrence := do
  let y ← mkYearOffset z.yearOffset
  let _ ← Offset.fromSeconds z.savings.seconds
  recurrenceCtor { z with yearOffset := y }

/-- `_PrecalculatedDateTimeZone(id, [ZoneInterval(...)…], tail)` from protocol fields: every constructor runs -/
def mkZone (z : PrecalculatedZone) : R PrecalculatedZone := do
  let ps ← z.periods.mapM (fun p => zoneIntervalCtor p.name p.rawStart p.rawEnd p.wall p.savings)
  let tz ← match z.tailZone with
    | none => pure none
    | some m => do let m ← mkMap m; pure (some m)
  precalculatedCtor ⟨z.id, ps, tz⟩

def showLocal (l : LocalInstant) : String := s!"{l.dur.days}:{l.dur.nod}"

def handleTail (toks : List String) : Option String :=
  match toks with
  | ["enc.rec", p, z] => do
      let p ← parsePool? p; let z ← parseRec? z; some (withPool (do let z ← mkRecurrence z; writeRecurrence p z))
  | ["enc.zone", p, z] => do
      let p ← parsePool? p; let z ← parsePrecalc? z; some (withPool (do let z ← mkZone z; writePrecalculated p z))
  | ["dec.rec", p, h] => do let p ← parsePool? p; let b ← parseHex? h; some (withRest showRec (readRecurrence p b))
  | ["tail.occ", y, year] => do
      let y ← parseYO? y; let year ← parseInt? year
      some (showR showLocal (do let y ← mkYearOffset y; occurrenceForYear y year))
  | ["tail.interval", m, i] => do
      let m ← parseMap? m; let i ← parseInstant? i
      some (showR showInterval (do let m ← mkMap m; mapGetZoneInterval m i))
  | ["dec.zonefull", p, id, h] => do
      let p ← parsePool? p; let id ← parseHex? id; let b ← parseHex? h
      some (withRest (fun z => showZone (.precalculated z)) (readPrecalculated p id b))
  | _ => none

/-! ## stream container ops

  fault syntax (applied left to right, positions refer to the current bytes; `+` joins several):
    `t<pos>` keep the first `pos` bytes · `s<pos>:<hex>` overwrite at `pos` · `i<pos>:<hex>` insert before `pos`
    · `d<pos>:<k>` delete `k` bytes at `pos` -/

def applyFault1 (bs : Bytes) (f : String) : Option Bytes :=
  match f.toList with
  | 't' :: rest => do let p ← (String.ofList rest).toNat?; some (bs.take p)
  | c :: rest =>
    match (String.ofList rest).splitOn ":" with
    | [p, arg] => do
      let p ← p.toNat?
      if c = 's' then do
        let h ← parseHex? arg
        some (bs.take p ++ (h.take (bs.length - p)) ++ bs.drop (p + h.length))
      else if c = 'i' then do
        let h ← parseHex? arg
        some (bs.take p ++ h ++ bs.drop p)
      else if c = 'd' then do
        let k ← arg.toNat?
        some (bs.take p ++ bs.drop (p + k))
      else none
    | _ => none
  | [] => none

def applyFault (bs : Bytes) (f : String) : Option Bytes :=
  if f = "none" then some bs else (f.splitOn "+").foldlM applyFault1 bs

def showUse : R Nat → String
  | .ok n => s!"ok{n}"
  | .error e => "!" ++ e.name

/-- Evaluation shortcut of the `stream.faults*` ops only (not used by any theorem): `forIdRaw d id` is a function
    of the string pool, the id and the zone field bytes, so a (id, field) pair that was fetched successfully from
    the undamaged file with the same pool need not be decoded again. -/
structure BaseInfo where
  pool : List Str
  okZones : List (Str × Bytes)

def baseInfo (base : Bytes) : Option BaseInfo :=
  match fromStreamRaw base with
  | .error _ => none
  | .ok d =>
    some ⟨d.stringPool, (getIds d).filterMap fun id =>
      match dictGet? d.idMap id with
      | none => none
      | some canonical =>
        match d.zoneFields.find? (·.1 = canonical) with
        | none => none
        | some (_, field) =>
          match forIdRaw d id with
          | .ok _ => some (id, field)
          | .error _ => none⟩

/-- `forIdRaw d id` for the entry `(id, canonical)` of the id map itself (keys of the map are distinct, so the
    lookup by `id` returns `canonical`) -/
def forEntryRaw (d : StreamData) (id canonical : Str) : R ZoneValue := createZone d id canonical

def forEntryCached (bi : Option BaseInfo) (samePool : Bool) (d : StreamData) (e : Str × Str) : R ZoneValue :=
  match bi with
  | some b =>
    if samePool && !e.2.isEmpty then
      match d.zoneFields.find? (·.1 == e.2) with
      | some (_, field) =>
        if b.okZones.any (fun z => z.1 == e.1 && z.2 == field) then .ok (.fixed default)
        else translate caughtAtCreateZone (createZoneRaw (some d.stringPool) e.1 field)
      | none => .error .invalidData
    else forEntryRaw d e.1 e.2
  | none => forEntryRaw d e.1 e.2

def fetchEntries (f : Str × Str → R ZoneValue) : List (Str × Str) → R Nat
  | [] => .ok 0
  | e :: es => do
    let _ ← f e
    let n ← fetchEntries f es
    .ok (n + 1)

def useCachedRaw (bi : Option BaseInfo) (bytes : Bytes) : R Nat := do
  let d ← fromStreamRaw bytes
  let same := match bi with | some b => d.stringPool == b.pool | none => false
  fetchEntries (forEntryCached bi same d) d.idMap

def showUseIntended (r : R Nat) : String := showUse (toInvalidData r)

def handleStream (toks : List String) : Option String :=
  match toks with
  | ["stream.load", h] => do
      let b ← parseHex? h
      some (showR (fun (d : StreamData) => s!"{d.idMap.length} {d.zoneFields.length} {d.stringPool.length} {showStr d.version}") (fromStreamRaw b))
  | ["stream.use", h] => do let b ← parseHex? h; some (showUse (loadAndUse b))
  | ["stream.useraw", h] => do let b ← parseHex? h; some (showUse (loadAndUseRaw b))
  | "stream.faults" :: h :: faults => do
      let b ← parseHex? h
      let bi := baseInfo b
      let l ← faults.mapM (fun f => (applyFault b f).map (fun x => showUseIntended (useCachedRaw bi x)))
      some (" ".intercalate l)
  | "stream.faultsraw" :: h :: faults => do
      let b ← parseHex? h
      let bi := baseInfo b
      let l ← faults.mapM (fun f => (applyFault b f).map (fun x => showUse (useCachedRaw bi x)))
      some (" ".intercalate l)
  | "stream.faultsfull" :: h :: faults => do
      let b ← parseHex? h
      let l ← faults.mapM (fun f => (applyFault b f).map (fun x => showUse (loadAndUse x)))
      some (" ".intercalate l)
  | "zone.canon" :: pf :: fields => do
      let pool ← parsePoolField? pf
      let fs ← fields.mapM parseHex?
      match pool with
      | .error e => some ("!" ++ e.name)
      | .ok pool =>
        some (" ".intercalate (fs.map fun f =>
          showR (fun (o : Option Bool) => match o with | none => "fixed" | some b => showBool b) (canonicalZoneField pool f)))
  | "zone.create" :: pf :: fields => do
      let pool ← parsePoolField? pf
      let fs ← fields.mapM parseHex?
      match pool with
      | .error e => some ("!" ++ e.name)
      | .ok pool =>
        some (" ".intercalate (fs.map fun f =>
          showR showZone (do let (id, _) ← readString pool f; createZoneRaw pool id f)))
  | _ => none

def handle (toks : List String) : Option String :=
  (handlePrim toks).orElse fun _ => (handleZone toks).orElse fun _ => (handleTail toks).orElse fun _ => handleStream toks

end Pyoda.Codec
