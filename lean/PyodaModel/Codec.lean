/- PyodaModel.Codec — placeholder until the area is modelled. -/
import PyodaModel.Prelude

namespace Pyoda.Codec

def handle (_toks : List String) : Option String := none

end Pyoda.Codec
