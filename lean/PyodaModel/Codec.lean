/-
  PyodaModel.Codec — model of the tz database binary codec and stream container; protocol handler.

  Text forms used on the line protocol (no spaces inside a token):
    bytes / strings  lower-case hex, `-` = empty
    instant          `days:nano`            optional instant: `-` = None
    pool             `-` = None, `[]` = empty list, else `s1,s2,…` with `~` for the empty string
    year offset      `mode:month:dom:dow:advance:nanoOfDay:addDay`
    recurrence       `name,savingsSeconds,<yearoffset>,from,to`
    alternating map  `stdOffset;<recurrence std>;<recurrence dst>`
    interval         `name,start,end,wall,savings`
    zone             `F|id|offset|name`   or   `P|id|iv|iv|…|T|<map or ->`
-/
import PyodaModel.Codec.Prim
import PyodaModel.Codec.Zone

namespace Pyoda.Codec

/-! ## printing -/

def showStr (s : Str) : String := showHex s
def showInstant (i : Instant) : String := s!"{i.dur.days}:{i.dur.nod}"
def showOptInstant : Option Instant → String
  | none => "-" | some i => showInstant i
def showPoolStr (s : Str) : String := if s.isEmpty then "~" else showHex s
def showPool : Pool → String
  | none => "-"
  | some [] => "[]"
  | some l => ",".intercalate (l.map showPoolStr)
def showYO (y : ZoneYearOffset) : String :=
  ":".intercalate [toString y.mode.toNat, toString y.monthOfYear, toString y.dayOfMonth, toString y.dayOfWeek,
    showBool y.advance, toString y.timeOfDay, showBool y.addDay]
def showRec (z : ZoneRecurrence) : String :=
  ",".intercalate [showStr z.name, toString z.savings.seconds, showYO z.yearOffset, toString z.fromYear, toString z.toYear]
def showMap (m : AlternatingMap) : String :=
  ";".intercalate [toString m.standardOffset.seconds, showRec m.standardRecurrence, showRec m.dstRecurrence]
def showInterval (p : ZoneInterval) : String :=
  ",".intercalate [showStr p.name, showInstant p.rawStart, showInstant p.rawEnd, toString p.wall.seconds, toString p.savings.seconds]
def showZone : ZoneValue → String
  | .fixed z => "|".intercalate ["F", showStr z.id, toString z.offset.seconds, showStr z.name]
  | .precalculated z =>
    "|".intercalate (["P", showStr z.id] ++ z.periods.map showInterval ++ ["T", match z.tailZone with | none => "-" | some m => showMap m])

def withRest {α} (f : α → String) : R (α × Bytes) → String :=
  showR (fun (a, r) => f a ++ " " ++ toString r.length)
def withPool : R (Bytes × Pool) → String :=
  showR (fun (b, p) => showHex b ++ " " ++ showPool p)

/-! ## parsing -/

def parseBool? (s : String) : Option Bool := if s = "1" then some true else if s = "0" then some false else none
def parseInstant? (s : String) : Option Instant :=
  match s.splitOn ":" with
  | [d, n] => do let d ← parseInt? d; let n ← parseInt? n; some ⟨⟨d, n⟩⟩
  | _ => none
def parseOptInstant? (s : String) : Option (Option Instant) :=
  if s = "-" then some none else (parseInstant? s).map some
def parsePoolStr? (s : String) : Option Str := if s = "~" then some [] else parseHex? s
def parsePool? (s : String) : Option Pool :=
  if s = "-" then some none else if s = "[]" then some (some [])
  else ((s.splitOn ",").mapM parsePoolStr?).map some
def parseYO? (s : String) : Option ZoneYearOffset :=
  match s.splitOn ":" with
  | [mo, m, d, w, a, t, ad] => do
    let mo ← parseInt? mo; let mode ← TransitionMode.ofNat? mo.toNat
    let m ← parseInt? m; let d ← parseInt? d; let w ← parseInt? w
    let a ← parseBool? a; let t ← parseInt? t; let ad ← parseBool? ad
    some ⟨mode, m, d, w, a, t, ad⟩
  | _ => none
def parseRec? (s : String) : Option ZoneRecurrence :=
  match s.splitOn "," with
  | [n, sv, yo, f, t] => do
    let n ← parseHex? n; let sv ← parseInt? sv; let yo ← parseYO? yo; let f ← parseInt? f; let t ← parseInt? t
    some ⟨n, ⟨sv⟩, yo, f, t⟩
  | _ => none
def parseMap? (s : String) : Option AlternatingMap :=
  match s.splitOn ";" with
  | [o, a, b] => do let o ← parseInt? o; let a ← parseRec? a; let b ← parseRec? b; some ⟨⟨o⟩, a, b⟩
  | _ => none
def parseInterval? (s : String) : Option ZoneInterval :=
  match s.splitOn "," with
  | [n, st, en, w, sv] => do
    let n ← parseHex? n; let st ← parseInstant? st; let en ← parseInstant? en; let w ← parseInt? w; let sv ← parseInt? sv
    some ⟨n, st, en, ⟨w⟩, ⟨sv⟩⟩
  | _ => none
def parsePrecalc? (s : String) : Option PrecalculatedZone :=
  match s.splitOn "|" with
  | "P" :: id :: rest => do
    let id ← parseHex? id
    let ivs := rest.takeWhile (· ≠ "T")
    match rest.dropWhile (· ≠ "T") with
    | ["T", tail] => do
      let ps ← ivs.mapM parseInterval?
      let tz ← if tail = "-" then some none else (parseMap? tail).map some
      some ⟨id, ps, tz⟩
    | _ => none
  | _ => none

/-- the string-pool field payload: count, then that many inline strings (`_handle_string_pool_field`) -/
def readPoolField (bs : Bytes) : R (List Str) := do
  let (n, r) ← readCount bs
  let (l, _) ← readN (readString none) n.toNat r
  .ok l

def parsePoolField? (s : String) : Option (R Pool) :=
  if s = "-" then some (.ok none) else do
    let bs ← parseHex? s
    some ((readPoolField bs).map some)

/-- decode a zone field and encode it again with the same pool: `=` when the bytes after the id and type
    byte are reproduced exactly, else the model's bytes -/
def reencodeZoneField (pool : Pool) (field : Bytes) : R String := do
  let (id, r) ← readString pool field
  let (ty, r) ← readByte r
  if ty = 2 then do
    let (z, rest) ← readPrecalculatedData pool id r
    let (b, _) ← writePrecalculated pool z
    .ok (if b ++ rest = r then "=" else showHex b)
  else if ty = 1 then .ok "fixed" else .error .valueError

def handlePrim (toks : List String) : Option String :=
  match toks with
  | ["enc.byte", n] => do let n ← parseInt? n; some (showR showHex (writeByte n))
  | ["dec.byte", h] => do let b ← parseHex? h; some (withRest toString (readByte b))
  | ["enc.count", n] => do let n ← parseInt? n; some (showR showHex (writeCount n))
  | ["dec.count", h] => do let b ← parseHex? h; some (withRest toString (readCount b))
  | ["enc.scount", n] => do let n ← parseInt? n; some (showR showHex (writeSignedCount n))
  | ["dec.scount", h] => do let b ← parseHex? h; some (withRest toString (readSignedCount b))
  | ["enc.ms", n] => do let n ← parseInt? n; some (showR showHex (writeMilliseconds n))
  | ["dec.ms", h] => do let b ← parseHex? h; some (withRest toString (readMilliseconds b))
  | ["enc.offset", n] => do let n ← parseInt? n; some (showR showHex (writeOffset ⟨n⟩))
  | ["dec.offset", h] => do let b ← parseHex? h; some (withRest (fun (o : Offset) => toString o.seconds) (readOffset b))
  | ["enc.trans", p, v] => do
      let p ← parseOptInstant? p; let v ← parseInstant? v; some (showR showHex (writeTransition p v))
  | ["dec.trans", p, h] => do
      let p ← parseOptInstant? p; let b ← parseHex? h; some (withRest showInstant (readTransition p b))
  | ["enc.str", p, s] => do
      let p ← parsePool? p; let s ← parseHex? s; some (withPool (writeString p s))
  | ["dec.str", p, h] => do
      let p ← parsePool? p; let b ← parseHex? h; some (withRest showStr (readString p b))
  | "enc.dict" :: p :: kvs => do
      let p ← parsePool? p
      let l ← kvs.mapM parseHex?
      let rec pairs : List Str → Option (List (Str × Str))
        | [] => some []
        | [_] => none
        | k :: v :: r => (pairs r).map ((k, v) :: ·)
      let d ← pairs l
      some (withPool (writeDictionary p d))
  | ["dec.dict", p, h] => do
      let p ← parsePool? p; let b ← parseHex? h
      some (withRest (fun d => if d.isEmpty then "[]" else ",".intercalate (d.map fun (k, v) => showPoolStr k ++ "=" ++ showPoolStr v))
        (readDictionary p b))
  | _ => none

/-- the value must be constructible: `LocalTime.from_nanoseconds_since_midnight`, `_ZoneYearOffset._ctor` -/
def mkYearOffset (y : ZoneYearOffset) : R ZoneYearOffset := do
  checkRange y.timeOfDay 0 (NPD - 1)
  yearOffsetCtor y.mode y.monthOfYear y.dayOfMonth y.dayOfWeek y.advance y.timeOfDay y.addDay

/-- `_ZoneRecurrence(...)` with infinite bounds (no yearly occurrence is evaluated by the constructor) -/
def mkInfiniteRecurrence (z : ZoneRecurrence) : R ZoneRecurrence := do
  let y ← mkYearOffset z.yearOffset
  let _ ← Offset.fromSeconds z.savings.seconds
  recurrenceYearsOk z.fromYear z.toYear
  if z.fromYear = INT_MIN ∧ z.toYear = INT_MAX then .ok { z with yearOffset := y } else .error .decimalDomain

def mkMap (m : AlternatingMap) : R AlternatingMap := do
  let _ ← Offset.fromSeconds m.standardOffset.seconds
  let a ← mkInfiniteRecurrence m.standardRecurrence
  let b ← mkInfiniteRecurrence m.dstRecurrence
  alternatingMapCtor m.standardOffset a b

def handleZone (toks : List String) : Option String :=
  match toks with
  | ["enc.yo", y] => do let y ← parseYO? y; some (showR showHex (do let y ← mkYearOffset y; writeYearOffset y))
  | ["dec.yo", h] => do let b ← parseHex? h; some (withRest showYO (readYearOffset b))
  | ["enc.rec", p, z] => do let p ← parsePool? p; let z ← parseRec? z; some (withPool (writeRecurrence p z))
  | ["enc.map", p, m] => do
      let p ← parsePool? p; let m ← parseMap? m; some (withPool (do let m ← mkMap m; writeAlternatingMap p m))
  | ["dec.map", p, h] => do let p ← parsePool? p; let b ← parseHex? h; some (withRest showMap (readAlternatingMap p b))
  | ["enc.zone", p, z] => do let p ← parsePool? p; let z ← parsePrecalc? z; some (withPool (writePrecalculated p z))
  | ["dec.zone", p, id, h] => do
      let p ← parsePool? p; let id ← parseHex? id; let b ← parseHex? h
      some (withRest (fun z => showZone (.precalculated z)) (readPrecalculatedData p id b))
  | ["dec.fixed", p, id, h] => do
      let p ← parsePool? p; let id ← parseHex? id; let b ← parseHex? h
      some (withRest (fun z => showZone (.fixed z)) (readFixed p id b))
  | "zone.dump" :: pf :: fields => do
      let pool ← parsePoolField? pf
      let fs ← fields.mapM parseHex?
      match pool with
      | .error e => some ("!" ++ e.name)
      | .ok pool =>
        some (" ".intercalate (fs.map fun f =>
          showR showZone (do let (id, _) ← readString pool f; readZoneField pool id f)))
  | "zone.reenc" :: pf :: fields => do
      let pool ← parsePoolField? pf
      let fs ← fields.mapM parseHex?
      match pool with
      | .error e => some ("!" ++ e.name)
      | .ok pool => some (" ".intercalate (fs.map fun f => showR id (reencodeZoneField pool f)))
  | _ => none

def handle (toks : List String) : Option String :=
  (handlePrim toks).orElse fun _ => handleZone toks

end Pyoda.Codec
