/-
  PyodaModel.DateArith — date arithmetic and `Period.between` (area "DateArith", property C09).

  Transcribed from
    pyoda_time/fields/_fixed_length_date_period_field.py   (`addFixed`: same-month path, ±1-year path, day-number path)
    pyoda_time/fields/_months_period_field.py, _years_period_field.py
    pyoda_time/calendars/_regular_year_month_day_calculator.py   (`addMonthsRegular`, `monthsBetweenRegular`, `setYearRegular`)
    pyoda_time/calendars/_hebrew_year_month_day_calculator.py    (`addMonthsHebrew`, `monthsBetweenHebrew`, `setYearHebrew`)
    pyoda_time/calendars/_badi_year_month_day_calculator.py      (`addMonthsBadi`, `monthsBetweenBadi`, `setYearBadi`)
    pyoda_time/_period.py   (`Period.between` for the four operand kinds, `normalize`, `to_duration`)
  over the calendar model `Calc` of `PyodaModel/Calendar`.

  Where the pinned code has a defect the *intended* behaviour is modelled (the check reports the defect):
    * Badi `_add_months`: zero-based month index, so a multiple of 19 lands on month 19 of the previous year
      (the code yields month 0);
    * `Period.between(YearMonth, YearMonth, MONTHS)` reports months (the code reports them as years);
    * regular `_add_months`: the year range is checked before the month length is looked up (the code looks up
      first, which is a `KeyError` for Um Al Qura two or more years outside its table);
    * Hebrew `_months_between`: a probe `start + k months` that leaves the calendar counts as lying beyond `end`
      (the code lets the `OverflowError` escape when `end` is in the first or last month of the calendar);
    * Badi `_months_between`: counting backwards from a date in Ayyam-i-Ha starts at month 19, as `_add_months`
      does (the code starts at month 18 and returns one month too few).
  `_towards_zero_division` on caller-controlled amounts is `pyTdiv` (`!dom` beyond 10^27); on day numbers and
  nanosecond differences of values inside the calendars it is `Int.tdiv` (operands below 10^21).
-/
import PyodaModel.Calendar

namespace Pyoda.DateArith
open Pyoda Pyoda.Calendar

abbrev Ymd := Int × Int × Int

inductive Family where
  | regular
  | hebrew (scriptural : Bool)
  | badi
  deriving DecidableEq, Repr

def familyOf (ord : Nat) : Family :=
  if ord = 4 then .hebrew false else if ord = 5 then .hebrew true else if ord = 18 then .badi else .regular

/-! ## days and weeks: `_FixedLengthDatePeriodField` -/

/-- `calculator._get_year_month_day(year=…, day_of_year=…)` -/
def ofYearDay (c : Calc) (y doy : Int) : R Ymd :=
  match c.splitR y doy with
  | .ok md => .ok (y, md.1, md.2)
  | .error e => .error e

/-- `local_date._days_since_epoch` -/
def daysOf (c : Calc) (p : Ymd) : R Int := daysOfYmdRaw c p.1 p.2.1 p.2.2

/-- the two fast paths of `add` (|days_to_add| < 300): same month, else same or adjacent year by day of year -/
def fastPath (c : Calc) (p : Ymd) (k : Int) : R Ymd :=
  let y := p.1
  let m := p.2.1
  let d := p.2.2
  if 1 ≤ d + k ∧ d + k ≤ c.dim y m then .ok (y, m, d + k)
  else
    let ndoy := c.toMonth y m + d + k
    if ndoy < 1 then
      match c.lenR (y - 1) with
      | .error e => .error e
      | .ok l =>
        if y - 1 < c.minYear then .error .overflowError else ofYearDay c (y - 1) (ndoy + l)
    else
      match c.lenR y with
      | .error e => .error e
      | .ok l =>
        if ndoy > l then
          (if y + 1 > c.maxYear then .error .overflowError else ofYearDay c (y + 1) (ndoy - l))
        else ofYearDay c y ndoy

/-- the general path: `LocalDate._ctor(days_since_epoch=local_date._days_since_epoch + days_to_add, calendar=…)` -/
def slowPath (c : Calc) (p : Ymd) (k : Int) : R Ymd :=
  match daysOf c p with
  | .error e => .error e
  | .ok d0 => fromDays c (d0 + k)

/-- `_FixedLengthDatePeriodField(unit_days).add(local_date, value)` -/
def addFixed (c : Calc) (unitDays : Int) (p : Ymd) (value : Int) : R Ymd :=
  if value = 0 then .ok p
  else if -300 < value * unitDays ∧ value * unitDays < 300 then fastPath c p (value * unitDays)
  else slowPath c p (value * unitDays)

/-- `Period._internal_days_between` -/
def daysBetween (c : Calc) (s e : Ymd) : R Int :=
  if s = e then .ok 0
  else
    match daysOf c s, daysOf c e with
    | .ok a, .ok b => .ok (b - a)
    | .error x, _ => .error x
    | _, .error x => .error x

/-- `_FixedLengthDatePeriodField(unit_days).units_between` -/
def fixedBetween (c : Calc) (unitDays : Int) (s e : Ymd) : R Int :=
  match daysBetween c s e with
  | .ok n => .ok (Int.tdiv n unitDays)
  | .error x => .error x

/-! ## months -/

def rangeOrOverflow (c : Calc) (y : Int) (r : Ymd) : R Ymd :=
  if y < c.minYear ∨ y > c.maxYear then .error .overflowError else .ok r

/-- year and month reached by `_RegularYearMonthDayCalculator._add_months` (literal branches) -/
def regularTarget (M y m months q : Int) : Int × Int :=
  let mtu := m - 1 + months
  if mtu ≥ 0 then (y + q, Int.fmod mtu M + 1)
  else
    let a := -mtu
    let rem0 := Int.fmod a M
    let rem := if rem0 = 0 then M else rem0
    let mu := M - rem + 1
    (if mu = 1 then y + q - 1 + 1 else y + q - 1, mu)

/-- `_RegularYearMonthDayCalculator._add_months` with `M` months per year -/
def addMonthsRegular (c : Calc) (M : Int) (p : Ymd) (months : Int) : R Ymd :=
  if months = 0 then .ok p
  else
    match pyTdiv (p.2.1 - 1 + months) M with
    | .error e => .error e
    | .ok q =>
      let t := regularTarget M p.1 p.2.1 months q
      rangeOrOverflow c t.1 (t.1, t.2, min p.2.2 (c.dim t.1 t.2))

/-- the shared shape of the regular and Badi `_months_between`: a month-index difference corrected by one -/
def correctByOne (c : Calc) (s e simple : Ymd) (diff : Int) : Int :=
  if cmpYmd c s e ≤ 0 then (if cmpYmd c simple e ≤ 0 then diff else diff - 1)
  else (if cmpYmd c simple e ≥ 0 then diff else diff + 1)

def monthsBetweenRegular (c : Calc) (M : Int) (s e : Ymd) : R Int :=
  let diff := (e.1 - s.1) * M + e.2.1 - s.2.1
  match addMonthsRegular c M s diff with
  | .error x => .error x
  | .ok simple => .ok (correctByOne c s e simple diff)

/-! ### Hebrew -/
namespace Hebrew

def monthsIn (y : Int) : Int := if Heb.isLeap y then 13 else 12
def toCivil (scr : Bool) (y m : Int) : Int := if scr then Heb.scripturalToCivil y m else m
def fromCivil (scr : Bool) (y m : Int) : Int := if scr then Heb.civilToScriptural y m else m
def toScriptural (scr : Bool) (y m : Int) : Int := if scr then m else Heb.civilToScriptural y m
def fromScriptural (scr : Bool) (y m : Int) : Int := if scr then m else Heb.scripturalToCivil y m

/-- `while months >= months_in_year(year): months -= months_in_year(year); year += 1` -/
def fwdLoop : Nat → Int → Int → R (Int × Int)
  | 0, _, _ => .error .decimalDomain
  | f+1, months, year =>
    if months ≥ monthsIn year then fwdLoop f (months - monthsIn year) (year + 1) else .ok (months, year)

/-- `while months + months_in_year(year) <= 0: months += months_in_year(year); year -= 1` -/
def backLoop : Nat → Int → Int → R (Int × Int)
  | 0, _, _ => .error .decimalDomain
  | f+1, months, year =>
    if months + monthsIn year ≤ 0 then backLoop f (months + monthsIn year) (year - 1) else .ok (months, year)

def loopFuel : Nat := 32

/-- (year, civil month) reached from civil month `civ` of `year0` after the cycle shift -/
def walk (year0 civ months : Int) : R (Int × Int) :=
  if months > 0 then
    match fwdLoop loopFuel (months + (civ - 1)) year0 with
    | .ok r => .ok (r.2, r.1 + 1)
    | .error e => .error e
  else
    match backLoop loopFuel (months - (monthsIn year0 - civ)) year0 with
    | .ok r => .ok (r.2, monthsIn r.2 + r.1)
    | .error e => .error e

/-- `_HebrewYearMonthDayCalculator._add_months` -/
def addMonths (scr : Bool) (c : Calc) (p : Ymd) (months : Int) : R Ymd :=
  if months = 0 then .ok p
  else
    match pyTdiv months 235 with
    | .error e => .error e
    | .ok q =>
      match walk (p.1 + q * 19) (toCivil scr p.1 p.2.1) (csharpMod months 235) with
      | .error e => .error e
      | .ok ym =>
        let mcal := fromCivil scr ym.1 ym.2
        rangeOrOverflow c ym.1 (ym.1, mcal, min (c.dim ym.1 mcal) p.2.2)

/-- `compare(_add_months(start, diff), end)`; intended: a probe that leaves the calendar lies beyond `end` -/
def probe (scr : Bool) (c : Calc) (s e : Ymd) (diff : Int) : R Int :=
  match addMonths scr c s diff with
  | .ok r => .ok (cmpYmd c r e)
  | .error .overflowError => .ok (if diff > 0 then 1 else -1)
  | .error x => .error x

/-- `while cond(probe diff): diff += step` -/
def seek (scr : Bool) (c : Calc) (s e : Ymd) (cond : Int → Bool) (step : Int) : Nat → Int → R Int
  | 0, _ => .error .decimalDomain
  | f+1, diff =>
    match probe scr c s e diff with
    | .error x => .error x
    | .ok v => if cond v then seek scr c s e cond step f (diff + step) else .ok diff

def seekFuel : Nat := 16

/-- the estimate `int(end_total_months - start_total_months)` (computed in floating point by the code; the loops
    that follow make the result independent of it) -/
def estimate (scr : Bool) (s e : Ymd) : Int :=
  Int.tdiv ((toCivil scr e.1 e.2.1 * 19 + e.1 * 235) - (toCivil scr s.1 s.2.1 * 19 + s.1 * 235)) 19

/-- `_HebrewYearMonthDayCalculator._months_between` -/
def monthsBetween (scr : Bool) (c : Calc) (s e : Ymd) : R Int :=
  let diff := estimate scr s e
  if cmpYmd c s e ≤ 0 then
    match seek scr c s e (fun v => decide (v > 0)) (-1) seekFuel diff with
    | .error x => .error x
    | .ok d1 =>
      match seek scr c s e (fun v => decide (v ≤ 0)) 1 seekFuel d1 with
      | .error x => .error x
      | .ok d2 => .ok (d2 - 1)
  else
    match seek scr c s e (fun v => decide (v < 0)) 1 seekFuel diff with
    | .error x => .error x
    | .ok d1 =>
      match seek scr c s e (fun v => decide (v ≥ 0)) (-1) seekFuel d1 with
      | .error x => .error x
      | .ok d2 => .ok (d2 + 1)

/-- `_HebrewYearMonthDayCalculator._set_year` -/
def setYear (scr : Bool) (p : Ymd) (year : Int) : Ymd :=
  let sm0 := toScriptural scr p.1 p.2.1
  let sm1 :=
    if sm0 = 13 ∧ ¬ Heb.isLeap year then 12
    else if sm0 = 12 ∧ Heb.isLeap year ∧ ¬ Heb.isLeap p.1 then 13
    else sm0
  if p.2.2 = 30 ∧ (sm1 = 8 ∨ sm1 = 9 ∨ sm1 = 12) ∧ Heb.dimS year sm1 ≠ 30 then
    (year, fromScriptural scr year (if sm1 + 1 = 13 then 1 else sm1 + 1), 1)
  else (year, fromScriptural scr year sm1, p.2.2)

end Hebrew

/-! ### Badi -/
namespace BadiArith

def inAyyamiHa (p : Ymd) : Bool := p.2.1 == 18 && decide (p.2.2 > 19)

/-- `_BadiYearMonthDayCalculator._add_months` (intended: zero-based month index) -/
def addMonths (c : Calc) (p : Ymd) (months : Int) : R Ymd :=
  if months = 0 then .ok p
  else
    let nd := if inAyyamiHa p then p.2.2 - 19 else p.2.2
    let tm := if inAyyamiHa p ∧ months < 0 then p.2.1 + 1 else p.2.1
    let z := tm - 1 + months
    let ny := p.1 + Int.fdiv z 19
    rangeOrOverflow c ny (ny, Int.fmod z 19 + 1, nd)

/-- `_BadiYearMonthDayCalculator._months_between` (intended: backwards from Ayyam-i-Ha counts from month 19) -/
def monthsBetween (c : Calc) (s e : Ymd) : R Int :=
  let sm := if inAyyamiHa s ∧ cmpYmd c e s < 0 then s.2.1 + 1 else s.2.1
  let diff := (e.1 - s.1) * 19 + e.2.1 - sm
  match addMonths c s diff with
  | .error x => .error x
  | .ok simple => .ok (correctByOne c s e simple diff)

/-- `_BadiYearMonthDayCalculator._set_year` -/
def setYear (_c : Calc) (p : Ymd) (year : Int) : R Ymd :=
  match checkRange year 1 1000 with
  | .error e => .error e
  | .ok _ =>
    if inAyyamiHa p then .ok (year, p.2.1, min p.2.2 (19 + Badi.ayyamiHa year)) else .ok (year, p.2.1, p.2.2)

end BadiArith

/-! ### per-calendar dispatch -/

structure Cal where
  ord : Nat
  c : Calc
  fam : Family

def Cal.ofOrd (ord : Nat) : Option Cal := (calcOf ord).map fun c => ⟨ord, c, familyOf ord⟩

def Cal.validate (k : Cal) (p : Ymd) : R Unit := validateOrd k.ord k.c p.1 p.2.1 p.2.2

/-- `calculator._add_months` -/
def addMonths (k : Cal) (p : Ymd) (months : Int) : R Ymd :=
  match k.fam with
  | .regular => addMonthsRegular k.c (k.c.months p.1) p months
  | .hebrew scr => Hebrew.addMonths scr k.c p months
  | .badi => BadiArith.addMonths k.c p months

/-- `calculator._months_between` -/
def monthsBetween (k : Cal) (s e : Ymd) : R Int :=
  match k.fam with
  | .regular => monthsBetweenRegular k.c (k.c.months s.1) s e
  | .hebrew scr => Hebrew.monthsBetween scr k.c s e
  | .badi => BadiArith.monthsBetween k.c s e

/-- `_RegularYearMonthDayCalculator._set_year` -/
def setYearRegular (c : Calc) (p : Ymd) (year : Int) : Ymd := (year, p.2.1, min p.2.2 (c.dim year p.2.1))

/-- `calculator._set_year` -/
def setYear (k : Cal) (p : Ymd) (year : Int) : R Ymd :=
  match k.fam with
  | .regular => .ok (setYearRegular k.c p year)
  | .hebrew scr => .ok (Hebrew.setYear scr p year)
  | .badi => BadiArith.setYear k.c p year

/-- `_YearsPeriodField.add` -/
def addYears (k : Cal) (p : Ymd) (value : Int) : R Ymd :=
  if value = 0 then .ok p
  else
    match checkRange value (k.c.minYear - p.1) (k.c.maxYear - p.1) with
    | .error e => .error e
    | .ok _ => setYear k p (p.1 + value)

/-- `_YearsPeriodField.units_between` -/
def yearsBetween (k : Cal) (s e : Ymd) : R Int :=
  let diff := e.1 - s.1
  match addYears k s diff with
  | .error x => .error x
  | .ok simple => .ok (correctByOne k.c s e simple diff)

/-! ## `Period.between` -/

/-- one date unit as `Period.__date_components_between` uses it -/
structure Field where
  add : Ymd → Int → R Ymd
  between : Ymd → Ymd → R Int

def yearsField (k : Cal) : Field := ⟨addYears k, yearsBetween k⟩
def monthsField (k : Cal) : Field := ⟨addMonths k, monthsBetween k⟩
def weeksField (k : Cal) : Field := ⟨addFixed k.c 7, fixedBetween k.c 7⟩
def daysField (k : Cal) : Field := ⟨addFixed k.c 1, fixedBetween k.c 1⟩

def bit (mask : Nat) (i : Nat) : Bool := mask.testBit i

/-- the inner `units_between` of `__date_components_between`: (value, advanced start) -/
def stepField (f : Field) (on : Bool) (s e : Ymd) : R (Int × Ymd) :=
  if !on then .ok (0, s)
  else
    match f.between s e with
    | .error x => .error x
    | .ok v =>
      match f.add s v with
      | .error x => .error x
      | .ok s' => .ok (v, s')

structure DateParts where
  rest : Ymd
  years : Int
  months : Int
  weeks : Int
  days : Int

/-- `Period.__date_components_between` -/
def dateComponents (fy fm fw fd : Field) (mask : Nat) (s e : Ymd) : R DateParts :=
  match stepField fy (bit mask 0) s e with
  | .error x => .error x
  | .ok (y, s1) =>
    match stepField fm (bit mask 1) s1 e with
    | .error x => .error x
    | .ok (m, s2) =>
      match stepField fw (bit mask 2) s2 e with
      | .error x => .error x
      | .ok (w, s3) =>
        match stepField fd (bit mask 3) s3 e with
        | .error x => .error x
        | .ok (d, s4) => .ok ⟨s4, y, m, w, d⟩

def unitNanos : List Int := [NPH, NPMin, NPS, NPMs, NPT, 1]

/-- the inner `units_between` of `__time_components_between` -/
def stepTime (on : Bool) (total unit : Int) : Int × Int :=
  if !on then (0, total) else (Int.tdiv total unit, total - Int.tdiv total unit * unit)

/-- `Period.__time_components_between`: hours … nanoseconds and what is left -/
def timeComponents (mask : Nat) (total : Int) : List Int × Int :=
  let h := stepTime (bit mask 4) total NPH
  let mi := stepTime (bit mask 5) h.2 NPMin
  let s := stepTime (bit mask 6) mi.2 NPS
  let ms := stepTime (bit mask 7) s.2 NPMs
  let t := stepTime (bit mask 8) ms.2 NPT
  let n := stepTime (bit mask 9) t.2 1
  ([h.1, mi.1, s.1, ms.1, t.1, n.1], n.2)

def zero10 : List Int := [0, 0, 0, 0, 0, 0, 0, 0, 0, 0]

def single (i : Nat) (v : Int) : List Int := (List.range 10).map fun j => if j = i then v else 0

def dateMask : Nat := 15
def timeMask : Nat := 1008

/-- the three `_check_argument` calls on the units -/
def checkUnits (mask : Nat) (forbidden : Nat) : R Unit :=
  if mask &&& forbidden ≠ 0 ∨ mask = 0 ∨ mask ≥ 1024 then .error .valueError else .ok ()

def fieldsOf (k : Cal) : Field × Field × Field × Field := (yearsField k, monthsField k, weeksField k, daysField k)

/-- `Period.between(LocalDate, LocalDate, units)` -/
def betweenDates (k : Cal) (mask : Nat) (s e : Ymd) : R (List Int) :=
  match checkUnits mask timeMask with
  | .error x => .error x
  | .ok _ =>
    if s = e then .ok zero10
    else if mask = 1 then (yearsBetween k s e).map (single 0)
    else if mask = 2 then (monthsBetween k s e).map (single 1)
    else if mask = 4 then (fixedBetween k.c 7 s e).map (single 2)
    else if mask = 8 then (fixedBetween k.c 1 s e).map (single 3)
    else
      match dateComponents (yearsField k) (monthsField k) (weeksField k) (daysField k) mask s e with
      | .error x => .error x
      | .ok r => .ok [r.years, r.months, r.weeks, r.days, 0, 0, 0, 0, 0, 0]

/-- `Period.between(YearMonth, YearMonth, units)` (intended: MONTHS is reported as months) -/
def betweenYearMonths (k : Cal) (mask : Nat) (s e : Int × Int) : R (List Int) :=
  match checkUnits mask (1023 - 3) with
  | .error x => .error x
  | .ok _ =>
    let sd : Ymd := (s.1, s.2, 1)
    let ed : Ymd := (e.1, e.2, 1)
    if s = e then .ok zero10
    else if mask = 1 then (yearsBetween k sd ed).map (single 0)
    else if mask = 2 then (monthsBetween k sd ed).map (single 1)
    else
      match dateComponents (yearsField k) (monthsField k) (weeksField k) (daysField k) mask sd ed with
      | .error x => .error x
      | .ok r => .ok [r.years, r.months, 0, 0, 0, 0, 0, 0, 0, 0]

/-- `Period.between(LocalTime, LocalTime, units)` -/
def betweenTimes (mask : Nat) (s e : Int) : R (List Int) :=
  match checkUnits mask dateMask with
  | .error x => .error x
  | .ok _ => .ok ([0, 0, 0, 0] ++ (timeComponents mask (e - s)).1)

/-- LocalDateTime ordering: date by the calendar's comparison, then time of day -/
def cmpDateTime (c : Calc) (s : Ymd) (sn : Int) (e : Ymd) (en : Int) : Int :=
  if cmpYmd c s e ≠ 0 then cmpYmd c s e else sn - en

/-- the end date adjusted by the times of day -/
def adjustedEnd (c : Calc) (s : Ymd) (sn : Int) (e : Ymd) (en : Int) : R Ymd :=
  if cmpDateTime c s sn e en < 0 then (if sn > en then addFixed c 1 e (-1) else .ok e)
  else if cmpDateTime c s sn e en > 0 ∧ sn < en then addFixed c 1 e 1
  else .ok e

/-- nanoseconds from (date a, time an) to (date b, time bn) on the local time line -/
def nanosBetween (c : Calc) (a : Ymd) (an : Int) (b : Ymd) (bn : Int) : R Int :=
  match daysOf c a, daysOf c b with
  | .ok da, .ok db => .ok ((db - da) * NPD + (bn - an))
  | .error x, _ => .error x
  | _, .error x => .error x

/-- `Period.between(LocalDateTime, LocalDateTime, units)` -/
def betweenDateTimes (k : Cal) (mask : Nat) (s : Ymd) (sn : Int) (e : Ymd) (en : Int) : R (List Int) :=
  if mask = 0 ∨ mask ≥ 1024 then .error .valueError
  else if s = e ∧ sn = en then .ok zero10
  else
    match adjustedEnd k.c s sn e en with
    | .error x => .error x
    | .ok ed =>
      if mask = 1 then (yearsBetween k s ed).map (single 0)
      else if mask = 2 then (monthsBetween k s ed).map (single 1)
      else if mask = 4 then (fixedBetween k.c 7 s ed).map (single 2)
      else if mask = 8 then (daysBetween k.c s ed).map (single 3)
      else if mask = 16 ∨ mask = 32 ∨ mask = 64 ∨ mask = 128 ∨ mask = 256 ∨ mask = 512 then
        (nanosBetween k.c s sn e en).map fun t => [0, 0, 0, 0] ++ (timeComponents mask t).1
      else
        let parts : R DateParts :=
          if mask &&& dateMask ≠ 0 then
            dateComponents (yearsField k) (monthsField k) (weeksField k) (daysField k) mask s ed
          else .ok ⟨s, 0, 0, 0, 0⟩
        match parts with
        | .error x => .error x
        | .ok r =>
          if mask &&& timeMask = 0 then .ok [r.years, r.months, r.weeks, r.days, 0, 0, 0, 0, 0, 0]
          else
            match nanosBetween k.c r.rest sn e en with
            | .error x => .error x
            | .ok t => .ok ([r.years, r.months, r.weeks, r.days] ++ (timeComponents mask t).1)

/-! ## `Period.normalize`, `Period.to_duration` -/

structure Period where
  years : Int
  months : Int
  weeks : Int
  days : Int
  hours : Int
  minutes : Int
  seconds : Int
  milliseconds : Int
  ticks : Int
  nanoseconds : Int
  deriving DecidableEq, Repr

/-- `Period.__total_nanoseconds` -/
def Period.total (p : Period) : Int :=
  p.nanoseconds + p.ticks * NPT + p.milliseconds * NPMs + p.seconds * NPS + p.minutes * NPMin + p.hours * NPH
    + p.days * NPD + p.weeks * (7 * NPD)

def Period.toList (p : Period) : List Int :=
  [p.years, p.months, p.weeks, p.days, p.hours, p.minutes, p.seconds, p.milliseconds, p.ticks, p.nanoseconds]

/-- `Period.normalize` -/
def Period.normalize (p : Period) : R Period :=
  let t := p.total
  match pyTdiv t NPD, pyTdiv t NPH, pyTdiv t NPMin, pyTdiv t NPS, pyTdiv t NPMs with
  | .ok d, .ok h, .ok mi, .ok s, .ok ms =>
    .ok ⟨p.years, p.months, 0, d, csharpMod h 24, csharpMod mi 60, csharpMod s 60, csharpMod ms 1000, 0, csharpMod t NPMs⟩
  | .error x, _, _, _, _ => .error x
  | _, .error x, _, _, _ => .error x
  | _, _, .error x, _, _ => .error x
  | _, _, _, .error x, _ => .error x
  | _, _, _, _, .error x => .error x

def durMinNanos : Int := -(1073741824 * NPD)
def durMaxNanos : Int := 1073741824 * NPD - 1

/-- `Period.to_duration`: (floor days, nanosecond of day) of `Duration.from_nanoseconds(total)` -/
def Period.toDuration (p : Period) : R (Int × Int) :=
  if p.months ≠ 0 ∨ p.years ≠ 0 then .error .runtimeError
  else
    match checkRange p.total durMinNanos durMaxNanos with
    | .error x => .error x
    | .ok _ => .ok (p.total / NPD, p.total % NPD)

/-! ## evaluated side conditions of the C09 theorems that are not part of C01's `WF` -/

/-- every year of the calendar has at least 299 days (the ±1-year fast path of day addition relies on it) -/
def yearLenCheck (c : Calc) : Bool := allInts c.minYear c.maxYear (fun y => decide (299 ≤ c.len y))

/-! ## line protocol -/

def showYmd (r : R Ymd) : String := showR (fun p => showInts [p.1, p.2.1, p.2.2]) r

def withCal (tok : String) (f : Cal → Option String) : Option String := do
  let n ← tok.toNat?
  let k ← Cal.ofOrd n
  f k

def validated (k : Cal) (p : Ymd) (f : R α) : R α :=
  match k.validate p with
  | .error e => .error e
  | .ok _ => f

def domGuard (n : Int) (r : String) : String := if n ≤ -decBound ∨ n ≥ decBound then "!dom" else r

def periodOf : List Int → Option Period
  | [a, b, c, d, e, f, g, h, i, j] => some ⟨a, b, c, d, e, f, g, h, i, j⟩
  | _ => none

def handle (toks : List String) : Option String :=
  match toks with
  | ["date.plus", unit, c, y, m, d, n] => withCal c fun k => do
      let v ← parseInts? [y, m, d, n]
      match v with
      | [y, m, d, n] =>
        let p : Ymd := (y, m, d)
        if unit = "days" then some (showYmd (validated k p (addFixed k.c 1 p n)))
        else if unit = "weeks" then some (showYmd (validated k p (addFixed k.c 7 p n)))
        else if unit = "months" then some (domGuard n (showYmd (validated k p (addMonths k p n))))
        else if unit = "years" then some (showYmd (validated k p (addYears k p n)))
        else none
      | _ => none
  | ["ym.plusmonths", c, y, m, n] => withCal c fun k => do
      let v ← parseInts? [y, m, n]
      match v with
      | [y, m, n] =>
        let p : Ymd := (y, m, 1)
        some (domGuard n (showR (fun (r : Ymd) => showInts [r.1, r.2.1]) (validated k p (addMonths k p n))))
      | _ => none
  | ["date.daysbetween", c, y1, m1, d1, y2, m2, d2] => withCal c fun k => do
      let v ← parseInts? [y1, m1, d1, y2, m2, d2]
      match v with
      | [y1, m1, d1, y2, m2, d2] =>
        some (showR toString (validated k (y1, m1, d1) (validated k (y2, m2, d2) (daysBetween k.c (y1, m1, d1) (y2, m2, d2)))))
      | _ => none
  | ["date.plusperiod", c, y, m, d, py, pm, pw, pd] => withCal c fun k => do
      let v ← parseInts? [y, m, d, py, pm, pw, pd]
      match v with
      | [y, m, d, py, pm, pw, pd] =>
        let p : Ymd := (y, m, d)
        some (showYmd (validated k p (do
          let a ← addYears k p py
          let b ← addMonths k a pm
          let c' ← addFixed k.c 7 b pw
          addFixed k.c 1 c' pd)))
      | _ => none
  | ["period.between", "d", mask, c, y1, m1, d1, y2, m2, d2] => withCal c fun k => do
      let mask ← mask.toNat?
      let v ← parseInts? [y1, m1, d1, y2, m2, d2]
      match v with
      | [y1, m1, d1, y2, m2, d2] =>
        some (showR showInts (validated k (y1, m1, d1) (validated k (y2, m2, d2) (betweenDates k mask (y1, m1, d1) (y2, m2, d2)))))
      | _ => none
  | ["period.between", "dt", mask, c, y1, m1, d1, n1, y2, m2, d2, n2] => withCal c fun k => do
      let mask ← mask.toNat?
      let v ← parseInts? [y1, m1, d1, n1, y2, m2, d2, n2]
      match v with
      | [y1, m1, d1, n1, y2, m2, d2, n2] =>
        if n1 < 0 ∨ n1 ≥ NPD ∨ n2 < 0 ∨ n2 ≥ NPD then some "!valueError" else
        some (showR showInts (validated k (y1, m1, d1) (validated k (y2, m2, d2)
          (betweenDateTimes k mask (y1, m1, d1) n1 (y2, m2, d2) n2))))
      | _ => none
  | ["period.between", "t", mask, n1, n2] => do
      let mask ← mask.toNat?
      let n1 ← parseInt? n1
      let n2 ← parseInt? n2
      if n1 < 0 ∨ n1 ≥ NPD ∨ n2 < 0 ∨ n2 ≥ NPD then some "!valueError" else
      some (showR showInts (betweenTimes mask n1 n2))
  | ["period.between", "ym", mask, c, y1, m1, y2, m2] => withCal c fun k => do
      let mask ← mask.toNat?
      let v ← parseInts? [y1, m1, y2, m2]
      match v with
      | [y1, m1, y2, m2] =>
        some (showR showInts (validated k (y1, m1, 1) (validated k (y2, m2, 1) (betweenYearMonths k mask (y1, m1) (y2, m2)))))
      | _ => none
  | ["date.wf", c] => withCal c fun k => some (showBool (yearLenCheck k.c))
  | "period.normalize" :: rest => do
      let v ← parseInts? rest
      let p ← periodOf v
      some (showR (fun (q : Period) => showInts q.toList) p.normalize)
  | "period.toduration" :: rest => do
      let v ← parseInts? rest
      let p ← periodOf v
      some (showR (fun (r : Int × Int) => showInts [r.1, r.2]) p.toDuration)
  | _ => none

end Pyoda.DateArith
