/- PyodaModel.DateArith — placeholder until the area is modelled. -/
import PyodaModel.Prelude

namespace Pyoda.DateArith

def handle (_toks : List String) : Option String := none

end Pyoda.DateArith
