/- PyodaModel.Compare — placeholder until the area is modelled. -/
import PyodaModel.Prelude

namespace Pyoda.Compare

def handle (_toks : List String) : Option String := none

end Pyoda.Compare
