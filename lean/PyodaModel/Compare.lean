/-
  PyodaModel.Compare — equality, hashing and ordering of the public value types.

  Transcribed from the `__eq__/__ne__/__lt__/__le__/__gt__/__ge__/__hash__/compare_to/min/max` members of
  pyoda_time/_duration.py, _instant.py, _offset.py, _local_date.py, _local_time.py, _local_date_time.py,
  _year_month.py, _annual_date.py, _offset_date.py, _offset_time.py, _offset_date_time.py, _zoned_date_time.py,
  _interval.py, _date_interval.py, _period.py, time_zones/_zone_interval.py, time_zones/_fixed_date_time_zone.py,
  _year_month_day.py, _year_month_day_calendar.py, utility/_hash_code_helper.py,
  calendars/_hebrew_year_month_day_calculator.py (`compare`), calendars/_hebrew_month_converter.py.

  Conventions: `x << k | y` (0 ≤ y < 2^k) ↦ `x * 2^k + y`; `v >> k` ↦ `v / 2^k` (floor for Int and a positive
  literal); `v & (2^k - 1)` ↦ `v % 2^k`.  A comparison that the code refuses with ValueError (different calendars)
  is `.error .valueError`.  Strings (zone ids, names) are represented by integer codes of a table of distinct
  strings; their hashes and the identity hash of a CalendarSystem are parameters.
-/
import PyodaModel.Elapsed

namespace Pyoda.Compare
open Pyoda

/-! ## Python built-ins used by the code -/

/-- 2^61 - 1, the modulus of CPython's numeric hash -/
def P61 : Int := 2305843009213693951

/-- `hash(n)` for a Python `int` -/
def pyIntHash (n : Int) : Int :=
  let h := if 0 ≤ n then n % P61 else -((-n) % P61)
  if h = -1 then -2 else h

/-- `hash(obj)` given the integer returned by `obj.__hash__()`: used as is when it fits a `Py_ssize_t`
    (reduced like an `int` otherwise); `-1` is reserved and becomes `-2`. -/
def objHash (v : Int) : Int :=
  if -9223372036854775808 ≤ v ∧ v ≤ 9223372036854775807 then (if v = -1 then -2 else v) else pyIntHash v

/-- `_hash_code_helper(*values)` on the hashes of the values: `ret = 17; ret += ret * 37 + hash(v)` -/
def hashHelper (hs : List Int) : Int := hs.foldl (fun ret h => ret + ret * 37 + h) 17

/-- `a ^ b` on Python ints (two's complement, unbounded) -/
def xorInt : Int → Int → Int
  | .ofNat m, .ofNat n => .ofNat (m ^^^ n)
  | .ofNat m, .negSucc n => .negSucc (m ^^^ n)
  | .negSucc m, .ofNat n => .negSucc (m ^^^ n)
  | .negSucc m, .negSucc n => .ofNat (m ^^^ n)

/-- built-in `max(x, y)`: the second argument only if it is strictly greater (`y > x`, evaluated as `y.__gt__(x)`) -/
def pyMax {α} (gt : α → α → R Bool) (x y : α) : R α :=
  match gt y x with
  | .ok true => .ok y
  | .ok false => .ok x
  | .error e => .error e

/-- built-in `min(x, y)`: the second argument only if it is strictly smaller (`y < x`) -/
def pyMin {α} (lt : α → α → R Bool) (x y : α) : R α :=
  match lt y x with
  | .ok true => .ok y
  | .ok false => .ok x
  | .error e => .error e

/-- `_Preconditions._check_argument(a == b, …)` of the cross-calendar guard -/
def sameCal {α} (a b : Int) (v : α) : R α := if a = b then .ok v else .error .valueError

/-! ## `_YearMonthDay` / `_YearMonthDayCalendar` packing (15/5/6/6 bits) -/

/-- `(year - 1) << 11 | (month - 1) << 6 | (day - 1)` -/
def packYMD (y m d : Int) : Int := (y - 1) * 2048 + (m - 1) * 64 + (d - 1)
/-- `(value >> 11) + 1` -/
def ymdYear (v : Int) : Int := v / 2048 + 1
/-- `((value & MONTH_MASK) >> 6) + 1`, MONTH_MASK = 31 << 6 -/
def ymdMonth (v : Int) : Int := v % 2048 / 64 + 1
/-- `(value & 63) + 1` -/
def ymdDay (v : Int) : Int := v % 64 + 1
/-- `(year-1) << 17 | (month-1) << 12 | (day-1) << 6 | ordinal` = `year_month_day << 6 | ordinal` -/
def packYMDC (ord y m d : Int) : Int := packYMD y m d * 64 + ord
/-- `value & 63` -/
def ymdcOrdinal (v : Int) : Int := v % 64
/-- `_to_year_month_day`: `value >> 6` -/
def ymdcToYMD (v : Int) : Int := v / 64

/-- the fields a validated date can have: 5-bit month, 6-bit day, 6-bit calendar ordinal; any year -/
def FieldsOK (m d : Int) : Prop := 1 ≤ m ∧ m ≤ 32 ∧ 1 ≤ d ∧ d ≤ 64
def OrdOK (o : Int) : Prop := 0 ≤ o ∧ o < 64

/-! ## calendar-aware comparison -/

def HEBREW_SCRIPTURAL : Int := 5

/-- `_HebrewScripturalCalculator._is_leap_year` -/
def hebIsLeap (y : Int) : Bool := decide ((y * 7 + 1) % 19 < 7)

/-- `_HebrewMonthConverter._scriptural_to_civil` -/
def scripturalToCivil (y m : Int) : Int :=
  if m ≥ 7 then m - 6 else if hebIsLeap y then m + 7 else m + 6

/-- `CalendarSystem._compare(lhs, rhs)`: the raw packed difference, except for the Hebrew calendar with
    scriptural month numbering, which compares (year, civil month, day). -/
def calCompare (ord l r : Int) : Int :=
  if ord = HEBREW_SCRIPTURAL then
    if ymdYear l - ymdYear r ≠ 0 then ymdYear l - ymdYear r
    else if scripturalToCivil (ymdYear l) (ymdMonth l) - scripturalToCivil (ymdYear r) (ymdMonth r) ≠ 0 then
      scripturalToCivil (ymdYear l) (ymdMonth l) - scripturalToCivil (ymdYear r) (ymdMonth r)
    else ymdDay l - ymdDay r
  else l - r

/-! ## Duration, Instant, Offset (structures of `PyodaModel.Elapsed`) -/

namespace Dur
def eq (a b : Duration) : Bool := Duration.beq a b
def ne (a b : Duration) : Bool := !Duration.beq a b
def lt (a b : Duration) : R Bool := .ok (Duration.lt a b)
def le (a b : Duration) : R Bool := .ok (Duration.le a b)
def gt (a b : Duration) : R Bool := .ok (Duration.gt a b)
def ge (a b : Duration) : R Bool := .ok (Duration.ge a b)
def compareTo (a b : Duration) : R Int := .ok (Duration.compareTo a b)
def max (x y : Duration) : R Duration := pyMax gt x y
def min (x y : Duration) : R Duration := pyMin lt x y
/-- `__hash__`: `days ^ hash(nano_of_day)` -/
def hashRaw (a : Duration) : Int := xorInt a.days (pyIntHash a.nod)
def hash (a : Duration) : Int := objHash (hashRaw a)
end Dur

namespace Inst
def eq (a b : Instant) : Bool := Duration.beq a.dur b.dur
def ne (a b : Instant) : Bool := !Duration.beq a.dur b.dur
def lt (a b : Instant) : R Bool := .ok (Duration.lt a.dur b.dur)
def le (a b : Instant) : R Bool := .ok (Duration.le a.dur b.dur)
def gt (a b : Instant) : R Bool := .ok (Duration.gt a.dur b.dur)
def ge (a b : Instant) : R Bool := .ok (Duration.ge a.dur b.dur)
def compareTo (a b : Instant) : R Int := .ok (Duration.compareTo a.dur b.dur)
def max (x y : Instant) : R Instant := pyMax gt x y
def min (x y : Instant) : R Instant := pyMin lt x y
/-- `__hash__`: `hash(self.__duration)` -/
def hashRaw (a : Instant) : Int := Dur.hash a.dur
def hash (a : Instant) : Int := objHash (hashRaw a)
end Inst

namespace Off
def eq (a b : Offset) : Bool := decide (a.seconds = b.seconds)
def ne (a b : Offset) : Bool := !eq a b
def lt (a b : Offset) : R Bool := .ok (decide (Offset.compareTo a b < 0))
def le (a b : Offset) : R Bool := .ok (decide (Offset.compareTo a b ≤ 0))
def gt (a b : Offset) : R Bool := .ok (decide (Offset.compareTo a b > 0))
def ge (a b : Offset) : R Bool := .ok (decide (Offset.compareTo a b ≥ 0))
def compareTo (a b : Offset) : R Int := .ok (Offset.compareTo a b)
/-- `Offset.max(x, y)` is `max(y, x)` -/
def max (x y : Offset) : R Offset := pyMax gt y x
def min (x y : Offset) : R Offset := pyMin lt y x
def hashRaw (a : Offset) : Int := pyIntHash a.seconds
def hash (a : Offset) : Int := objHash (hashRaw a)
end Off

/-! ## LocalTime -/

structure LocalTime where
  nanos : Int
  deriving DecidableEq, Repr, Inhabited

namespace LocalTime
def eq (a b : LocalTime) : Bool := decide (a.nanos = b.nanos)
def ne (a b : LocalTime) : Bool := !eq a b
def lt (a b : LocalTime) : R Bool := .ok (decide (a.nanos < b.nanos))
def le (a b : LocalTime) : R Bool := .ok (decide (a.nanos ≤ b.nanos))
def gt (a b : LocalTime) : R Bool := .ok (decide (a.nanos > b.nanos))
def ge (a b : LocalTime) : R Bool := .ok (decide (a.nanos ≥ b.nanos))
def compareTo (a b : LocalTime) : R Int := .ok (a.nanos - b.nanos)
/-- `LocalTime.max(x, y)` is `max(y, x)` -/
def max (x y : LocalTime) : R LocalTime := pyMax gt y x
def min (x y : LocalTime) : R LocalTime := pyMin lt y x
def hashRaw (a : LocalTime) : Int := pyIntHash a.nanos
def hash (a : LocalTime) : Int := objHash (hashRaw a)
end LocalTime

/-! ## LocalDate: one packed `_YearMonthDayCalendar` integer -/

structure LocalDate where
  ymdc : Int
  deriving DecidableEq, Repr, Inhabited

namespace LocalDate
def ofFields (ord y m d : Int) : LocalDate := ⟨packYMDC ord y m d⟩
def ordinal (a : LocalDate) : Int := ymdcOrdinal a.ymdc
def ymd (a : LocalDate) : Int := ymdcToYMD a.ymdc
def eq (a b : LocalDate) : Bool := decide (a.ymdc = b.ymdc)
def ne (a b : LocalDate) : Bool := !eq a b
/-- `__trusted_compare_to` -/
def trustedCompareTo (a b : LocalDate) : Int := calCompare a.ordinal a.ymd b.ymd
def lt (a b : LocalDate) : R Bool := sameCal a.ordinal b.ordinal (decide (trustedCompareTo a b < 0))
def le (a b : LocalDate) : R Bool := sameCal a.ordinal b.ordinal (decide (trustedCompareTo a b ≤ 0))
def gt (a b : LocalDate) : R Bool := sameCal a.ordinal b.ordinal (decide (trustedCompareTo a b > 0))
def ge (a b : LocalDate) : R Bool := sameCal a.ordinal b.ordinal (decide (trustedCompareTo a b ≥ 0))
def compareTo (a b : LocalDate) : R Int := sameCal a.ordinal b.ordinal (trustedCompareTo a b)
/-- `LocalDate.max`: the calendar guard, then `max(x, y)` -/
def max (x y : LocalDate) : R LocalDate :=
  if x.ordinal = y.ordinal then pyMax gt x y else .error .valueError
def min (x y : LocalDate) : R LocalDate :=
  if x.ordinal = y.ordinal then pyMin lt x y else .error .valueError
/-- `__hash__`: `hash(self.__year_month_day_calendar)`, whose `__hash__` is the packed value -/
def hashRaw (a : LocalDate) : Int := objHash a.ymdc
def hash (a : LocalDate) : Int := objHash (hashRaw a)
end LocalDate

/-! ## LocalDateTime -/

structure LocalDateTime where
  date : LocalDate
  time : LocalTime
  deriving DecidableEq, Repr, Inhabited

namespace LocalDateTime
def eq (a b : LocalDateTime) : Bool := LocalDate.eq a.date b.date && LocalTime.eq a.time b.time
def ne (a b : LocalDateTime) : Bool := !eq a b
/-- `compare_to`: the date comparison (which carries the calendar guard), then the time -/
def compareTo (a b : LocalDateTime) : R Int :=
  match LocalDate.compareTo a.date b.date with
  | .error e => .error e
  | .ok c => if c ≠ 0 then .ok c else LocalTime.compareTo a.time b.time
def withGuard (a b : LocalDateTime) (f : Int → Bool) : R Bool :=
  if a.date.ordinal = b.date.ordinal then
    match compareTo a b with
    | .ok c => .ok (f c)
    | .error e => .error e
  else .error .valueError
def lt (a b : LocalDateTime) : R Bool := withGuard a b (fun c => decide (c < 0))
def le (a b : LocalDateTime) : R Bool := withGuard a b (fun c => decide (c ≤ 0))
def gt (a b : LocalDateTime) : R Bool := withGuard a b (fun c => decide (c > 0))
def ge (a b : LocalDateTime) : R Bool := withGuard a b (fun c => decide (c ≥ 0))
def max (x y : LocalDateTime) : R LocalDateTime := pyMax gt x y
def min (x y : LocalDateTime) : R LocalDateTime := pyMin lt x y
/-- `_hash_code_helper(date, time, calendar)`; `calHash ord` is the identity hash of the calendar singleton -/
def hashRaw (calHash : Int → Int) (a : LocalDateTime) : Int :=
  hashHelper [LocalDate.hash a.date, LocalTime.hash a.time, calHash a.date.ordinal]
def hash (calHash : Int → Int) (a : LocalDateTime) : Int := objHash (hashRaw calHash a)
end LocalDateTime

/-! ## YearMonth: the packed first day of the month -/

structure YearMonth where
  som : Int
  deriving DecidableEq, Repr, Inhabited

namespace YearMonth
def ofFields (ord y m : Int) : YearMonth := ⟨packYMDC ord y m 1⟩
def ordinal (a : YearMonth) : Int := ymdcOrdinal a.som
def ymd (a : YearMonth) : Int := ymdcToYMD a.som
def eq (a b : YearMonth) : Bool := decide (a.som = b.som)
def ne (a b : YearMonth) : Bool := !eq a b
def trustedCompareTo (a b : YearMonth) : Int := calCompare a.ordinal a.ymd b.ymd
def lt (a b : YearMonth) : R Bool := sameCal a.ordinal b.ordinal (decide (trustedCompareTo a b < 0))
def le (a b : YearMonth) : R Bool := sameCal a.ordinal b.ordinal (decide (trustedCompareTo a b ≤ 0))
def gt (a b : YearMonth) : R Bool := sameCal a.ordinal b.ordinal (decide (trustedCompareTo a b > 0))
def ge (a b : YearMonth) : R Bool := sameCal a.ordinal b.ordinal (decide (trustedCompareTo a b ≥ 0))
def compareTo (a b : YearMonth) : R Int := sameCal a.ordinal b.ordinal (trustedCompareTo a b)
def hashRaw (a : YearMonth) : Int := objHash a.som
def hash (a : YearMonth) : Int := objHash (hashRaw a)
end YearMonth

/-! ## AnnualDate: a `_YearMonthDay` in year 1 -/

structure AnnualDate where
  value : Int
  deriving DecidableEq, Repr, Inhabited

namespace AnnualDate
def ofFields (m d : Int) : AnnualDate := ⟨packYMD 1 m d⟩
def eq (a b : AnnualDate) : Bool := decide (a.value = b.value)
def ne (a b : AnnualDate) : Bool := !eq a b
def compareTo (a b : AnnualDate) : R Int := .ok (a.value - b.value)
def lt (a b : AnnualDate) : R Bool := .ok (decide (a.value - b.value < 0))
def le (a b : AnnualDate) : R Bool := .ok (decide (a.value - b.value ≤ 0))
def gt (a b : AnnualDate) : R Bool := .ok (decide (a.value - b.value > 0))
def ge (a b : AnnualDate) : R Bool := .ok (decide (a.value - b.value ≥ 0))
def hashRaw (a : AnnualDate) : Int := objHash a.value
def hash (a : AnnualDate) : Int := objHash (hashRaw a)
end AnnualDate

/-! ## OffsetDate, OffsetTime, OffsetDateTime, ZonedDateTime: equality and hash only -/

structure OffsetDate where
  date : LocalDate
  offset : Offset
  deriving DecidableEq, Repr, Inhabited

namespace OffsetDate
def eq (a b : OffsetDate) : Bool := LocalDate.eq a.date b.date && Off.eq a.offset b.offset
def ne (a b : OffsetDate) : Bool := !eq a b
def hashRaw (a : OffsetDate) : Int := hashHelper [LocalDate.hash a.date, Off.hash a.offset]
def hash (a : OffsetDate) : Int := objHash (hashRaw a)
end OffsetDate

/-- `nanosecond_of_day | (offset_seconds << 47)` -/
structure OffsetTime where
  packed : Int
  deriving DecidableEq, Repr, Inhabited

def TWO47 : Int := 140737488355328

namespace OffsetTime
def ofFields (nanos offSeconds : Int) : OffsetTime := ⟨offSeconds * TWO47 + nanos⟩
/-- `time_of_day`: `packed & (2^47 - 1)` -/
def timeOfDay (a : OffsetTime) : LocalTime := ⟨a.packed % TWO47⟩
/-- `offset`: `packed >> 47` seconds -/
def offset (a : OffsetTime) : Offset := ⟨a.packed / TWO47⟩
def eq (a b : OffsetTime) : Bool := LocalTime.eq a.timeOfDay b.timeOfDay && Off.eq a.offset b.offset
def ne (a b : OffsetTime) : Bool := !eq a b
def hashRaw (a : OffsetTime) : Int := hashHelper [LocalTime.hash a.timeOfDay, Off.hash a.offset]
def hash (a : OffsetTime) : Int := objHash (hashRaw a)
end OffsetTime

structure OffsetDateTime where
  date : LocalDate
  ot : OffsetTime
  deriving DecidableEq, Repr, Inhabited

namespace OffsetDateTime
def eq (a b : OffsetDateTime) : Bool := LocalDate.eq a.date b.date && OffsetTime.eq a.ot b.ot
def ne (a b : OffsetDateTime) : Bool := !eq a b
def hashRaw (a : OffsetDateTime) : Int := hashHelper [LocalDate.hash a.date, OffsetTime.hash a.ot]
def hash (a : OffsetDateTime) : Int := objHash (hashRaw a)
end OffsetDateTime

/-- a zone as far as `==` can see it: fixed zones compare (offset, id, name); every other zone is compared
    by object identity (index of the singleton handed out by the provider) -/
inductive Zone where
  | fixed (offset idCode nameCode : Int)
  | other (idx : Int)
  deriving DecidableEq, Repr, Inhabited

namespace Zone
def eq : Zone → Zone → Bool
  | .fixed o i n, .fixed o' i' n' => decide (o = o') && decide (i = i') && decide (n = n')
  | .other k, .other k' => decide (k = k')
  | _, _ => false
end Zone

structure ZonedDateTime where
  odt : OffsetDateTime
  zone : Zone
  deriving DecidableEq, Repr, Inhabited

namespace ZonedDateTime
def eq (a b : ZonedDateTime) : Bool := OffsetDateTime.eq a.odt b.odt && Zone.eq a.zone b.zone
def ne (a b : ZonedDateTime) : Bool := !eq a b
end ZonedDateTime

/-! ## Interval, DateInterval, Period, ZoneInterval, fixed zones -/

structure Interval where
  start : Instant
  stop : Instant
  deriving DecidableEq, Repr, Inhabited

namespace Interval
def eq (a b : Interval) : Bool := Inst.eq a.start b.start && Inst.eq a.stop b.stop
def ne (a b : Interval) : Bool := !eq a b
def hashRaw (a : Interval) : Int := hashHelper [Inst.hash a.start, Inst.hash a.stop]
def hash (a : Interval) : Int := objHash (hashRaw a)
end Interval

structure DateInterval where
  start : LocalDate
  stop : LocalDate
  deriving DecidableEq, Repr, Inhabited

namespace DateInterval
def eq (a b : DateInterval) : Bool := LocalDate.eq a.start b.start && LocalDate.eq a.stop b.stop
def ne (a b : DateInterval) : Bool := !eq a b
def hashRaw (a : DateInterval) : Int := hashHelper [LocalDate.hash a.start, LocalDate.hash a.stop]
def hash (a : DateInterval) : Int := objHash (hashRaw a)
end DateInterval

structure Period where
  years : Int
  months : Int
  weeks : Int
  days : Int
  hours : Int
  minutes : Int
  seconds : Int
  milliseconds : Int
  ticks : Int
  nanoseconds : Int
  deriving DecidableEq, Repr, Inhabited

namespace Period
def toList (p : Period) : List Int :=
  [p.years, p.months, p.weeks, p.days, p.hours, p.minutes, p.seconds, p.milliseconds, p.ticks, p.nanoseconds]
def eq (a b : Period) : Bool :=
  decide (a.years = b.years) && decide (a.months = b.months) && decide (a.weeks = b.weeks) && decide (a.days = b.days)
  && decide (a.hours = b.hours) && decide (a.minutes = b.minutes) && decide (a.seconds = b.seconds)
  && decide (a.milliseconds = b.milliseconds) && decide (a.ticks = b.ticks) && decide (a.nanoseconds = b.nanoseconds)
def ne (a b : Period) : Bool := !eq a b
/-- `hash((years, …, nanoseconds))`: the built-in tuple hash, a parameter -/
def hash (tupleHash : List Int → Int) (a : Period) : Int := objHash (tupleHash a.toList)
end Period

structure ZoneInterval where
  nameCode : Int
  rawStart : Instant
  rawEnd : Instant
  wall : Offset
  savings : Offset
  deriving DecidableEq, Repr, Inhabited

namespace ZoneInterval
def eq (a b : ZoneInterval) : Bool :=
  decide (a.nameCode = b.nameCode) && Inst.eq a.rawStart b.rawStart && Inst.eq a.rawEnd b.rawEnd
  && Off.eq a.wall b.wall && Off.eq a.savings b.savings
def ne (a b : ZoneInterval) : Bool := !eq a b
def hashRaw (strHash : Int → Int) (a : ZoneInterval) : Int :=
  hashHelper [strHash a.nameCode, Inst.hash a.rawStart, Inst.hash a.rawEnd, Off.hash a.wall, Off.hash a.savings]
def hash (strHash : Int → Int) (a : ZoneInterval) : Int := objHash (hashRaw strHash a)
end ZoneInterval

structure FixedZone where
  offset : Offset
  idCode : Int
  nameCode : Int
  deriving DecidableEq, Repr, Inhabited

namespace FixedZone
def eq (a b : FixedZone) : Bool :=
  Off.eq a.offset b.offset && decide (a.idCode = b.idCode) && decide (a.nameCode = b.nameCode)
def ne (a b : FixedZone) : Bool := !eq a b
def hashRaw (strHash : Int → Int) (a : FixedZone) : Int :=
  hashHelper [Off.hash a.offset, strHash a.idCode, strHash a.nameCode]
def hash (strHash : Int → Int) (a : FixedZone) : Int := objHash (hashRaw strHash a)
end FixedZone

/-! ## line protocol: `tri.<type> <3·n ints>` -/

def showB : R Bool → String
  | .ok true => "1"
  | .ok false => "0"
  | .error .valueError => "E"
  | .error .typeError => "T"
  | .error e => "!" ++ e.name

def showSign : R Int → String
  | .ok c => if c < 0 then "-1" else if c > 0 then "1" else "0"
  | .error .valueError => "E"
  | .error .typeError => "T"
  | .error e => "!" ++ e.name

/-- index of a min/max result: `0` if it equals the first argument, else `1` -/
def showIdx {α} (eq : α → α → Bool) (x : α) : R α → String
  | .ok r => if eq r x then "0" else "1"
  | .error .valueError => "E"
  | .error .typeError => "T"
  | .error e => "!" ++ e.name

structure TyOps (α : Type) where
  eq : α → α → Bool
  ne : α → α → Bool
  ord : Option ((α → α → R Bool) × (α → α → R Bool) × (α → α → R Bool) × (α → α → R Bool) × (α → α → R Int))
  minmax : Option ((α → α → R α) × (α → α → R α))
  hash : Option (α → Int)

def pairReply {α} (o : TyOps α) (x y : α) : String :=
  let base := [showBool (o.eq x y), showBool (o.ne x y)]
  let ord := match o.ord with
    | some (lt, le, gt, ge, cmp) => [showB (lt x y), showB (le x y), showB (gt x y), showB (ge x y), showSign (cmp x y)]
    | none => []
  let mm := match o.minmax with
    | some (mn, mx) => [showIdx o.eq x (mn x y), showIdx o.eq x (mx x y)]
    | none => []
  " ".intercalate (base ++ ord ++ mm)

def triReply {α} (o : TyOps α) (a b c : α) : String :=
  let s := " ; ".intercalate [pairReply o a b, pairReply o b c, pairReply o a c, pairReply o b a]
  match o.hash with
  | some h => s ++ " # " ++ " ".intercalate [toString (h a), toString (h b), toString (h c)]
  | none => s

def durOps : TyOps Duration :=
  ⟨Dur.eq, Dur.ne, some (Dur.lt, Dur.le, Dur.gt, Dur.ge, Dur.compareTo), some (Dur.min, Dur.max), some Dur.hash⟩
def instOps : TyOps Instant :=
  ⟨Inst.eq, Inst.ne, some (Inst.lt, Inst.le, Inst.gt, Inst.ge, Inst.compareTo), some (Inst.min, Inst.max), some Inst.hash⟩
def offOps : TyOps Offset :=
  ⟨Off.eq, Off.ne, some (Off.lt, Off.le, Off.gt, Off.ge, Off.compareTo), some (Off.min, Off.max), some Off.hash⟩
def ltOps : TyOps LocalTime :=
  ⟨LocalTime.eq, LocalTime.ne, some (LocalTime.lt, LocalTime.le, LocalTime.gt, LocalTime.ge, LocalTime.compareTo),
   some (LocalTime.min, LocalTime.max), some LocalTime.hash⟩
def ldOps : TyOps LocalDate :=
  ⟨LocalDate.eq, LocalDate.ne, some (LocalDate.lt, LocalDate.le, LocalDate.gt, LocalDate.ge, LocalDate.compareTo),
   some (LocalDate.min, LocalDate.max), some LocalDate.hash⟩
def ldtOps : TyOps LocalDateTime :=
  ⟨LocalDateTime.eq, LocalDateTime.ne,
   some (LocalDateTime.lt, LocalDateTime.le, LocalDateTime.gt, LocalDateTime.ge, LocalDateTime.compareTo),
   some (LocalDateTime.min, LocalDateTime.max), none⟩
def ymOps : TyOps YearMonth :=
  ⟨YearMonth.eq, YearMonth.ne, some (YearMonth.lt, YearMonth.le, YearMonth.gt, YearMonth.ge, YearMonth.compareTo),
   none, some YearMonth.hash⟩
def adOps : TyOps AnnualDate :=
  ⟨AnnualDate.eq, AnnualDate.ne, some (AnnualDate.lt, AnnualDate.le, AnnualDate.gt, AnnualDate.ge, AnnualDate.compareTo),
   none, some AnnualDate.hash⟩
def odOps : TyOps OffsetDate := ⟨OffsetDate.eq, OffsetDate.ne, none, none, some OffsetDate.hash⟩
def otOps : TyOps OffsetTime := ⟨OffsetTime.eq, OffsetTime.ne, none, none, some OffsetTime.hash⟩
def odtOps : TyOps OffsetDateTime := ⟨OffsetDateTime.eq, OffsetDateTime.ne, none, none, some OffsetDateTime.hash⟩
def zdtOps : TyOps ZonedDateTime := ⟨ZonedDateTime.eq, ZonedDateTime.ne, none, none, none⟩
def ivOps : TyOps Interval := ⟨Interval.eq, Interval.ne, none, none, some Interval.hash⟩
def divOps : TyOps DateInterval := ⟨DateInterval.eq, DateInterval.ne, none, none, some DateInterval.hash⟩
def perOps : TyOps Period := ⟨Period.eq, Period.ne, none, none, none⟩
def ziOps : TyOps ZoneInterval := ⟨ZoneInterval.eq, ZoneInterval.ne, none, none, none⟩
def fzOps : TyOps FixedZone := ⟨FixedZone.eq, FixedZone.ne, none, none, none⟩

/-- an optional instant of the protocol (`has days nod`): absent start = `Instant._before_min_value()`,
    absent end = `Instant._after_max_value()` -/
def optInstant (isEnd : Bool) (has d n : Int) : Instant :=
  if has = 0 then ⟨⟨if isEnd then Duration.MAX_DAYS else Duration.MIN_DAYS, 0⟩⟩ else ⟨⟨d, n⟩⟩

def decDur : List Int → Option Duration | [d, n] => some ⟨d, n⟩ | _ => none
def decInst : List Int → Option Instant | [d, n] => some ⟨⟨d, n⟩⟩ | _ => none
def decOff : List Int → Option Offset | [s] => some ⟨s⟩ | _ => none
def decLt : List Int → Option LocalTime | [n] => some ⟨n⟩ | _ => none
def decLd : List Int → Option LocalDate | [o, y, m, d] => some (LocalDate.ofFields o y m d) | _ => none
def decLdt : List Int → Option LocalDateTime
  | [o, y, m, d, n] => some ⟨LocalDate.ofFields o y m d, ⟨n⟩⟩ | _ => none
def decYm : List Int → Option YearMonth | [o, y, m] => some (YearMonth.ofFields o y m) | _ => none
def decAd : List Int → Option AnnualDate | [m, d] => some (AnnualDate.ofFields m d) | _ => none
def decOd : List Int → Option OffsetDate
  | [o, y, m, d, s] => some ⟨LocalDate.ofFields o y m d, ⟨s⟩⟩ | _ => none
def decOt : List Int → Option OffsetTime | [n, s] => some (OffsetTime.ofFields n s) | _ => none
def decOdt : List Int → Option OffsetDateTime
  | [o, y, m, d, n, s] => some ⟨LocalDate.ofFields o y m d, OffsetTime.ofFields n s⟩ | _ => none
def decZone (k a b c : Int) : Zone := if k = 0 then .fixed a b c else .other a
def decZdt : List Int → Option ZonedDateTime
  | [o, y, m, d, n, s, k, a, b, c] => some ⟨⟨LocalDate.ofFields o y m d, OffsetTime.ofFields n s⟩, decZone k a b c⟩
  | _ => none
def decIv : List Int → Option Interval
  | [hs, sd, sn, he, ed, en] => some ⟨optInstant false hs sd sn, optInstant true he ed en⟩ | _ => none
def decDiv : List Int → Option DateInterval
  | [o, y, m, d, y2, m2, d2] => some ⟨LocalDate.ofFields o y m d, LocalDate.ofFields o y2 m2 d2⟩ | _ => none
def decPer : List Int → Option Period
  | [a, b, c, d, e, f, g, h, i, j] => some ⟨a, b, c, d, e, f, g, h, i, j⟩ | _ => none
def decZi : List Int → Option ZoneInterval
  | [nm, hs, sd, sn, he, ed, en, w, s] => some ⟨nm, optInstant false hs sd sn, optInstant true he ed en, ⟨w⟩, ⟨s⟩⟩
  | _ => none
def decFz : List Int → Option FixedZone | [o, i, n] => some ⟨⟨o⟩, i, n⟩ | _ => none

def tri {α} (ops : TyOps α) (dec : List Int → Option α) (n : Nat) (l : List Int) : Option String :=
  if l.length = 3 * n then do
    let a ← dec (l.take n)
    let b ← dec ((l.drop n).take n)
    let c ← dec (l.drop (2 * n))
    some (triReply ops a b c)
  else none

def handle (toks : List String) : Option String :=
  match toks with
  | op :: rest =>
    if op.startsWith "tri." then do
      let l ← parseInts? rest
      match (op.drop 4).toString with
      | "dur" => tri durOps decDur 2 l
      | "inst" => tri instOps decInst 2 l
      | "off" => tri offOps decOff 1 l
      | "lt" => tri ltOps decLt 1 l
      | "ld" => tri ldOps decLd 4 l
      | "ldt" => tri ldtOps decLdt 5 l
      | "ym" => tri ymOps decYm 3 l
      | "ad" => tri adOps decAd 2 l
      | "od" => tri odOps decOd 5 l
      | "ot" => tri otOps decOt 2 l
      | "odt" => tri odtOps decOdt 6 l
      | "zdt" => tri zdtOps decZdt 10 l
      | "iv" => tri ivOps decIv 6 l
      | "div" => tri divOps decDiv 7 l
      | "per" => tri perOps decPer 10 l
      | "zi" => tri ziOps decZi 9 l
      | "fz" => tri fzOps decFz 3 l
      | _ => none
    else none
  | _ => none

end Pyoda.Compare
