/- PyodaModel.Intervals — placeholder until the area is modelled. -/
import PyodaModel.Prelude

namespace Pyoda.Intervals

def handle (_toks : List String) : Option String := none

end Pyoda.Intervals
