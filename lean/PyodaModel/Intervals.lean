/-
  PyodaModel.Intervals — DateInterval (pyoda_time/_date_interval.py) and Interval (pyoda_time/_interval.py).

  A `LocalDate` enters the model as (calendar ordinal, day number since the Unix epoch); the order of
  dates of one calendar is the order of their day numbers (`LocalDate.__trusted_compare_to`; tied to the
  code by the harness oracle, and by C01 for the calendars themselves).  Comparing dates of different
  calendars raises `ValueError`, as `_Preconditions._check_argument` does.
  `DateInterval.__iter__` calls `start.plus_days(k)`; its range check is not modelled (every date it
  builds lies between `start` and `end`, both valid dates).
  Instants are the `Instant` of PyodaModel.Elapsed, including the two sentinels
  `Instant._before_min_value()` / `_after_max_value()`.
  `YearMonth.to_date_interval` (pyoda_time/_year_month.py) is modelled over the calendar descriptions (`Calc`) of
  PyodaModel.Calendar: constructor validation, the unvalidated start date, the validated end date, then
  `DateInterval.__init__`.
-/
import PyodaModel.Prelude
import PyodaModel.Elapsed
import PyodaModel.Calendar

namespace Pyoda.Intervals
open Pyoda

structure LDate where
  cal : Nat
  day : Int
  deriving DecidableEq, Repr, Inhabited

namespace LDate
/-- `LocalDate.__lt__` -/
def lt (a b : LDate) : R Bool :=
  if a.cal ≠ b.cal then .error .valueError else .ok (decide (a.day < b.day))
/-- `LocalDate.__le__` -/
def le (a b : LDate) : R Bool :=
  if a.cal ≠ b.cal then .error .valueError else .ok (decide (a.day ≤ b.day))
/-- `LocalDate.__gt__` -/
def gt (a b : LDate) : R Bool :=
  if a.cal ≠ b.cal then .error .valueError else .ok (decide (a.day > b.day))
/-- `LocalDate.min(x, y)`: calendar check, then Python `min(x, y)` (= `y if y < x else x`). -/
def min (x y : LDate) : R LDate :=
  if x.cal ≠ y.cal then .error .valueError else do
    let b ← lt y x
    .ok (if b then y else x)
/-- `LocalDate.max(x, y)`: calendar check, then Python `max(x, y)` (= `y if y > x else x`). -/
def max (x y : LDate) : R LDate :=
  if x.cal ≠ y.cal then .error .valueError else do
    let b ← gt y x
    .ok (if b then y else x)
/-- `Period.days_between(start, end)` -/
def daysBetween (a b : LDate) : R Int :=
  if a.cal ≠ b.cal then .error .valueError else .ok (b.day - a.day)
end LDate

structure DateInterval where
  s : LDate
  e : LDate
  deriving DecidableEq, Repr, Inhabited

namespace DateInterval

/-- `DateInterval.__init__` -/
def new (s e : LDate) : R DateInterval :=
  if s.cal ≠ e.cal then .error .valueError else do
    let b ← LDate.lt e s
    if b then .error .valueError else .ok ⟨s, e⟩

/-- `__contains__(LocalDate)`: chained comparison `start <= item <= end` (short-circuits). -/
def containsDate (I : DateInterval) (d : LDate) : R Bool :=
  if d.cal ≠ I.s.cal then .error .valueError else do
    let a ← LDate.le I.s d
    if a then LDate.le d I.e else .ok false

/-- `__contains__(DateInterval)`: `__validate_interval`, then `start <= item.start and item.end <= end`. -/
def containsInterval (I J : DateInterval) : R Bool :=
  if J.s.cal ≠ I.s.cal then .error .valueError else do
    let a ← LDate.le I.s J.s
    if a then LDate.le J.e I.e else .ok false

/-- `__len__`: `Period._internal_days_between(start, end) + 1` -/
def len (I : DateInterval) : Int := (I.e.day - I.s.day) + 1

/-- `__eq__` -/
def beq (I J : DateInterval) : Bool := decide (I.s = J.s) && decide (I.e = J.e)

/-- `__and__` -/
def inter (A B : DateInterval) : R (Option DateInterval) := do
  let b1 ← containsInterval A B
  if b1 then .ok (some B) else
  let b2 ← containsInterval B A
  if b2 then .ok (some A) else
  let b3 ← containsDate B A.s
  if b3 then (do let r ← new A.s B.e; .ok (some r)) else
  let b4 ← containsDate B A.e
  if b4 then (do let r ← new B.s A.e; .ok (some r)) else
  .ok none

/-- `__or__` -/
def union (A B : DateInterval) : R (Option DateInterval) :=
  if B.s.cal ≠ A.s.cal then .error .valueError else do
    let st ← LDate.min A.s B.s
    let en ← LDate.max A.e B.e
    let db ← LDate.daysBetween st en
    if db ≥ len A + len B then .ok none else do
      let r ← new st en
      .ok (some r)

/-- `__iter__`: `k = 0; while (date := start.plus_days(k)) != end: yield date; k += 1` then `yield end`.
    `fuel` bounds the number of loop tests; running out of fuel is `.error .other` (non-termination). -/
def iterLoop (I : DateInterval) : Nat → Int → R (List LDate)
  | 0, _ => .error .other
  | fuel + 1, k =>
    let date : LDate := ⟨I.s.cal, I.s.day + k⟩
    if date = I.e then .ok [I.e] else do
      let rest ← iterLoop I fuel (k + 1)
      .ok (date :: rest)

def iter (I : DateInterval) (fuel : Nat) : R (List LDate) := iterLoop I fuel 0

end DateInterval

/-! ## YearMonth.to_date_interval -/

namespace YearMonth
open Pyoda.Calendar

/-- `YearMonth(year=y, month=m, calendar=…)`: `calendar._validate_year_month_day(year, month, 1)`; the value keeps
    (year, month, day 1, ordinal). -/
def new (ord : Nat) (c : Calc) (y m : Int) : R (Int × Int) := do
  validateOrd ord c y m 1
  pure (y, m)

/-- `_start_date._days_since_epoch`: `LocalDate._ctor(year_month_day_calendar=start_of_month)` does not validate;
    the day number is `calendar._get_days_since_epoch` (Gregorian: month-start table for 1900–2100). -/
def startDay (ord : Nat) (c : Calc) (y m : Int) : R Int :=
  if ord ≤ 1 then Greg.daysOfYmdFast y m 1 else daysOfYmdRaw c y m 1

/-- `_end_date`: `LocalDate(year, month, calendar.get_days_in_month(year, month), calendar)` — validated. -/
def endDay (ord : Nat) (c : Calc) (y m : Int) : R Int := daysOrd ord c y m (c.dim y m)

/-- `YearMonth(year=y, month=m, calendar=c).to_date_interval()` = `DateInterval(_start_date, _end_date)` -/
def toDateInterval (ord : Nat) (c : Calc) (y m : Int) : R DateInterval := do
  let (y, m) ← new ord c y m
  let s ← startDay ord c y m
  let e ← endDay ord c y m
  DateInterval.new ⟨ord, s⟩ ⟨ord, e⟩

end YearMonth

/-! ## Interval -/

structure Interval where
  s : Instant
  e : Instant
  deriving DecidableEq, Repr, Inhabited

namespace Interval

/-- `Interval.__init__(start, end)`; `none` = Python `None`. -/
def new (s e : Option Instant) : R Interval :=
  let s' := match s with | none => Instant.beforeMin | some x => x
  let e' := match e with | none => Instant.afterMax | some x => x
  if Duration.lt e'.dur s'.dur then .error .valueError else .ok ⟨s', e'⟩

def hasStart (I : Interval) : Bool := I.s.isValid
def hasEnd (I : Interval) : Bool := I.e.isValid
/-- `start`: `_check_state(self.__start._is_valid, …)` raises `RuntimeError`. -/
def start (I : Interval) : R Instant := if I.s.isValid then .ok I.s else .error .runtimeError
def «end» (I : Interval) : R Instant := if I.e.isValid then .ok I.e else .error .runtimeError
/-- `duration`: `self.end - self.start` (the end is evaluated first) -/
def duration (I : Interval) : R Duration := do
  let e ← I.end
  let s ← I.start
  Instant.minus e s
/-- `__contains__`: `start <= instant < end` -/
def contains (I : Interval) (t : Instant) : Bool := Duration.le I.s.dur t.dur && Duration.lt t.dur I.e.dur
/-- `__iter__`: the two optional bounds -/
def bounds (I : Interval) : Option Instant × Option Instant :=
  (if I.s.isValid then some I.s else none, if I.e.isValid then some I.e else none)
/-- `__eq__` -/
def beq (I J : Interval) : Bool := Duration.beq I.s.dur J.s.dur && Duration.beq I.e.dur J.e.dur

end Interval

/-! ## line protocol -/

def showDI : R (Option DateInterval) → String :=
  showR (fun o => match o with
    | none => "none"
    | some I => showInts [I.s.cal, I.s.day, I.e.cal, I.e.day])

def showB : R Bool → String := showR showBool

def showOptInst : Option Instant → String
  | none => "none"
  | some i => showInts [i.dur.days, i.dur.nod]

def mkBound (h d n : Int) : Option (Option Instant) :=
  if h = 1 then some (some ⟨⟨d, n⟩⟩) else if h = 0 then some none else none

def withDI (l : List Int) : Option (DateInterval × List Int) :=
  match l with
  | c1 :: s :: c2 :: e :: rest =>
    if c1 < 0 ∨ c2 < 0 then none else some (⟨⟨c1.toNat, s⟩, ⟨c2.toNat, e⟩⟩, rest)
  | _ => none

def withIv (l : List Int) : Option (R Interval × List Int) :=
  match l with
  | hs :: sd :: sn :: he :: ed :: en :: rest => do
    let s ← mkBound hs sd sn
    let e ← mkBound he ed en
    some (Interval.new s e, rest)
  | _ => none

def ivProps (I : Interval) : String :=
  " ".intercalate [showBool I.hasStart, showBool I.hasEnd,
    showR (fun i => showInts [i.dur.days, i.dur.nod]) I.start,
    showR (fun i => showInts [i.dur.days, i.dur.nod]) I.end,
    showR (fun d => showInts [d.days, d.nod]) I.duration,
    showOptInst I.bounds.1, showOptInst I.bounds.2]

/-- Ops (dates are `cal day`, intervals `cal start cal end` built WITHOUT the constructor check only in
    `di.new`; every other op first builds its intervals with `DateInterval.new` and replies with its error):
    `di.new c1 s c2 e`, `di.cont I c d`, `di.sub I J`, `di.len I`, `di.iter I`, `di.and I J`, `di.or I J`,
    `di.eq I J`; `ym.interval c y m` (→ `c start c end`, through `YearMonth.toDateInterval`); `iv.new B B`, `iv.props B B`, `iv.cont B B d n`, `iv.eq B B B B` with `B = has days nod`. -/
def handle (toks : List String) : Option String :=
  match toks with
  | op :: args => do
    let l ← parseInts? args
    match op with
    | "di.new" => do
      let (I, rest) ← withDI l
      if rest ≠ [] then none else
      some (showR (fun J => showInts [J.s.cal, J.s.day, J.e.cal, J.e.day]) (DateInterval.new I.s I.e))
    | "di.cont" => do
      let (I, rest) ← withDI l
      match rest with
      | [c, d] => if c < 0 then none else
        some (showB (do let I ← DateInterval.new I.s I.e; I.containsDate ⟨c.toNat, d⟩))
      | _ => none
    | "di.sub" => do
      let (I, rest) ← withDI l
      let (J, rest) ← withDI rest
      if rest ≠ [] then none else
      some (showB (do let I ← DateInterval.new I.s I.e; let J ← DateInterval.new J.s J.e; I.containsInterval J))
    | "di.len" => do
      let (I, rest) ← withDI l
      if rest ≠ [] then none else
      some (showR toString (do let I ← DateInterval.new I.s I.e; .ok I.len))
    | "di.iter" => do
      let (I, rest) ← withDI l
      if rest ≠ [] then none else
      some (showR (fun (l : List LDate) => showInts (l.map (·.day)))
        (do let I ← DateInterval.new I.s I.e; I.iter (I.len.toNat + 1)))
    | "di.and" => do
      let (I, rest) ← withDI l
      let (J, rest) ← withDI rest
      if rest ≠ [] then none else
      some (showDI (do let I ← DateInterval.new I.s I.e; let J ← DateInterval.new J.s J.e; I.inter J))
    | "di.or" => do
      let (I, rest) ← withDI l
      let (J, rest) ← withDI rest
      if rest ≠ [] then none else
      some (showDI (do let I ← DateInterval.new I.s I.e; let J ← DateInterval.new J.s J.e; I.union J))
    | "di.eq" => do
      let (I, rest) ← withDI l
      let (J, rest) ← withDI rest
      if rest ≠ [] then none else
      some (showB (do let I ← DateInterval.new I.s I.e; let J ← DateInterval.new J.s J.e; .ok (I.beq J)))
    | "ym.interval" =>
      match l with
      | [o, y, m] => if o < 0 then none else do
        let c ← Calendar.calcOf o.toNat
        some (showR (fun J => showInts [J.s.cal, J.s.day, J.e.cal, J.e.day]) (YearMonth.toDateInterval o.toNat c y m))
      | _ => none
    | "iv.new" => do
      let (I, rest) ← withIv l
      if rest ≠ [] then none else
      some (showR (fun I => showInts [I.s.dur.days, I.s.dur.nod, I.e.dur.days, I.e.dur.nod]) I)
    | "iv.props" => do
      let (I, rest) ← withIv l
      if rest ≠ [] then none else some (showR ivProps I)
    | "iv.cont" => do
      let (I, rest) ← withIv l
      match rest with
      | [d, n] => some (showB (do let I ← I; .ok (I.contains ⟨⟨d, n⟩⟩)))
      | _ => none
    | "iv.eq" => do
      let (I, rest) ← withIv l
      let (J, rest) ← withIv rest
      if rest ≠ [] then none else
      some (showB (do let I ← I; let J ← J; .ok (I.beq J)))
    | _ => none
  | _ => none

end Pyoda.Intervals
