/-
  PyodaModel.ZoneData — plain data carried by the time-zone classes, field for field.
  Shared by the Codec area (reader/writer model) and the Zone area (interval lookup).

  * `ZoneInterval`            ↔ pyoda_time/time_zones/_zone_interval.py
  * `ZoneYearOffset`          ↔ _zone_year_offset.py
  * `ZoneRecurrence`          ↔ _zone_recurrence.py
  * `AlternatingMap`          ↔ _standard_daylight_alternating_map.py
  * `PrecalculatedZone`       ↔ _precalculated_date_time_zone.py
  * `FixedZone`               ↔ _fixed_date_time_zone.py

  Strings are their UTF-8 encodings (`List Nat`, every element < 256): `str.encode()` is injective on
  strings without lone surrogates, so string equality is byte equality.
  Instants are `Pyoda.Instant` (days since the Unix epoch, nanosecond of day); the two sentinels
  `Instant._before_min_value()` / `_after_max_value()` are `Instant.beforeMin` / `Instant.afterMax`
  (days = `Duration.MIN_DAYS` / `MAX_DAYS`, nanosecond 0), exactly as in the code.
-/
import PyodaModel.Elapsed

namespace Pyoda

abbrev Bytes := List Nat
/-- a Python `str`, as its UTF-8 bytes -/
abbrev Str := List Nat

/-- `ZoneInterval(name=, start=, end=, wall_offset=, savings=)`; `start`/`end` are the *raw* bounds. -/
structure ZoneInterval where
  name : Str
  rawStart : Instant
  rawEnd : Instant
  wall : Offset
  savings : Offset
  deriving DecidableEq, Repr, Inhabited

/-- `_TransitionMode`: UTC = 0, WALL = 1, STANDARD = 2 -/
inductive TransitionMode where
  | utc | wall | standard
  deriving DecidableEq, Repr, Inhabited

def TransitionMode.toNat : TransitionMode → Nat
  | .utc => 0 | .wall => 1 | .standard => 2

def TransitionMode.ofNat? : Nat → Option TransitionMode
  | 0 => some .utc | 1 => some .wall | 2 => some .standard | _ => none

/-- `_ZoneYearOffset` (fields in `_ctor` order). `timeOfDay` = `LocalTime.nanosecond_of_day`. -/
structure ZoneYearOffset where
  mode : TransitionMode
  monthOfYear : Int
  dayOfMonth : Int
  dayOfWeek : Int
  advance : Bool
  timeOfDay : Int
  addDay : Bool
  deriving DecidableEq, Repr, Inhabited

/-- `INT_MIN_VALUE` / `INT_MAX_VALUE` of `_CsharpConstants` (the "infinite" years) -/
def INT_MIN : Int := -2147483648
def INT_MAX : Int := 2147483647

/-- `_ZoneRecurrence(name, savings, year_offset, from_year, to_year)` -/
structure ZoneRecurrence where
  name : Str
  savings : Offset
  yearOffset : ZoneYearOffset
  fromYear : Int
  toYear : Int
  deriving DecidableEq, Repr, Inhabited

/-- `_to_start_of_time` -/
def ZoneRecurrence.toStartOfTime (z : ZoneRecurrence) : ZoneRecurrence := { z with fromYear := INT_MIN }

/-- `is_infinite` -/
def ZoneRecurrence.isInfinite (z : ZoneRecurrence) : Bool := z.toYear = INT_MAX

/-- `_StandardDaylightAlternatingMap` (after `_ctor` has sorted the two recurrences) -/
structure AlternatingMap where
  standardOffset : Offset
  standardRecurrence : ZoneRecurrence
  dstRecurrence : ZoneRecurrence
  deriving DecidableEq, Repr, Inhabited

/-- `_PrecalculatedDateTimeZone(id_, intervals, tail_zone)`; `tailZoneStart = intervals[-1]._raw_end` is derived. -/
structure PrecalculatedZone where
  id : Str
  periods : List ZoneInterval
  tailZone : Option AlternatingMap
  deriving DecidableEq, Repr, Inhabited

/-- `_FixedDateTimeZone(offset, id_, name)` -/
structure FixedZone where
  id : Str
  offset : Offset
  name : Str
  deriving DecidableEq, Repr, Inhabited

inductive ZoneValue where
  | fixed (z : FixedZone)
  | precalculated (z : PrecalculatedZone)
  deriving DecidableEq, Repr, Inhabited

/-- `periods[-1]._raw_end` (`IndexError` on an empty list) -/
def PrecalculatedZone.tailZoneStart (z : PrecalculatedZone) : R Instant :=
  match z.periods.getLast? with
  | some p => .ok p.rawEnd
  | none => .error .indexError

end Pyoda
