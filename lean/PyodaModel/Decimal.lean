/-
  `_towards_zero_division(x, y) = int((Decimal(x) / Decimal(y)).quantize(0, ROUND_DOWN))`
  (pyoda_time/utility/_csharp_compatibility.py) for integer operands, under CPython's default decimal context
  (precision 28, ROUND_HALF_EVEN, traps InvalidOperation / DivisionByZero):

  * `Decimal(x)` of an int is exact;
  * `/` rounds the exact quotient to 28 SIGNIFICANT digits, half-even;
  * `quantize(0, ROUND_DOWN)` truncates that rounded value to an integer and raises InvalidOperation when the
    integer needs more than 28 digits.

  So the result is NOT always the truncated quotient: a fraction of 0.99999… can be rounded up into the integer
  part first, 28-digit quotients are rounded half-even, longer ones raise. `pyTdivFull` models all of that;
  `Prelude.pyTdiv` is its restriction to operands below 10^27, where PyodaProofs.Decimal proves the result is exact
  truncation (`pyTdivFull_exact`, `pyTdiv_refines_full`).
-/
import PyodaModel.Prelude

namespace Pyoda.Decimal
open Pyoda

/-- number of decimal digits of `n` (0 for 0) -/
def digits (n : Nat) : Nat :=
  if h : n = 0 then 0 else 1 + digits (n / 10)
decreasing_by omega

/-- precision of the default decimal context -/
def prec : Nat := 28

/-- magnitude of the result for magnitudes `a`, `b > 0`; `none` = InvalidOperation -/
def tdivMag (a b : Nat) : Option Nat :=
  let n := a / b
  if n ≥ 10 ^ prec then none
  else
    let s := prec - digits n
    let num := a * 10 ^ s
    let qq := num / b
    let rem := num % b
    let qq' := if 2 * rem > b ∨ (2 * rem = b ∧ qq % 2 = 1) then qq + 1 else qq
    let r := qq' / 10 ^ s
    if r ≥ 10 ^ prec then none else some r

/-- `_towards_zero_division(x, y)` for integer operands of any size -/
def pyTdivFull (x y : Int) : R Int :=
  if y = 0 then (if x = 0 then .error .decimalDomain else .error .zeroDivision)
  else
    match tdivMag x.natAbs y.natAbs with
    | none => .error .decimalDomain
    | some r => .ok (if (x < 0) = (y < 0) then (r : Int) else -(r : Int))

def handle (toks : List String) : Option String :=
  match toks with
  | ["tdivfull", x, y] => do let x ← parseInt? x; let y ← parseInt? y; some (showR (fun (v : Int) => toString v) (pyTdivFull x y))
  | _ => none

end Pyoda.Decimal
