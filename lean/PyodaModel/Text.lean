/-
  PyodaModel.Text — the modelled subset of the text engine (area "Text", properties C07, C08, C17):
  numeric primitives (`Text/Numeric.lean`), the built-in ISO patterns (`Text/Iso.lean`), the standard
  library's ISO writers (`Text/PyIso.lean`), the generic stepped-pattern engine (`Text/PatternCursor`, `Stepped`,
  `Compile`, `Engine`, `Buckets`, `Delimited`, `WellFormed`; ops `pcur.*`, `pat.*`, `cu.*` in `Text/PatHandle.lean`) for
  LocalTime, LocalDate, Offset, LocalDateTime (incl. embedded `ld<…>`/`lt<…>` patterns), AnnualDate, Duration and
  Instant patterns, and the line-protocol handler.

  Ops (text arguments are lower-case hex of the UTF-8 encoding, `-` = empty):
    num.pad v n | num.pad2 v | num.pad4 v | num.frac v len scale | num.fract v len scale bufHex   → textHex
    num.digits textHex min max | num.fraction textHex max scale min | num.int64 textHex  → ok value index | fail
    iso.fmt <kind> fields…   → textHex
    iso.parse <kind> textHex → ok fields… | fail | !err
    iso.fmt@ <kind> otherPatternHex fields… | iso.parse@ <kind> otherPatternHex textHex   (same answers: see `handle`)
    pyiso.date y m d | pyiso.time microsecondOfDay | pyiso.offset seconds → textHex
    inst.fmt / inst.parse: the Instant adapter over day number and nanosecond of day (`Text/InstantAdapter.lean`)
  kinds: date (y m d) | time, timelong, timegen (nanosecond of day) | dt, dtgen, dtbcl, inst, instgen (y m d nod)
         | off, offz (seconds)
-/
import PyodaModel.Prelude
import PyodaModel.Text.Numeric
import PyodaModel.Text.Iso
import PyodaModel.Text.PyIso
import PyodaModel.Text.PatHandle
import PyodaModel.Text.InstantAdapter

namespace Pyoda.Text

def decodeText (h : String) : Option Text := do
  let bs ← parseHex? h
  let s ← String.fromUTF8? (ByteArray.mk (bs.map UInt8.ofNat).toArray)
  pure s.toList

def encodeText (t : Text) : String :=
  showHex ((String.ofList t).toUTF8.toList.map (·.toNat))

def showScan (total : Nat) : Option (Int × Text) → String
  | none => "fail"
  | some (v, rest) => s!"ok {v} {total - rest.length}"

def showScanN (total : Nat) : Option (Nat × Text) → String
  | none => "fail"
  | some (v, rest) => s!"ok {v} {total - rest.length}"

def showParse {α} (f : α → String) : R (Option α) → String
  | .error e => "!" ++ e.name
  | .ok none => "fail"
  | .ok (some v) => "ok " ++ f v

def show3 (v : Int × Int × Int) : String := showInts [v.1, v.2.1, v.2.2]
def show4 (v : Int × Int × Int × Int) : String := showInts [v.1, v.2.1, v.2.2.1, v.2.2.2]

def decLim : Int := 1000000000000000000000000000

def isoFmt (kind : String) (a : List Int) : Option String :=
  match kind, a with
  | "date", [y, m, d] => some (encodeText (fmtIsoDate y m d))
  | "time", [n] => some (encodeText (fmtIsoTime n))
  | "timelong", [n] => some (encodeText (fmtIsoTimeLong n))
  | "timegen", [n] => some (encodeText (fmtIsoTimeGeneral n))
  | "dt", [y, m, d, n] => some (encodeText (fmtIsoDateTime y m d n))
  | "dtgen", [y, m, d, n] => some (encodeText (fmtIsoDateTimeGeneral y m d n))
  | "dtbcl", [y, m, d, n] => some (encodeText (fmtIsoDateTimeBcl y m d n))
  | "inst", [y, m, d, n] => some (encodeText (fmtIsoInstant y m d n))
  | "instgen", [y, m, d, n] => some (encodeText (fmtInstantGeneral y m d n))
  | "off", [s] => some (encodeText (fmtOffG s))
  | "offz", [s] => some (encodeText (fmtOffGZ s))
  | _, _ => none

def isoParse (kind : String) (t : Text) : Option String :=
  match kind with
  | "date" => some (showParse show3 (parseIsoDate t))
  | "time" => some (showParse toString (parseIsoTime t))
  | "timelong" => some (showParse toString (parseIsoTimeLong t))
  | "timegen" => some (showParse toString (parseIsoTimeGeneral t))
  | "dt" => some (showParse show4 (parseIsoDateTime t))
  | "dtgen" => some (showParse show4 (parseIsoDateTimeGeneral t))
  | "dtbcl" => some (showParse show4 (parseIsoDateTimeBcl t))
  | "inst" => some (showParse show4 (parseIsoInstant t))
  | "instgen" => some (showParse show4 (parseInstantGeneral t))
  | "off" => some (showParse toString (parseOffG t))
  | "offz" => some (showParse toString (parseOffGZ t))
  | _ => none

def handle (toks : List String) : Option String :=
  match toks with
  | ["num.pad", v, n] => do
      let v ← parseInt? v; let n ← parseInt? n
      if n < 0 then none else some (encodeText (leftPad v n.toNat))
  | ["num.pad2", v] => do let v ← parseInt? v; some (encodeText (format2 v))
  | ["num.pad4", v] => do let v ← parseInt? v; some (encodeText (format4 v))
  | ["num.frac", v, len, scale] => do
      let v ← parseInt? v; let len ← parseInt? len; let scale ← parseInt? scale
      if len < 0 ∨ scale < 0 then none
      else if v ≤ -decLim ∨ v ≥ decLim then some "!dom"
      else some (encodeText (appendFraction v len.toNat scale.toNat))
  | ["num.fract", v, len, scale, buf] => do
      let v ← parseInt? v; let len ← parseInt? len; let scale ← parseInt? scale
      let buf ← decodeText buf
      if len < 0 ∨ scale < 0 then none
      else if v ≤ -decLim ∨ v ≥ decLim then some "!dom"
      else some (encodeText (appendFractionTruncate v len.toNat scale.toNat buf))
  | ["num.digits", t, mn, mx] => do
      let t ← decodeText t; let mn ← parseInt? mn; let mx ← parseInt? mx
      if mn < 0 ∨ mx < 0 then none else some (showScanN t.length (parseDigits mn.toNat mx.toNat t))
  | ["num.fraction", t, mx, scale, mn] => do
      let t ← decodeText t; let mx ← parseInt? mx; let scale ← parseInt? scale; let mn ← parseInt? mn
      if mn < 0 ∨ mx < 0 ∨ scale < 0 then none
      else if mx > scale ∨ scale > 15 then some "!dom"
      else some (showScanN t.length (parseFraction mx.toNat scale.toNat mn.toNat t))
  | ["num.int64", t] => do
      let t ← decodeText t
      some (showScan t.length (parseInt64 t))
  | "iso.fmt" :: kind :: args => do
      let a ← parseInts? args
      isoFmt kind a
  | ["iso.parse", kind, t] => do
      let t ← decodeText t
      isoParse kind t
  -- `iso.fmt@` / `iso.parse@` carry the text of ANOTHER pattern that the implementation creates between fetching the
  -- built-in pattern object and using it; the model's answer does not depend on it (no state is shared between patterns)
  | "iso.fmt@" :: kind :: other :: args => do
      let _ ← decodeText other
      let a ← parseInts? args
      isoFmt kind a
  | ["iso.parse@", kind, other, t] => do
      let _ ← decodeText other
      let t ← decodeText t
      isoParse kind t
  | ["pyiso.date", y, m, d] => do
      let y ← parseInt? y; let m ← parseInt? m; let d ← parseInt? d
      if y < 0 ∨ m < 0 ∨ d < 0 then none else some (encodeText (pyDateIso y.toNat m.toNat d.toNat))
  | ["pyiso.time", us] => do
      let us ← parseInt? us
      if us < 0 then none else some (encodeText (pyTimeIso us.toNat))
  | ["pyiso.offset", s] => do
      let s ← parseInt? s
      some (encodeText (pyOffsetIso s))
  | _ => match handlePat toks with
    | some r => some r
    | none => handleInstant toks

end Pyoda.Text
