/- PyodaModel.Text — placeholder until the area is modelled. -/
import PyodaModel.Prelude

namespace Pyoda.Text

def handle (_toks : List String) : Option String := none

end Pyoda.Text
