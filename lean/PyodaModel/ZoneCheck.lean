/-
  PyodaModel.ZoneCheck — decidable whole-zone checks for precalculated zones WITH a recurring tail, evaluated by
  the compiled driver on the current data (`zone.ok <id>`).  Soundness theorems: PyodaProofs.C04TailEnd
  (`tailOKE_sound`), PyodaProofs.C04Zone (`zoneOK_sound`).
-/
import PyodaModel.ZoneOps

namespace Pyoda.Zone

/-- first year of the per-year tail facts (every bundled tail starts after 1990) -/
def zoneLo : Int := 1900

/-- 36 hours in nanoseconds: the minimum length of a finite interval the local-mapping theorems need -/
def G36 : Int := 2 * (64800 * NPS)

/-- the rule's occurrence exists and lies inside its own local year for every year `lo … 9999`, and the last one
    stays two days inside the end of time (so no sentinel arithmetic touches it) -/
def ruleOKE (yo : YearOffset) (lo : Int) : Bool :=
  decide (-9998 < lo) && decide (lo ≤ 9999) &&
  allYears lo 9999 (fun y =>
    match yo.occurrence y with
    | .ok v => decide (ysNsM y ≤ v) && decide (v < ysNsM (y + 1))
    | .error _ => false) &&
  decide (occOf yo 9999 + 2 * NPD ≤ ysNsM 10000)

def tailBaseE (m : AltMap) (lo : Int) : Bool :=
  decide (m.dstRec.fromYear = INT_MIN) && decide (m.dstRec.toYear = INT_MAX) &&
  decide (m.stdRec.fromYear = INT_MIN) && decide (m.stdRec.toYear = INT_MAX) &&
  decide (m.stdRec.savings = 0) &&
  decide (-64800 ≤ m.std) && decide (m.std ≤ 64800) &&
  decide (-64800 ≤ m.std + m.dstRec.savings) && decide (m.std + m.dstRec.savings ≤ 64800) &&
  (match m.dstRec.yo.ruleOffset m.std 0 with | .ok v => decide (-64800 ≤ v) && decide (v ≤ 64800) | .error _ => false) &&
  (match m.stdRec.yo.ruleOffset m.std m.dstRec.savings with | .ok v => decide (-64800 ≤ v) && decide (v ≤ 64800) | .error _ => false) &&
  ruleOKE m.dstRec.yo lo && ruleOKE m.stdRec.yo lo

/-- 1 = daylight rule first in each year, 2 = standard rule first, 0 = the check fails; years `lo … 9999` -/
def tailOKE (m : AltMap) (lo : Int) : Nat :=
  if tailBaseE m lo then (if altD m lo 9999 then 1 else if altS m lo 9999 then 2 else 0) else 0

/-- the merged transition sequence of a tail: index `2y` = first transition of year `y`, `2y+1` = second one,
    `20000` (= after the second transition of 9999) = end of time -/
def tailU (m : AltMap) (mode : Nat) (k : Int) : Int :=
  if k ≥ 20000 then AMAX
  else if k % 2 = 0 then (if mode = 1 then tdOf m (k / 2) else tsOf m (k / 2))
  else (if mode = 1 then tsOf m (k / 2) else tdOf m (k / 2))

/-- the interval that starts at transition `k` -/
def tailIv (m : AltMap) (mode : Nat) (k : Int) : ZI :=
  if (decide (k % 2 = 0) == decide (mode = 1)) = true then
    ⟨tailU m mode k, tailU m mode (k + 1), m.dstRec.name, m.std + m.dstRec.savings, m.dstRec.savings⟩
  else
    ⟨tailU m mode k, tailU m mode (k + 1), m.stdRec.name, m.std, 0⟩

/-- every tail interval between two transitions lasts at least 36 h -/
def tailLenOK (m : AltMap) (lo : Int) (mode : Nat) : Bool :=
  allYears lo 9999 (fun y =>
    decide (tailU m mode (2 * y) + G36 ≤ tailU m mode (2 * y + 1)) &&
    (decide (y = 9999) || decide (tailU m mode (2 * y + 1) + G36 ≤ tailU m mode (2 * y + 2))))

/-- seam: the stored periods end at a valid instant inside the years covered by the tail check, and the clamped
    first tail interval (from there to the next tail transition) lasts at least 36 h or runs to the end of time -/
def seamOK (p : Precalc) (m : AltMap) (lo : Int) (mode : Nat) : Bool :=
  isValid p.tailStart && decide (tailU m mode (2 * (lo + 1)) ≤ p.tailStart) &&
  (match m.get p.tailStart with
   | .ok z => decide (z.e = AMAX) || decide (p.tailStart + G36 ≤ z.e)
   | .error _ => false)

/-- whole-zone check for a precalculated zone with a recurring tail, given the tail and the result of `tailOKE` -/
def zoneOKWith (p : Precalc) (m : AltMap) (mode : Nat) : Bool :=
  periodsWF p.periods &&
  p.periods.all (fun z => decide (MINI ≤ z.s → z.e ≤ MAXI → z.e - z.s ≥ G36)) &&
  decide (mode ≠ 0) &&
  tailLenOK m zoneLo mode &&
  seamOK p m zoneLo mode

/-- 0 = the check fails (or no tail), otherwise the order of the two rules as reported by `tailOKE` -/
def zoneOKMode (p : Precalc) : Nat :=
  match p.tail with
  | none => 0
  | some m =>
    let mode := tailOKE m zoneLo
    if zoneOKWith p m mode then mode else 0

def zoneOK (p : Precalc) : Bool := zoneOKMode p != 0

/-- adjacent intervals differ in name or offsets (maximality), as a check on the data: stored periods pairwise
    (`maximal`); for a zone with a tail also the last stored period against the first tail interval, and the two
    tail rules against each other (different savings) -/
def zoneMaximal (p : Precalc) : Bool :=
  maximal p.periods &&
  (match p.tail with
   | none => true
   | some m =>
     decide (m.dstRec.savings ≠ 0) &&
     (match p.periods.back?, m.get p.tailStart with
      | some a, .ok b => !(a.name == b.name && a.wall == b.wall && a.savings == b.savings)
      | _, _ => false))

/-- the Zone driver step extended with `zone.ok <id>` (whole-zone check) and `tail.oke <id>` (tail check alone) -/
def stepC (reg : Registry) (toks : List String) : Option (Registry × String) :=
  match toks with
  | ["zone.ok", zid] => do
    let d ← reg.get? zid
    match d with
    | .precalc p =>
      match p.tail with
      | some _ => let k := zoneOKMode p; some (reg, s!"{showBool (k != 0)} {k} {showBool (zoneMaximal p)}")
      | none => some (reg, "notail")
    | .fixed _ => some (reg, "fixed")
  | ["tail.oke", zid] => do
    let d ← reg.get? zid
    match d with
    | .precalc ⟨_, some m⟩ => some (reg, toString (tailOKE m zoneLo))
    | _ => some (reg, "none")
  | _ => step reg toks

end Pyoda.Zone
