/- PyodaModel.Cache — placeholder until the area is modelled. -/
import PyodaModel.Prelude

namespace Pyoda.Cache

def handle (_toks : List String) : Option String := none

end Pyoda.Cache
