/-
  PyodaModel.Cache — caches and lazily created singletons of pyoda_time as state machines
  (`init` + `step : State → Op → State × Out`), and the line protocol of the area (driver `drv_cache`).

    Cache/YearCache.lean       1024-slot year-start cache (per calculator) and the global Hebrew cache
    Cache/ZoneHashCache.lean   512-slot zone-interval cache of `_CachingZoneIntervalMap`
    Cache/Lru.lean             `_Cache.get_or_add`
    Cache/Lazy.lean            lazily filled maps, sequential and as atomic actions with/without a lock
    Cache/Interleave.lean      threads × schedules
    Cache/YearCacheConc.lean   the year cache as atomic actions
    Cache/ZoneCacheConc.lean, HebrewConc.lean, LruConc.lean   the other caches as atomic actions (LRU under its lock)
    Cache/FormatInfo.lean      `_PyodaFormatInfo._get_format_info` on top of the LRU model

  ops (one history per line):
    ycache.run <cal-hex> y…            → `slot:validator:H|M` per query (the calendar is ignored: hit/miss does not
                                          depend on the computed values)
    hcache.run y…                      → the value `__get_or_populate_cache(y)` returns, from an empty cache
    zcache.run <b1,b2,…|-> t…          → `start:end:H|M:chainlen` per lookup over the partition at the bounds
    lru.run <size> k…                  → `H|M|E:count` per call, then ` | ` and the keys in dict order
    lazy.force <n>                     → n threads doing the first lookup of one key with the lock, round-robin
    lazy.sched locked|unlocked <n> s…  → each thread's result after the schedule (`-` = not finished)
    ycache.sched <n> <len> s… | y…     → thread i asks years y[i*len .. (i+1)*len); outputs per thread
-/
import PyodaModel.Prelude
import PyodaModel.Cache.YearCache
import PyodaModel.Cache.ZoneHashCache
import PyodaModel.Cache.Lru
import PyodaModel.Cache.Lazy
import PyodaModel.Cache.Interleave
import PyodaModel.Cache.YearCacheConc
import PyodaModel.Cache.ZoneCacheConc
import PyodaModel.Cache.HebrewConc
import PyodaModel.Cache.LruConc
import PyodaModel.Cache.FormatInfo

namespace Pyoda.Cache

def showHit (b : Bool) : String := if b then "H" else "M"

def ycacheRun (ys : List Int) : String :=
  let outs := (YearCache.run (fun y => y * 365) YearCache.init ys).2
  " ".intercalate ((ys.zip outs).map fun (y, o) =>
    toString (YearCache.indexOf y) ++ ":" ++ toString (YearCache.validator y) ++ ":" ++ showHit o.hit)

def hcacheRun (ys : List Int) : String :=
  let outs := (YearCache.Hebrew.run YearCache.Hebrew.elapsedDaysNoCache YearCache.init ys).2
  " ".intercalate (outs.map fun o => toString o.value)

def parseBounds? (s : String) : Option (List Int) :=
  if s = "-" then some [] else (s.splitOn ",").mapM parseInt?

def zcacheRun (bounds ts : List Int) : Option String :=
  match ZoneHashCache.run (ZoneHashCache.realCfg bounds) ZoneHashCache.init ts with
  | none => none
  | some (_, outs) =>
    some (" ".intercalate (outs.map fun o =>
      toString o.iv.start ++ ":" ++ toString o.iv.stop ++ ":" ++ showHit o.hit ++ ":" ++ toString o.chainLen))

/-- running count after each call (the model keeps the whole state, the reply shows `len(dict)`) -/
def lruTrace (size : Nat) : Lru.State → List Int → List String × Lru.State
  | s, [] => ([], s)
  | s, k :: ks =>
    let r := Lru.step (fun k => k * 7 + 1) size s k
    let tag := match r.2.res with
      | .ok _ => showHit r.2.hit
      | .error _ => "E"
    let rest := lruTrace size r.1 ks
    ((tag ++ ":" ++ toString r.1.dict.length) :: rest.1, rest.2)

def lruRun (size : Nat) (ks : List Int) : String :=
  let r := lruTrace size Lru.init ks
  " ".intercalate r.1 ++ " | " ++ " ".intercalate (r.2.dict.map fun p => toString p.1)

def dedup : List Nat → List Nat
  | [] => []
  | x :: xs => x :: (dedup xs).filter (· ≠ x)

def lazyForce (n : Nat) : String :=
  let sys := Lazy.runLocked (Interleave.roundRobin n (8 * n + 8))
  let objs := (List.range n).filterMap fun i => Lazy.result (sys.threads i)
  if objs.length = n then
    "objects=" ++ toString (dedup objs).length ++ " created=" ++ toString sys.shared.next
  else "unfinished"

def lazySched (locked : Bool) (n : Nat) (sched : List Nat) : String :=
  let sys := if locked then Lazy.runLocked sched else Lazy.runUnlocked sched
  " ".intercalate ((List.range n).map fun i =>
    match Lazy.result (sys.threads i) with
    | some o => toString o
    | none => "-") ++ " created=" ++ toString sys.shared.next

def chunk (len : Nat) (l : List Int) (i : Nat) : List Int := (l.drop (i * len)).take len

def ycacheSched (n len : Nat) (sched : List Nat) (ys : List Int) : String :=
  let sys := YearCacheConc.runSched (fun y => y * 365) (chunk len ys) sched
  " | ".intercalate ((List.range n).map fun i =>
    " ".intercalate ((sys.threads i).out.reverse.map fun p => toString p.1 ++ ":" ++ toString p.2))

def splitAtBar (l : List String) : List String × List String :=
  (l.takeWhile (· ≠ "|"), (l.dropWhile (· ≠ "|")).drop 1)

def parseNats? (l : List String) : Option (List Nat) := l.mapM String.toNat?

def handle (toks : List String) : Option String :=
  match toks with
  | "ycache.run" :: _cal :: ys => do let ys ← parseInts? ys; some (ycacheRun ys)
  | "hcache.run" :: ys => do let ys ← parseInts? ys; some (hcacheRun ys)
  | "zcache.run" :: b :: ts => do
      let b ← parseBounds? b
      let ts ← parseInts? ts
      zcacheRun b ts
  | "lru.run" :: size :: ks => do
      let size ← size.toNat?
      let ks ← parseInts? ks
      some (lruRun size ks)
  | ["lazy.force", n] => do let n ← n.toNat?; some (lazyForce n)
  | "lazy.sched" :: mode :: n :: sched => do
      let n ← n.toNat?
      let sched ← parseNats? sched
      if mode = "locked" then some (lazySched true n sched)
      else if mode = "unlocked" then some (lazySched false n sched)
      else none
  | "ycache.sched" :: n :: len :: rest => do
      let n ← n.toNat?
      let len ← len.toNat?
      let (a, b) := splitAtBar rest
      let sched ← parseNats? a
      let ys ← parseInts? b
      some (ycacheSched n len sched ys)
  | _ => none

end Pyoda.Cache
