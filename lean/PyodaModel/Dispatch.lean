/- Dispatch of one protocol line to the model modules. One `handle` per module. -/
import PyodaModel.Prelude
import PyodaModel.Elapsed

namespace Pyoda

def handlers : List (List String → Option String) :=
  [Elapsed.handle]

def dispatch (line : String) : String :=
  let toks := (line.splitOn " ").filter (· ≠ "")
  match toks with
  | [] => "?empty"
  | _ =>
    match handlers.findSome? (fun h => h toks) with
    | some r => r
    | none => "?bad-op"

end Pyoda
