/-
  PyodaModel.ZoneBridge — from database bytes to zone behaviour, entirely inside the model (C06):
  the Codec model decodes a whole tz database stream (`Codec.fromStream`, `getIds`, `forId`), the decoded
  `ZoneValue`s are converted to the Zone area's `ZoneDef`s and registered, and the ordinary `zone.*` ops then
  answer from the model's own interpretation of the bytes.  Also: the sorted id list and fixed-offset ids.
-/
import PyodaModel.Codec
import PyodaModel.ZoneOps

namespace Pyoda.Bridge6
open Pyoda

def instNs (i : Instant) : Int := i.dur.days * NPD + i.dur.nod
def strOf (bs : List Nat) : String := String.ofList (bs.map Char.ofNat)

def convZI (z : ZoneInterval) : Zone.ZI :=
  ⟨instNs z.rawStart, instNs z.rawEnd, strOf z.name, z.wall.seconds, z.savings.seconds⟩

def convYO (y : ZoneYearOffset) : Zone.YearOffset :=
  ⟨y.mode.toNat, y.monthOfYear, y.dayOfMonth, y.dayOfWeek, y.advance, y.timeOfDay, y.addDay⟩

def convRec (r : ZoneRecurrence) : Zone.Recurrence :=
  ⟨strOf r.name, r.savings.seconds, convYO r.yearOffset, r.fromYear, r.toYear⟩

def convMap (m : AlternatingMap) : Zone.AltMap :=
  ⟨m.standardOffset.seconds, convRec m.standardRecurrence, convRec m.dstRecurrence⟩

def convZone : ZoneValue → Zone.ZoneDef
  | .fixed z => .fixed ⟨Zone.BMIN, Zone.AMAX, strOf z.name, z.offset.seconds, 0⟩
  | .precalculated z => .precalc ⟨(z.periods.map convZI).toArray, z.tailZone.map convMap⟩

def showRec (r : Zone.Recurrence) : String :=
  s!"{Zone.strToHex r.name} {r.savings} {r.yo.mode} {r.yo.month} {r.yo.dom} {r.yo.dow} {if r.yo.advance then 1 else 0} {r.yo.tod} {if r.yo.addDay then 1 else 0} {r.fromYear} {r.toYear}"

/-- the same text `harness/zonelib.zone_def_line` produces after `zone.def <id> ` -/
def showDef : Zone.ZoneDef → String
  | .fixed z => "fixed " ++ Zone.showZI z
  | .precalc p =>
    let ps := String.join (p.periods.toList.map (fun z => " " ++ Zone.showZI z))
    match p.tail with
    | none => s!"precalc {p.periods.size}{ps} 0"
    | some m => s!"precalc {p.periods.size}{ps} 1 {m.std} {showRec m.stdRec} {showRec m.dstRec}"

/-- byte-wise (code-point) comparison of ids: Python sorts `str` by code point; ids are ASCII -/
def strLe (a b : Str) : Bool := decide (a ≤ b)

def insertSorted (x : Str) : List Str → List Str
  | [] => [x]
  | y :: ys => if strLe x y then x :: y :: ys else y :: insertSorted x ys

def sortIds (l : List Str) : List Str := l.foldr insertSorted []

def safeId (s : String) : String := s.map (fun c => if c = ' ' then '_' else c)

/-! fixed-offset ids `UTC`, `UTC±hh`, `UTC±hh:mm`, `UTC±hh:mm:ss` (the general invariant offset pattern) -/

def twoDigits? : List Char → Option (Nat × List Char)
  | a :: b :: rest => if a.isDigit ∧ b.isDigit then some ((a.toNat - 48) * 10 + (b.toNat - 48), rest) else none
  | _ => none

def finishId (sign : Char) (h total : Nat) : Option Int :=
  if h > 18 ∨ total > 64800 then none
  else some (if sign = '-' then -(total : Int) else (total : Int))

/-- seconds of a fixed-offset id (as characters), `none` when the id does not denote one -/
def fixedIdSecondsL? : List Char → Option Int
  | 'U' :: 'T' :: 'C' :: rest =>
    match rest with
    | [] => some 0
    | sign :: r1 =>
      if sign ≠ '+' ∧ sign ≠ '-' then none else
      match twoDigits? r1 with
      | none => none
      | some (h, r2) =>
        match r2 with
        | [] => finishId sign h (h * 3600)
        | ':' :: r3 =>
          match twoDigits? r3 with
          | none => none
          | some (m, r4) =>
            if m > 59 then none else
            match r4 with
            | [] => finishId sign h (h * 3600 + m * 60)
            | ':' :: r5 =>
              match twoDigits? r5 with
              | some (s, []) => if s > 59 then none else finishId sign h (h * 3600 + m * 60 + s)
              | _ => none
            | _ => none
        | _ => none
  | _ => none

def fixedIdSeconds? (id : String) : Option Int := fixedIdSecondsL? id.toList

/-- two decimal digits of `n < 100` -/
def two (n : Nat) : List Char := [Char.ofNat (48 + n / 10), Char.ofNat (48 + n % 10)]

/-- `_FixedDateTimeZone.__make_id` as characters: the id the code gives a fixed zone -/
def fixedIdChars (secs : Int) : List Char :=
  if secs = 0 then ['U', 'T', 'C'] else
  let a := secs.natAbs
  let h := a / 3600; let m := a / 60 % 60; let s := a % 60
  ['U', 'T', 'C'] ++ [if secs < 0 then '-' else '+'] ++ two h ++
    (if m = 0 ∧ s = 0 then [] else ':' :: two m ++ (if s = 0 then [] else ':' :: two s))

def fixedId (secs : Int) : String := String.ofList (fixedIdChars secs)

def step (reg : Zone.Registry) (toks : List String) : Option (Zone.Registry × String) :=
  match toks with
  | ["file.load", pfx, h] => do
    -- decode the whole stream; register every listed id as `<pfx><id>`; reply: count, version, sorted ids
    let bytes ← parseHex? h
    match Codec.fromStream bytes with
    | .error e => some (reg, "!" ++ e.name)
    | .ok d =>
      let ids := sortIds (Codec.getIds d)
      let rec go (reg : Zone.Registry) (bad : List String) : List Str → Zone.Registry × List String
        | [] => (reg, bad.reverse)
        | id :: rest =>
          match Codec.forId d id with
          | .ok z => go (reg.insert (pfx ++ safeId (strOf id)) (convZone z)) bad rest
          | .error e => go reg ((strOf id ++ ":" ++ e.name) :: bad) rest
      let (reg', bad) := go reg [] ids
      some (reg', s!"ok {ids.length} {showHex d.version} {bad.length} " ++ " ".intercalate (ids.map showHex))
  | ["zone.show", zid] => do
    let d ← reg.get? zid
    some (reg, showDef d)
  | ["fixed.parse", idHex] => do
    let bs ← parseHex? idHex
    some (reg, match fixedIdSeconds? (strOf bs) with | some s => toString s | none => "none")
  | ["fixed.id", secs] => do
    let s ← parseInt? secs
    some (reg, Zone.strToHex (fixedId s))
  | _ => Zone.step reg toks

end Pyoda.Bridge6
