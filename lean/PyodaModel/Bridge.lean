/-
  PyodaModel.Bridge — conversions between Pyoda Time values and the standard library's datetime types.
  Transcribed from LocalDate.to_date/from_date, LocalTime.to_time/from_time,
  LocalDateTime.to_naive_datetime/from_naive_datetime, Instant.to_datetime_utc/from_aware_datetime,
  OffsetDateTime.to_aware_datetime/from_aware_datetime, Duration.to_timedelta/from_timedelta,
  Offset.to_timedelta/from_timedelta and `_to_ticks`.

  Standard-library values are integers:
    date      = proleptic Gregorian ordinal 1 … 3 652 059 (day number = ordinal − 719 163),
    time      = microsecond of day 0 … 86 399 999 999,
    datetime  = (ordinal, microsecond of day), aware datetime = + fixed utc offset in seconds,
    timedelta = (days, seconds, microseconds) normalised as CPython does, |days| ≤ 999 999 999.
  The year/month/day and hour/minute/second fields through which the code builds `datetime(...)` are modelled
  for the time part (hour, minute, second, microsecond are computed as the code does and recombined as CPython
  does); for the date part the Gregorian y/m/d ↔ ordinal round trip of both libraries is C01/C02 + stdlib
  (trusted base), so the model goes day number ↔ ordinal directly and `gregorian.year < 1` is `ordinal < 1`.

  Arbitrary `tzinfo` objects (section "datetimes with an arbitrary tzinfo"): a conversion can observe of the
  `tzinfo` only whether it is `None` and what `tzinfo.utcoffset(dt)` returns for this very `dt` (its `fold`
  included) — `None` or a timedelta of any size and microsecond resolution (the code calls the tzinfo directly, so
  CPython's own |offset| < 24 h check of `datetime.utcoffset()` is not applied).  `TzView` is that observation.
-/
import PyodaModel.OffsetTypes

namespace Pyoda.Bridge
open Pyoda

def ORD_EPOCH : Int := 719163          -- date(1970,1,1).toordinal()
def MAX_ORD : Int := 3652059           -- date.max.toordinal()
def UsPS : Int := 1000000
def UsPH : Int := 3600000000
def UsPMin : Int := 60000000
def TD_MAX_DAYS : Int := 999999999
def BCL_DAYS : Int := 719162           -- PyodaConstants._BCL_DAYS_AT_UNIX_EPOCH
def TPMin : Int := 600000000
def TPUs : Int := 10

def isoCal : Cal := ⟨0, -4371222, 2932896⟩
def gregCal : Cal := ⟨1, -4371222, 2932896⟩

/-! ### the standard library side -/

structure PyTimedelta where
  days : Int
  seconds : Int
  micros : Int
  deriving DecidableEq, Repr, Inhabited

namespace PyTimedelta
def totalUs (t : PyTimedelta) : Int := t.days * UsPD + t.seconds * UsPS + t.micros
/-- `timedelta(...)` from an exact number of microseconds: floor-normalised, `OverflowError` beyond ±999 999 999 days -/
def ofUs (us : Int) : R PyTimedelta :=
  let d := us / UsPD
  let r := us % UsPD
  if d < -TD_MAX_DAYS ∨ d > TD_MAX_DAYS then .error .overflowError
  else .ok ⟨d, r / UsPS, r % UsPS⟩
def wf (t : PyTimedelta) : Prop :=
  -TD_MAX_DAYS ≤ t.days ∧ t.days ≤ TD_MAX_DAYS ∧ 0 ≤ t.seconds ∧ t.seconds < SPD ∧ 0 ≤ t.micros ∧ t.micros < UsPS
end PyTimedelta

structure PyDateTime where
  ord : Int
  us : Int
  deriving DecidableEq, Repr, Inhabited

namespace PyDateTime
def wf (x : PyDateTime) : Prop := 1 ≤ x.ord ∧ x.ord ≤ MAX_ORD ∧ 0 ≤ x.us ∧ x.us < UsPD
/-- `datetime + timedelta` -/
def addTd (x : PyDateTime) (t : PyTimedelta) : R PyDateTime :=
  let tot := x.ord * UsPD + x.us + t.totalUs
  let o := tot / UsPD
  if 0 < o ∧ o ≤ MAX_ORD then .ok ⟨o, tot % UsPD⟩ else .error .overflowError
/-- `datetime - datetime` (both naive) -/
def sub (a b : PyDateTime) : PyTimedelta :=
  let us := (a.ord - b.ord) * UsPD + (a.us - b.us)
  ⟨us / UsPD, us % UsPD / UsPS, us % UsPD % UsPS⟩
/-- `datetime(year, month, day, hour, minute, second, microsecond)` with the date given by its ordinal:
    field validation (`ValueError`), then the microsecond of day -/
def ofFields (ord h m s us : Int) : R PyDateTime := do
  checkRange ord 1 MAX_ORD
  checkRange h 0 23
  checkRange m 0 59
  checkRange s 0 59
  checkRange us 0 999999
  .ok ⟨ord, h * UsPH + m * UsPMin + s * UsPS + us⟩
end PyDateTime

/-- `date + timedelta` -/
def dateAddTd (ord : Int) (t : PyTimedelta) : R Int :=
  let o := ord + t.days
  if 0 < o ∧ o ≤ MAX_ORD then .ok o else .error .overflowError

/-! ### `_to_ticks` -/

def toTicksTd (t : PyTimedelta) : Int := t.days * TPD + t.seconds * TPS + t.micros * TPUs
/-- naive or aware datetime (the tzinfo is dropped): ticks since 0001-01-01 -/
def toTicksDt (x : PyDateTime) : Int := toTicksTd (PyDateTime.sub x ⟨1, 0⟩)

/-! ### LocalDate -/

/-- `LocalDate.to_date`: `date(1970, 1, 1) + timedelta(days=days_since_epoch)` -/
def dateToPy (d : Date) : R Int := do
  let t ← PyTimedelta.ofUs (d.days * UsPD)
  dateAddTd ORD_EPOCH t

/-- `LocalDate.from_date`: always ISO -/
def dateFromPy (ord : Int) : R Date := Date.ofDays isoCal (ord - ORD_EPOCH)

/-! ### LocalTime (a nanosecond of day) -/

def ltHour (nod : Int) : R Int := pyTdiv (nod >>> 13) 439453125
def ltMinute (nod : Int) : R Int := do let m ← pyTdiv (nod >>> 11) 29296875; .ok (csharpMod m 60)
def ltSecond (nod : Int) : R Int := do let s ← pyTdiv nod NPS; .ok (csharpMod s 60)
def ltNanoOfSecond (nod : Int) : Int := int32Overflow (csharpMod nod NPS)
/-- `LocalTime.microsecond` -/
def ltMicrosecond (nod : Int) : R Int := do let u ← pyTdiv nod NPUs; .ok (csharpMod u 1000000)

/-- `LocalTime.to_time`: `time(hour, minute, second, microsecond=nanosecond_of_second // 1000)` -/
def timeToPy (nod : Int) : R Int := do
  let h ← ltHour nod
  let m ← ltMinute nod
  let s ← ltSecond nod
  let us ← pyTdiv (ltNanoOfSecond nod) NPUs
  let x ← PyDateTime.ofFields 1 h m s us
  .ok x.us

/-- `LocalTime.from_time` (stdlib time = microsecond of day, read back through its fields) -/
def timeFromPy (us : Int) : R Int := do
  let h := us / UsPH
  let m := us % UsPH / UsPMin
  let s := us % UsPMin / UsPS
  let u := us % UsPS
  let ticks := h * TPH + m * TPMin + s * TPS + u * TPUs
  checkRange ticks 0 (TPD - 1)
  .ok (int64Overflow (ticks * NPT))

/-! ### LocalDateTime = (date, nanosecond of day) -/

/-- `LocalDateTime.to_naive_datetime` (guard `year < 1`; the snapshot had `<=` and rejected year 1:
    DESIGN section 7 row 11, repaired in /repo commit 8ffa823) -/
def ldtToPy (d : Date) (nod : Int) : R PyDateTime := do
  let g ← d.withCalendar gregCal
  let ord := g.days + ORD_EPOCH
  if ord < 1 then .error .runtimeError
  else do
    let h ← ltHour nod
    let m ← ltMinute nod
    let s ← ltSecond nod
    let us ← ltMicrosecond nod
    PyDateTime.ofFields ord h m s us

/-- `LocalDateTime.from_naive_datetime(dt, calendar)` -/
def ldtFromPy (x : PyDateTime) (c : Cal) : R (Date × Int) := do
  let (days, tod) ← Duration.ticksToDaysAndTickOfDay (toTicksDt x)
  let d ← Date.ofDays c (days - BCL_DAYS)
  .ok (d, tod * NPT)

/-! ### Instant -/

def bclEpoch : Instant := ⟨⟨-BCL_DAYS, 0⟩⟩

/-- `Instant.to_datetime_utc` (the result's tzinfo is UTC) -/
def instToPy (i : Instant) : R PyDateTime :=
  if Duration.lt i.dur bclEpoch.dur then .error .runtimeError
  else do
    let us ← pyTdiv i.dur.nod NPUs
    let t ← PyTimedelta.ofUs (i.dur.days * UsPD + us)
    PyDateTime.addTd ⟨ORD_EPOCH, 0⟩ t

/-- `Instant.from_aware_datetime` with a fixed-offset tzinfo of `off` seconds -/
def instFromPy (x : PyDateTime) (off : Int) : R Instant := do
  let t ← PyTimedelta.ofUs (off * UsPS)
  Instant.plusTicks bclEpoch (toTicksDt x - toTicksTd t)

/-! ### Offset and Duration ↔ timedelta -/

/-- `Offset.to_timedelta` -/
def offToPy (o : Offset) : R PyTimedelta := PyTimedelta.ofUs (o.seconds * UsPS)

/-- `Offset.from_timedelta`: `total_seconds() * 10^7` truncated — exact in the float domain of a timedelta
    (harness suite `bridge.ops` ties this to CPython around every whole second) -/
def offFromPy (t : PyTimedelta) : R Offset := do
  let ticks := t.totalUs * TPUs
  checkRange ticks (-18 * TPH) (18 * TPH)
  Offset.fromTicks ticks

/-- `Duration.to_timedelta`: `timedelta(days=self.days, microseconds=nanosecond_of_day // 1000 toward zero)` -/
def durToPy (d : Duration) : R PyTimedelta := do
  let us ← pyTdiv d.nanosecondOfDay NPUs
  PyTimedelta.ofUs (d.daysAcc * UsPD + us)

/-- `Duration.from_timedelta` -/
def durFromPy (t : PyTimedelta) : R Duration := do
  let a ← Duration.fromDays t.days
  let b ← Duration.fromSeconds t.seconds
  let c ← Duration.fromMicroseconds t.micros
  let ab ← Duration.add a b
  Duration.add ab c

/-! ### OffsetDateTime -/

/-- `OffsetDateTime.to_aware_datetime`: (naive value, utc offset seconds) -/
def odtToPy (x : OffsetDateTime) : R (PyDateTime × Int) := do
  let g ← x.withCalendar gregCal
  let off := x.offsetSeconds
  -- `timezone(timedelta(seconds=off))` needs |off| < 24 h
  if off ≤ -SPD ∨ off ≥ SPD then .error .valueError
  else do
    let n ← ldtToPy g.date g.nanosecondOfDay
    .ok (n, off)

/-- `OffsetDateTime.from_aware_datetime` with a fixed-offset tzinfo of `off` seconds -/
def odtFromPy (x : PyDateTime) (off : Int) : R OffsetDateTime := do
  let (d, nod) ← ldtFromPy x isoCal
  let t ← PyTimedelta.ofUs (off * UsPS)
  let o ← offFromPy t
  .ok (OffsetDateTime.ofLocal d nod o)

/-! ### datetimes with an arbitrary tzinfo -/

/-- what the conversions can observe of `dt.tzinfo` -/
inductive TzView where
  /-- `dt.tzinfo is None` -/
  | naive
  /-- a tzinfo whose `utcoffset(dt)` returns `None` (CPython calls such a datetime naive as well) -/
  | noOffset
  /-- `dt.tzinfo.utcoffset(dt)` returns this timedelta (for the `fold` of `dt`) -/
  | offset (t : PyTimedelta)
  deriving DecidableEq, Repr, Inhabited

/-- `Instant.from_aware_datetime(dt)`: `tzinfo is None` is refused with `ValueError`; `_to_ticks(None)` raises
    `TypeError`; otherwise local ticks minus offset ticks after the BCL epoch, any offset. -/
def instFromAware (x : PyDateTime) : TzView → R Instant
  | .naive => .error .valueError
  | .noOffset => .error .typeError
  | .offset t => Instant.plusTicks bclEpoch (toTicksDt x - toTicksTd t)

/-- `OffsetDateTime.from_aware_datetime(dt)`: no tzinfo or a non-timedelta utcoffset is a `ValueError`; the local
    part is converted first; an offset `Offset` cannot represent — a fraction of a second, or beyond ±18 h — is a
    `ValueError` (INTENDED behaviour for the fraction: the pinned code lets `Offset.from_timedelta` truncate it
    silently, so the result denotes another instant than `dt`; finding `odt-from-subsecond-offset-truncated`). -/
def odtFromAware (x : PyDateTime) : TzView → R OffsetDateTime
  | .naive => .error .valueError
  | .noOffset => .error .valueError
  | .offset t => do
    let (d, nod) ← ldtFromPy x isoCal
    if t.micros ≠ 0 then .error .valueError
    else do
      let o ← offFromPy t
      .ok (OffsetDateTime.ofLocal d nod o)

/-- `LocalDateTime.from_naive_datetime(dt, calendar)`: any tzinfo at all (even one without an offset) is refused. -/
def ldtFromAny (x : PyDateTime) (tz : TzView) (c : Cal) : R (Date × Int) :=
  match tz with
  | .naive => ldtFromPy x c
  | _ => .error .valueError

/-- `LocalTime.from_time(t)` reads hour/minute/second/microsecond only: `t.tzinfo` and `t.fold` are not looked at. -/
def timeFromAny (us : Int) (_tz : TzView) (_fold : Int) : R Int := timeFromPy us

/-! ### line protocol -/

/-- `k d s u`: k = 0 no tzinfo, 1 utcoffset() is None, 2 the timedelta (d, s, u) -/
def mkTz : List Int → Option TzView
  | [0, _, _, _] => some .naive
  | [1, _, _, _] => some .noOffset
  | [2, d, s, u] => some (.offset ⟨d, s, u⟩)
  | _ => none

/-- a test tzinfo whose utcoffset depends on `dt.fold`: the view for fold 0, the view for fold 1 -/
def pickTz (fold : Int) (a : List Int) : Option TzView :=
  if fold = 0 then mkTz (a.take 4) else if fold = 1 then mkTz ((a.drop 4).take 4) else none

def showTd : R PyTimedelta → String := showR (fun t => showInts [t.days, t.seconds, t.micros])
def showDt : R PyDateTime → String := showR (fun x => showInts [x.ord, x.us])
def showI : R Int → String := showR toString

def handleInts (op : String) (a : List Int) : Option String :=
  match op, a with
  | "br.date.to", [ord, mn, mx, days] => some (showI (dateToPy ⟨⟨ord, mn, mx⟩, days⟩))
  | "br.date.from", [o] => some (showR (fun (d : Date) => showInts [d.cal.ord, d.days]) (dateFromPy o))
  | "br.time.to", [nod] => some (showI (timeToPy nod))
  | "br.time.from", [us] => some (showI (timeFromPy us))
  | "br.ldt.to", [ord, mn, mx, days, nod] => some (showDt (ldtToPy ⟨⟨ord, mn, mx⟩, days⟩ nod))
  | "br.ldt.from", [o, us, ord, mn, mx] =>
      some (showR (fun (p : Date × Int) => showInts [p.1.cal.ord, p.1.days, p.2]) (ldtFromPy ⟨o, us⟩ ⟨ord, mn, mx⟩))
  | "br.inst.to", [days, nod] => some (showDt (instToPy ⟨⟨days, nod⟩⟩))
  | "br.inst.from", [o, us, off] => some (Elapsed.showInst (instFromPy ⟨o, us⟩ off))
  | "br.odt.to", [ord, mn, mx, days, nod, off] =>
      if !OffsetTime.inPackDomain nod then some "!dom" else
      some (showR (fun (p : PyDateTime × Int) => showInts [p.1.ord, p.1.us, p.2]) (odtToPy (OffsetTypes.mkOdt ord mn mx days nod off)))
  | "br.odt.from", [o, us, off] => some (OffsetTypes.showOdt (odtFromPy ⟨o, us⟩ off))
  | "br.dur.to", [days, nod] => some (showTd (durToPy ⟨days, nod⟩))
  | "br.dur.from", [d, s, u] => some (Elapsed.showDur (durFromPy ⟨d, s, u⟩))
  | "br.off.to", [s] => some (showTd (offToPy ⟨s⟩))
  | "br.off.from", [d, s, u] => some (Elapsed.showOff (offFromPy ⟨d, s, u⟩))
  | "br.inst.aware", o :: us :: fold :: tzs =>
      if tzs.length ≠ 8 then none else do
        let tz ← pickTz fold tzs
        some (Elapsed.showInst (instFromAware ⟨o, us⟩ tz))
  | "br.odt.aware", o :: us :: fold :: tzs =>
      if tzs.length ≠ 8 then none else do
        let tz ← pickTz fold tzs
        some (OffsetTypes.showOdt (odtFromAware ⟨o, us⟩ tz))
  | "br.ldt.aware", o :: us :: fold :: ord :: mn :: mx :: tzs =>
      if tzs.length ≠ 8 then none else do
        let tz ← pickTz fold tzs
        some (showR (fun (p : Date × Int) => showInts [p.1.cal.ord, p.1.days, p.2]) (ldtFromAny ⟨o, us⟩ tz ⟨ord, mn, mx⟩))
  | "br.time.aware", us :: fold :: tzs =>
      if tzs.length ≠ 8 then none else do
        let tz ← pickTz fold tzs
        some (showI (timeFromAny us tz fold))
  | "br.ticks.dt", [o, us] => some (toString (toTicksDt ⟨o, us⟩))
  | "br.ticks.td", [d, s, u] => some (toString (toTicksTd ⟨d, s, u⟩))
  | _, _ => none

def handle (toks : List String) : Option String :=
  match toks with
  | op :: rest =>
    if op.startsWith "br." then do
      let a ← parseInts? rest
      handleInts op a
    else none
  | [] => none

end Pyoda.Bridge
