/- PyodaModel.Bridge — placeholder until the area is modelled. -/
import PyodaModel.Prelude

namespace Pyoda.Bridge

def handle (_toks : List String) : Option String := none

end Pyoda.Bridge
