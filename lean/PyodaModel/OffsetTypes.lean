/-
  PyodaModel.OffsetTypes — OffsetDateTime, OffsetDate, OffsetTime and the ZonedDateTime operations.
  Transcribed from pyoda_time/_offset_date_time.py, _offset_date.py, _offset_time.py, _zoned_date_time.py,
  and the conversions of _instant.py / _local_date_time.py that build these values.

  A date is (calendar, day number on the shared day line).  A calendar is its ordinal and the valid
  day range `[minDays, maxDays]` (`CalendarSystem._min_days/_max_days`); year/month/day fields are the
  business of C01 and do not occur here: every operation of these types goes through the day number.
  A zone is a function `Instant → R Offset` passed per operation.
-/
import PyodaModel.Elapsed

namespace Pyoda

structure Cal where
  ord : Int
  minDays : Int
  maxDays : Int
  deriving DecidableEq, Repr, Inhabited

structure Date where
  cal : Cal
  days : Int
  deriving DecidableEq, Repr, Inhabited

namespace Date
/-- `LocalDate._ctor(days_since_epoch=, calendar=)`: range-checked against the calendar
    (`CalendarSystem._get_year_month_day_calendar_from_days_since_epoch`). -/
def ofDays (c : Cal) (days : Int) : R Date := do
  checkRange days c.minDays c.maxDays
  .ok ⟨c, days⟩

/-- `LocalDate.with_calendar` -/
def withCalendar (d : Date) (c : Cal) : R Date := ofDays c d.days

/-- `LocalDate.plus_days` (`_FixedLengthDatePeriodField(1).add`): `OverflowError` when the result leaves
    the calendar's supported years. -/
def plusDays (d : Date) (k : Int) : R Date :=
  if k = 0 then .ok d
  else
    let n := d.days + k
    if n < d.cal.minDays ∨ n > d.cal.maxDays then .error .overflowError else .ok ⟨d.cal, n⟩
end Date

/-! ## OffsetTime: nanosecond-of-day and offset seconds packed in one integer -/

structure OffsetTime where
  packed : Int
  deriving DecidableEq, Repr, Inhabited

namespace OffsetTime
def NANO_BITS_POW : Int := 140737488355328   -- 1 << 47

/-- `nanosecond_of_day | (offset_seconds << 47)`; for `0 ≤ nanosecond_of_day < 2^47` the bitwise or of the
    two disjoint bit ranges is their sum (the driver answers `!dom` outside that domain). -/
def ofParts (nod offSeconds : Int) : OffsetTime := ⟨nod + offSeconds * NANO_BITS_POW⟩

def inPackDomain (nod : Int) : Bool := decide (0 ≤ nod) && decide (nod < NANO_BITS_POW)

/-- `& ((1 << 47) - 1)` -/
def nanosecondOfDay (t : OffsetTime) : Int := t.packed % NANO_BITS_POW
/-- `>> 47` -/
def offsetSeconds (t : OffsetTime) : Int := t.packed >>> 47
def offsetNanoseconds (t : OffsetTime) : Int := t.offsetSeconds * NPS
def offset (t : OffsetTime) : R Offset := Offset.ctor t.offsetSeconds

def hour (t : OffsetTime) : R Int := pyTdiv (t.nanosecondOfDay >>> 13) 439453125
def minute (t : OffsetTime) : R Int := do
  let m ← pyTdiv (t.nanosecondOfDay >>> 11) 29296875
  .ok (csharpMod m 60)
def second (t : OffsetTime) : R Int := do
  let s ← pyTdiv t.nanosecondOfDay NPS
  .ok (csharpMod s 60)
def millisecond (t : OffsetTime) : R Int := do
  let s ← pyTdiv t.nanosecondOfDay NPMs
  .ok (csharpMod s 1000)
def tickOfDay (t : OffsetTime) : R Int := pyTdiv t.nanosecondOfDay NPT
def tickOfSecond (t : OffsetTime) : R Int := do
  let s ← t.tickOfDay
  .ok (csharpMod s TPS)
def nanosecondOfSecond (t : OffsetTime) : Int := csharpMod t.nanosecondOfDay NPS

/-- `OffsetTime.with_offset` -/
def withOffset (t : OffsetTime) (o : Offset) : OffsetTime := ofParts t.nanosecondOfDay o.seconds
/-- `OffsetTime.with_time_adjuster` with an adjuster returning the time `newNod` -/
def withTime (t : OffsetTime) (newNod : Int) : OffsetTime := ofParts newNod t.offsetSeconds
end OffsetTime

/-! ## OffsetDateTime -/

structure OffsetDateTime where
  date : Date
  ot : OffsetTime
  deriving DecidableEq, Repr, Inhabited

namespace OffsetDateTime

def nanosecondOfDay (x : OffsetDateTime) : Int := x.ot.nanosecondOfDay
def offsetSeconds (x : OffsetDateTime) : Int := x.ot.offsetSeconds
def calendar (x : OffsetDateTime) : Cal := x.date.cal

/-- public constructor `OffsetDateTime(local_date_time, offset)` / `LocalDateTime.with_offset` -/
def ofLocal (d : Date) (nod : Int) (o : Offset) : OffsetDateTime := ⟨d, OffsetTime.ofParts nod o.seconds⟩

/-- `OffsetDateTime._ctor(instant=, offset=, calendar=)` = `Instant.with_offset(offset, calendar)`:
    one day carry, then the calendar's range check. -/
def ofInstant (i : Instant) (o : Offset) (c : Cal) : R OffsetDateTime := do
  let n := i.dur.nod + o.nanoseconds
  let (days, n) :=
    if n ≥ NPD then (i.dur.days + 1, n - NPD)
    else if n < 0 then (i.dur.days - 1, n + NPD)
    else (i.dur.days, n)
  let d ← Date.ofDays c days
  .ok ⟨d, OffsetTime.ofParts n o.seconds⟩

/-- `__to_elapsed_time_since_epoch` -/
def toElapsed (x : OffsetDateTime) : R Duration := do
  let d ← Duration.ctor x.date.days x.nanosecondOfDay
  Duration.minusSmallNanos d x.ot.offsetNanoseconds

/-- `to_instant` -/
def toInstant (x : OffsetDateTime) : R Instant := do
  let e ← x.toElapsed
  Instant.fromUntrusted e

/-- `with_offset`: up to two day carries in either direction. -/
def withOffset (x : OffsetDateTime) (o : Offset) : R OffsetDateTime := do
  let n := x.ot.nanosecondOfDay + o.nanoseconds - x.ot.offsetNanoseconds
  let (days, n) : Int × Int :=
    if n ≥ NPD then
      (if n - NPD ≥ NPD then (2, n - NPD - NPD) else (1, n - NPD))
    else if n < 0 then
      (if n + NPD < 0 then (-2, n + NPD + NPD) else (-1, n + NPD))
    else (0, n)
  let d ← if days = 0 then .ok x.date else x.date.plusDays days
  .ok ⟨d, OffsetTime.ofParts n o.seconds⟩

/-- `with_calendar` -/
def withCalendar (x : OffsetDateTime) (c : Cal) : R OffsetDateTime := do
  let d ← x.date.withCalendar c
  .ok ⟨d, x.ot⟩

/-- `with_date_adjuster` with an adjuster returning `newDate` -/
def withDate (x : OffsetDateTime) (newDate : Date) : OffsetDateTime := ⟨newDate, x.ot⟩

/-- `with_time_adjuster` with an adjuster returning the time `newNod` -/
def withTime (x : OffsetDateTime) (newNod : Int) : OffsetDateTime := ⟨x.date, x.ot.withTime newNod⟩

/-- `odt + duration`: offset **and calendar** retained (the snapshot passed no calendar to `_ctor` and so
    answered in ISO — DESIGN section 7 row 8, repaired in /repo commit 0dd4cee). -/
def plus (x : OffsetDateTime) (d : Duration) : R OffsetDateTime := do
  let i ← x.toInstant
  let j ← Instant.plus i d
  let o ← x.ot.offset
  ofInstant j o x.calendar

/-- `odt - duration` -/
def minusDur (x : OffsetDateTime) (d : Duration) : R OffsetDateTime := do
  let i ← x.toInstant
  let j ← Instant.minusDur i d
  let o ← x.ot.offset
  ofInstant j o x.calendar

/-- `odt - odt` -/
def minus (a b : OffsetDateTime) : R Duration := do
  let i ← a.toInstant
  let j ← b.toInstant
  Instant.minus i j

/-- `==`: same local date (calendar and day) and same packed time/offset -/
def beq (a b : OffsetDateTime) : Bool :=
  decide (a.date.cal.ord = b.date.cal.ord) && decide (a.date.days = b.date.days)
    && decide (a.ot.nanosecondOfDay = b.ot.nanosecondOfDay) && decide (a.ot.offsetSeconds = b.ot.offsetSeconds)

end OffsetDateTime

/-! ## OffsetDate -/

structure OffsetDate where
  date : Date
  offset : Offset
  deriving DecidableEq, Repr, Inhabited

namespace OffsetDate
def withOffset (x : OffsetDate) (o : Offset) : OffsetDate := ⟨x.date, o⟩
def withCalendar (x : OffsetDate) (c : Cal) : R OffsetDate := do
  let d ← x.date.withCalendar c
  .ok ⟨d, x.offset⟩
def withDate (x : OffsetDate) (newDate : Date) : OffsetDate := ⟨newDate, x.offset⟩
/-- `OffsetDate.at(time)` -/
def atTime (x : OffsetDate) (nod : Int) : OffsetDateTime := OffsetDateTime.ofLocal x.date nod x.offset
end OffsetDate

namespace OffsetDateTime
/-- `to_offset_date` -/
def toOffsetDate (x : OffsetDateTime) : R OffsetDate := do
  let o ← x.ot.offset
  .ok ⟨x.date, o⟩
end OffsetDateTime

namespace OffsetTime
/-- `OffsetTime.on(date)` -/
def on (t : OffsetTime) (d : Date) : R OffsetDateTime := do
  let o ← t.offset
  .ok (OffsetDateTime.ofLocal d t.nanosecondOfDay o)
end OffsetTime

/-! ## ZonedDateTime over an abstract zone -/

abbrev Zone := Instant → R Offset

structure ZonedDateTime where
  odt : OffsetDateTime
  deriving DecidableEq, Repr, Inhabited

namespace ZonedDateTime

/-- `ZonedDateTime(instant=, zone=, calendar=)` = `Instant.in_zone(zone, calendar)` -/
def ofInstant (z : Zone) (i : Instant) (c : Cal) : R ZonedDateTime := do
  let o ← z i
  let x ← OffsetDateTime.ofInstant i o c
  .ok ⟨x⟩

/-- `ZonedDateTime(local_date_time=, zone=, offset=)`: the offset must be the zone's at the implied instant. -/
def ofLocal (z : Zone) (d : Date) (nod : Int) (o : Offset) : R ZonedDateTime := do
  let l ← LocalInstant.ofDuration ⟨d.days, nod⟩
  let cand ← LocalInstant.minus l o
  let correct ← z cand
  if correct.seconds ≠ o.seconds then .error .valueError
  else .ok ⟨OffsetDateTime.ofLocal d nod o⟩

def toInstant (x : ZonedDateTime) : R Instant := x.odt.toInstant
def toOffsetDateTime (x : ZonedDateTime) : OffsetDateTime := x.odt

/-- `zdt + duration`: new instant, same zone and calendar, offset re-derived from the zone. -/
def plus (z : Zone) (x : ZonedDateTime) (d : Duration) : R ZonedDateTime := do
  let i ← x.toInstant
  let j ← Instant.plus i d
  ofInstant z j x.odt.calendar

/-- `zdt - duration`, written `zdt + (-duration)` on this tree (no `__sub__` in the port). -/
def minusDur (z : Zone) (x : ZonedDateTime) (d : Duration) : R ZonedDateTime := do
  let n ← Duration.neg d
  plus z x n

/-- `with_zone` (`zdt.to_instant().in_zone(zone2, zdt.calendar)` on this tree) -/
def withZone (z2 : Zone) (x : ZonedDateTime) : R ZonedDateTime := do
  let i ← x.toInstant
  ofInstant z2 i x.odt.calendar

/-- `with_calendar` (`zdt.to_instant().in_zone(zdt.zone, calendar)` on this tree) -/
def withCalendar (z : Zone) (x : ZonedDateTime) (c : Cal) : R ZonedDateTime := do
  let i ← x.toInstant
  ofInstant z i c

/-- `zdt - zdt` (`a.to_instant() - b.to_instant()`) -/
def minus (a b : ZonedDateTime) : R Duration := do
  let i ← a.toInstant
  let j ← b.toInstant
  Instant.minus i j

end ZonedDateTime

/-! ## concrete zones for the driver -/

/-- A zone known on the window `[lo, hi)` (nanoseconds since the epoch) with one transition at `t`:
    offset `before` on `[lo, t)`, `after` on `[t, hi)`.  Outside the window the model says nothing. -/
structure ZoneSpec where
  t : Int
  before : Int
  after : Int
  lo : Int
  hi : Int
  deriving DecidableEq, Repr, Inhabited

def ZoneSpec.toZone (s : ZoneSpec) : Zone := fun i =>
  let v := i.dur.days * NPD + i.dur.nod
  if v < s.lo ∨ v ≥ s.hi then .error .decimalDomain
  else if v < s.t then Offset.ctor s.before else Offset.ctor s.after

/-! ## line protocol -/

namespace OffsetTypes
open Elapsed

def showOdt : R OffsetDateTime → String :=
  showR (fun x => showInts [x.date.cal.ord, x.date.days, x.ot.nanosecondOfDay, x.ot.offsetSeconds])
def showZdt : R ZonedDateTime → String := fun r => showOdt (r.map (·.odt))

/-- odt on the wire: `ord minDays maxDays days nod off`; returns `none` when the time part is outside the
    packing domain (the caller answers `!dom`). -/
def mkOdt (ord mn mx days nod off : Int) : OffsetDateTime :=
  ⟨⟨⟨ord, mn, mx⟩, days⟩, OffsetTime.ofParts nod off⟩

def dom : Option String := some "!dom"

def otAcc (t : OffsetTime) : String :=
  " ".intercalate [toString t.packed, toString t.nanosecondOfDay, toString t.offsetSeconds, showI t.hour, showI t.minute,
    showI t.second, showI t.millisecond, showI t.tickOfSecond, showI t.tickOfDay, toString t.nanosecondOfSecond]

def handleInts (op : String) (a : List Int) : Option String :=
  match op, a with
  | "odt.new", [ord, mn, mx, days, nod, off] =>
      if !OffsetTime.inPackDomain nod then dom else
      let r : R OffsetDateTime := do
        let d ← Date.ofDays ⟨ord, mn, mx⟩ days
        let o ← Offset.fromSeconds off
        .ok (OffsetDateTime.ofLocal d nod o)
      match r with
      | .error _ => some (showOdt r)
      | .ok x => some (showOdt r ++ " | " ++ showInst x.toInstant)
  | "odt.ofinst", [ord, mn, mx, idays, inod, off] =>
      some (showOdt (do let o ← Offset.fromSeconds off; OffsetDateTime.ofInstant ⟨⟨idays, inod⟩⟩ o ⟨ord, mn, mx⟩))
  | "odt.toinst", [ord, mn, mx, days, nod, off] =>
      if !OffsetTime.inPackDomain nod then dom else
      some (showInst (mkOdt ord mn mx days nod off).toInstant)
  | "odt.withoff", [ord, mn, mx, days, nod, off, off2] =>
      if !OffsetTime.inPackDomain nod then dom else
      some (showOdt (do let o ← Offset.fromSeconds off2; (mkOdt ord mn mx days nod off).withOffset o))
  | "odt.withcal", [ord, mn, mx, days, nod, off, ord2, mn2, mx2] =>
      if !OffsetTime.inPackDomain nod then dom else
      some (showOdt ((mkOdt ord mn mx days nod off).withCalendar ⟨ord2, mn2, mx2⟩))
  | "odt.withdate", [ord, mn, mx, days, nod, off, ord2, mn2, mx2, days2] =>
      if !OffsetTime.inPackDomain nod then dom else
      some (showOdt (do let d ← Date.ofDays ⟨ord2, mn2, mx2⟩ days2; .ok ((mkOdt ord mn mx days nod off).withDate d)))
  | "odt.withtime", [ord, mn, mx, days, nod, off, nod2] =>
      if !OffsetTime.inPackDomain nod || !OffsetTime.inPackDomain nod2 then dom else
      some (showOdt (.ok ((mkOdt ord mn mx days nod off).withTime nod2)))
  | "odt.plus", [ord, mn, mx, days, nod, off, dd, dn] =>
      if !OffsetTime.inPackDomain nod then dom else
      some (showOdt ((mkOdt ord mn mx days nod off).plus ⟨dd, dn⟩))
  | "odt.minus", [ord, mn, mx, days, nod, off, dd, dn] =>
      if !OffsetTime.inPackDomain nod then dom else
      some (showOdt ((mkOdt ord mn mx days nod off).minusDur ⟨dd, dn⟩))
  | "odt.sub", [ord, mn, mx, days, nod, off, ord2, mn2, mx2, days2, nod2, off2] =>
      if !OffsetTime.inPackDomain nod || !OffsetTime.inPackDomain nod2 then dom else
      some (showDur ((mkOdt ord mn mx days nod off).minus (mkOdt ord2 mn2 mx2 days2 nod2 off2)))
  | "odt.eq", [ord, mn, mx, days, nod, off, ord2, mn2, mx2, days2, nod2, off2] =>
      if !OffsetTime.inPackDomain nod || !OffsetTime.inPackDomain nod2 then dom else
      some (showBool ((mkOdt ord mn mx days nod off).beq (mkOdt ord2 mn2 mx2 days2 nod2 off2)))
  | "odate.at", [ord, mn, mx, days, off, nod] =>
      if !OffsetTime.inPackDomain nod then dom else
      some (showOdt (do
        let d ← Date.ofDays ⟨ord, mn, mx⟩ days
        let o ← Offset.fromSeconds off
        .ok ((⟨d, o⟩ : OffsetDate).atTime nod)))
  | "odate.withcal", [ord, mn, mx, days, off, ord2, mn2, mx2] =>
      some (showR (fun (x : OffsetDate) => showInts [x.date.cal.ord, x.date.days, x.offset.seconds]) (do
        let d ← Date.ofDays ⟨ord, mn, mx⟩ days
        let o ← Offset.fromSeconds off
        (⟨d, o⟩ : OffsetDate).withCalendar ⟨ord2, mn2, mx2⟩))
  | "odt.todate", [ord, mn, mx, days, nod, off] =>
      if !OffsetTime.inPackDomain nod then dom else
      some (showR (fun (x : OffsetDate) => showInts [x.date.cal.ord, x.date.days, x.offset.seconds])
        (mkOdt ord mn mx days nod off).toOffsetDate)
  | "otime.pack", [nod, off] =>
      if !OffsetTime.inPackDomain nod then dom else some (otAcc (OffsetTime.ofParts nod off))
  | "otime.raw", [p] => some (otAcc ⟨p⟩)
  | "otime.withoff", [nod, off, off2] =>
      if !OffsetTime.inPackDomain nod then dom else
      some (showR (fun (t : OffsetTime) => showInts [t.packed, t.nanosecondOfDay, t.offsetSeconds])
        (do let o ← Offset.fromSeconds off2; .ok ((OffsetTime.ofParts nod off).withOffset o)))
  | "otime.on", [nod, off, ord, mn, mx, days] =>
      if !OffsetTime.inPackDomain nod then dom else
      some (showOdt (do let d ← Date.ofDays ⟨ord, mn, mx⟩ days; (OffsetTime.ofParts nod off).on d))
  | _, _ => none

/-- zone on the wire: `id t before after lo hi` (the id is for the implementation side only) -/
def handleZoned (op : String) (a : List Int) (zs : List ZoneSpec) : Option String :=
  match op, a, zs with
  | "zdt.ofinst", [ord, mn, mx, idays, inod], [z] =>
      some (showZdt (ZonedDateTime.ofInstant z.toZone ⟨⟨idays, inod⟩⟩ ⟨ord, mn, mx⟩))
  | "zdt.new", [ord, mn, mx, days, nod, off], [z] =>
      if !OffsetTime.inPackDomain nod then dom else
      some (showZdt (do
        let d ← Date.ofDays ⟨ord, mn, mx⟩ days
        let o ← Offset.fromSeconds off
        ZonedDateTime.ofLocal z.toZone d nod o))
  | "zdt.plus", [ord, mn, mx, days, nod, off, dd, dn], [z] =>
      if !OffsetTime.inPackDomain nod then dom else
      some (showZdt (ZonedDateTime.plus z.toZone ⟨mkOdt ord mn mx days nod off⟩ ⟨dd, dn⟩))
  | "zdt.minus", [ord, mn, mx, days, nod, off, dd, dn], [z] =>
      if !OffsetTime.inPackDomain nod then dom else
      some (showZdt (ZonedDateTime.minusDur z.toZone ⟨mkOdt ord mn mx days nod off⟩ ⟨dd, dn⟩))
  | "zdt.withzone", [ord, mn, mx, days, nod, off], [z2] =>
      if !OffsetTime.inPackDomain nod then dom else
      some (showZdt (ZonedDateTime.withZone z2.toZone ⟨mkOdt ord mn mx days nod off⟩))
  | "zdt.withcal", [ord, mn, mx, days, nod, off, ord2, mn2, mx2], [z] =>
      if !OffsetTime.inPackDomain nod then dom else
      some (showZdt (ZonedDateTime.withCalendar z.toZone ⟨mkOdt ord mn mx days nod off⟩ ⟨ord2, mn2, mx2⟩))
  | "zdt.sub", [ord, mn, mx, days, nod, off, ord2, mn2, mx2, days2, nod2, off2], [] =>
      if !OffsetTime.inPackDomain nod || !OffsetTime.inPackDomain nod2 then dom else
      some (showDur (ZonedDateTime.minus ⟨mkOdt ord mn mx days nod off⟩ ⟨mkOdt ord2 mn2 mx2 days2 nod2 off2⟩))
  | _, _, _ => none

def parseZone? (l : List String) : Option ZoneSpec :=
  match l with
  | [_, t, b, a, lo, hi] => do
      let l ← parseInts? [t, b, a, lo, hi]
      match l with
      | [t, b, a, lo, hi] => some ⟨t, b, a, lo, hi⟩
      | _ => none
  | _ => none

def handle (toks : List String) : Option String :=
  match toks with
  | [] => none
  | op :: rest =>
    if op.startsWith "zdt." then
      -- integer arguments, then `Z` followed by the six zone tokens (optional)
      match rest.span (· != "Z") with
      | (a, []) => do let a ← parseInts? a; handleZoned op a []
      | (a, _ :: z) => do let a ← parseInts? a; let z ← parseZone? z; handleZoned op a [z]
    else if op.startsWith "odt." || op.startsWith "odate." || op.startsWith "otime." then do
      let a ← parseInts? rest
      handleInts op a
    else none

end OffsetTypes
end Pyoda
