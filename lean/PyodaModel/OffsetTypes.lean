/- PyodaModel.OffsetTypes — placeholder until the area is modelled. -/
import PyodaModel.Prelude

namespace Pyoda.OffsetTypes

def handle (_toks : List String) : Option String := none

end Pyoda.OffsetTypes
