import PyodaProofs.Basic
import PyodaProofs.C03
import PyodaProofs.C04
import PyodaProofs.C04Spec
import PyodaProofs.C05
import PyodaProofs.C16
import PyodaProofs.C18
import PyodaProofs.C19
