import PyodaProofs.Basic
import PyodaProofs.C03
