import PyodaModel.Dispatch
open Pyoda

partial def loop (hin : IO.FS.Stream) (hout : IO.FS.Stream) : IO Unit := do
  let line ← hin.getLine
  if line.isEmpty then return ()
  let l := String.ofList (line.toList.filter (fun c => c != '\n' && c != '\r'))
  if l = "#flush" then
    hout.putStrLn "#flushed"; hout.flush
  else
    hout.putStrLn (dispatch l)
  loop hin hout

def main : IO Unit := do
  let hin ← IO.getStdin
  let hout ← IO.getStdout
  loop hin hout
  hout.flush
